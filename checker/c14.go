package main

import (
	"fmt"
	"go/token"
	"go/types"
	"strings"

	"golang.org/x/tools/go/ssa"
)

func init() {
	register("C14", &propCheck{
		explain: "Decides the structural clauses of buffering: (R14.1) spill-file pairing - the one os.CreateTemp is stored in Buffer.diskBuffer, released by Close+os.Remove(name) reached only through closeOnce in Buffer.Close, and every Buffer created is closed on every path of its creator (deferred before the handler runs, or on the copy-error path) or handed to the proxy as the request body; (R14.2) the target is contacted only on the nil-error branch of complete buffering, size overflow -> 413, other -> 500; (R14.3) an overflowed response writes nothing of the body (Overflowed() dominates every write to the client, middleware answers 500), writes never reach the client unless bypass, bypass only for text/event-stream, nothing is sent after a hijack; (R14.4) Buffer.Write: the limit test precedes every write and sets overflowed, memory writes happen only before the spill exists (order preservation) and only within maxMemBytes (guard or slice bound), the disk part continues exactly where the memory part stopped, reads go memory then disk from offset 0; (R14.5) wiring and same-typed size arguments; (R14.6) wrappers keep Hijack/Flush; (R14.7) the request-buffering middleware alters nothing but Body.",
		notDecided: []string{"exact arithmetic at the memory/disk boundary and > vs >= at the limit (value level)", "client-abort paths inside net/http"},
		run:        checkC14,
	})
}

func checkC14(c *Ctx) {
	r141(c, "R14.1 spill-file-pairing")
	r142(c)
	r143(c)
	r144(c, "R14.4 buffer-write-discipline")
	rStatusKept(c, "R14.9 buffered-status-kept")
	rSendNoEmptyWrite(c, "R14.10 nothing-written-when-nothing-buffered")
	r145(c)
	r146(c, "R14.6 wrappers-keep-hijack-and-flush")
	r147(c)
	// the limits and flags are per-service settings that outlive the process: each must reach the state file
	persistedFields(c, "R14.8 buffering-settings-survive-restart", "TargetOptions", nil)
}

func r141(c *Ctx, rule string) {
	c.floor(rule, 9)
	diskF := c.field("Buffer", "diskBuffer")
	// acquire: exactly one os.CreateTemp in the proxy besides the state file's
	n := 0
	for _, fn := range c.proxyFuncs() {
		for _, cs := range callsToName(fn, "os.CreateTemp") {
			// (the state file's temporary file: made in the snapshot routine, R12.1's business)
			if o := fname(outer(fn)); o == "(*server.Router).writeStateFile" || o == "(*server.Router).saveStateSnapshot" {
				continue
			}
			n++
			stored := false
			for _, w := range c.writesOfField(diskF) {
				if w.fn == fn && w.val == resultOf(cs.instr.(*ssa.Call), 0) {
					if isNil, _ := nilKnowledge(w.instr, sameAs(errResultOf(cs.instr.(*ssa.Call)))); isNil {
						stored = true
					}
				}
			}
			c.ob(rule, "os.CreateTemp in "+fname(fn)+"/owned-by-Buffer.diskBuffer", cs.pos(), stored && fname(fn) == "(*server.Buffer).createSpill", true, "every spill file must be recorded in Buffer.diskBuffer (so that Close can remove it)")
		}
	}
	c.ob(rule, "one-spill-creation-site", diskF.Pos(), n == 1, false, "")
	for _, w := range c.writesOfField(diskF) {
		c.ob(rule, "write Buffer.diskBuffer <- "+fname(w.fn), w.instr.Pos(), fname(w.fn) == "(*server.Buffer).createSpill", false, "only createSpill sets the spill file")
	}
	// release: what Buffer.Close runs through closeOnce.Do (a closure, or a method value) closes the spill and removes it
	// by name whenever it exists (discardSpill of the reference tree is de-anchored: expanded into that closure where
	// it is called; as a method value it is analysed as the function it is)
	bc := c.method("Buffer", "Close")
	var ds *ssa.Function
	okOnce := false
	for _, cs := range callsToName(bc, "(*sync.Once).Do") {
		var run *ssa.Function
		if cl := closureFunc(cs.common().Args[1]); cl != nil {
			run = cl
		}
		if mc, isMC := cs.common().Args[1].(*ssa.MakeClosure); isMC && len(mc.Bindings) == 1 && mc.Bindings[0] == ssa.Value(bc.Params[0]) {
			if f, _ := mc.Fn.(*ssa.Function); f != nil && f.Synthetic != "" && f.Object() != nil {
				// bound method value: the method itself
				for _, cand := range c.proxyFuncs() {
					if cand.Object() == f.Object() {
						run = cand
					}
				}
			}
		}
		if run != nil {
			ds = run
			_, skip := reach(bc, nil, isReturn, func(in ssa.Instruction) bool { return in == cs.instr })
			okOnce = !skip
		}
	}
	c.ob(rule, "Buffer.Close/discards-spill-exactly-once", bc.Pos(), okOnce, true, "Close must run the spill's release through closeOnce on every path")
	if ds == nil {
		return
	}
	var closed, removed bool
	for _, f := range withAnon(ds) {
		for _, cs := range callsIn(f) {
			_, nn := nilKnowledge(cs.instr, matchFieldLoad(diskF))
			switch calleeName(cs.common()) {
			case "(*os.File).Close":
				if isLoadOfField(cs.common().Args[0], diskF) && nn {
					closed = true
				}
			case "os.Remove":
				if call, ok := resolve(cs.common().Args[0]).(*ssa.Call); ok && calleeName(call.Common()) == "(*os.File).Name" && isLoadOfField(call.Call.Args[0], diskF) && nn {
					removed = true
				}
			}
		}
	}
	c.ob(rule, "discardSpill/closes-and-removes-the-file", ds.Pos(), closed && removed, true, "")
	// the removal is unconditional once a spill exists
	for _, f := range withAnon(ds) {
		for _, cs := range callsToName(f, "os.Remove") {
			extra := 0
			for _, ce := range dominatingConds(cs.instr.Block()) {
				cm, ok := ce.asCmp()
				if ok && cm.op == token.NEQ && isLoadOfField(cm.x, diskF) && isNilConst(cm.y) {
					continue
				}
				extra++
			}
			c.ob(rule, "discardSpill/remove-unconditional", cs.pos(), extra == 0, true, "the spill must be removed whenever it exists")
		}
	}
	// nobody else removes spill files
	for _, fn := range c.proxyFuncs() {
		for _, cs := range callsToName(fn, "os.Remove") {
			if call, ok := resolve(cs.common().Args[0]).(*ssa.Call); ok && calleeName(call.Common()) == "(*os.File).Name" && isLoadOfField(call.Call.Args[0], diskF) {
				c.ob(rule, "spill removed in "+fname(outer(fn)), cs.pos(), outer(fn) == outer(ds), false, "the spill file is released only by what Buffer.Close runs once")
			}
		}
	}
	// creators close or transfer
	nbr := c.fn("NewBufferedReadCloser")
	// the buffer being filled: the destination of the io.Copy (a literal, or one made by the other constructor)
	var buf ssa.Value
	okErrClose := false
	var copyCall *ssa.Call
	for _, cs := range callsToName(nbr, "io.Copy") {
		copyCall = cs.instr.(*ssa.Call)
		if d := stripConv(copyCall.Call.Args[0]); namedOf(d.Type()) == modulePath+"/internal/server.Buffer" {
			buf = d
		}
	}
	if buf != nil && copyCall != nil {
		for _, ret := range normalReturns(nbr) {
			if _, nn := nilKnowledge(ret, sameAs(errResultOf(copyCall))); !nn {
				continue
			}
			for _, cs := range callsTo(nbr, bc) {
				if stripConv(cs.common().Args[0]) == buf && dominates(cs.instr, ret) {
					okErrClose = true
				}
			}
		}
	}
	if !okErrClose && buf != nil && copyCall != nil {
		// path by path: every way of returning with the copy's error non-nil passes a Close of that buffer
		ps, complete := enumPathsX(nbr, func(*ssa.Return) bool { return true }, 512)
		if complete {
			n, all := 0, true
			for _, p := range ps {
				if _, nn := nilKnowledgeOf(p.conds, sameAs(errResultOf(copyCall))); !nn {
					continue
				}
				n++
				closed := false
				for _, b := range p.blocks {
					for _, in := range b.Instrs {
						if ci, ok := in.(ssa.CallInstruction); ok && isCallTo(ci.Common(), bc) && resolve(stripConv(ci.Common().Args[0])) == resolve(buf) {
							closed = true
						}
					}
				}
				if !closed {
					all = false
				}
			}
			okErrClose = n >= 1 && all
		}
	}
	c.ob(rule, "NewBufferedReadCloser/copy-error-closes-buffer", nbr.Pos(), okErrClose, true, "if buffering the request fails part way, the partially filled buffer (and its spill) must be closed")
	rbm := c.method("ResponseBufferMiddleware", "ServeHTTP")
	nbw := c.fn("NewBufferedWriteCloser")
	okDefer := false
	var next ssa.Instruction
	for _, cs := range callsIn(rbm) {
		if cs.common().IsInvoke() && cs.common().Method.Name() == "ServeHTTP" {
			next = cs.instr
		}
	}
	for _, cs := range callsTo(rbm, bc) {
		if d, ok := cs.instr.(*ssa.Defer); ok && next != nil && dominates(d, next) {
			if tracesToCallOf(d.Call.Args[0], nbw, 0) {
				okDefer = true
			}
		}
	}
	c.ob(rule, "ResponseBufferMiddleware/close-deferred-before-handler", rbm.Pos(), okDefer, true, "the response buffer's Close must be DEFERRED before the inner handler runs: ReverseProxy aborts with panic(http.ErrAbortHandler) when the target dies mid-body, and only a deferred Close still removes the spill file")
	// request side: buffer becomes the request body handed to next
	qbm := c.method("RequestBufferMiddleware", "ServeHTTP")
	okBody := false
	for _, cs := range callsTo(qbm, nbr) {
		rb := resultOf(cs.instr.(*ssa.Call), 0)
		for _, b := range qbm.Blocks {
			for _, in := range b.Instrs {
				if st, ok := in.(*ssa.Store); ok && st.Val == rb {
					if f, base, ok := fieldOfAddr(st.Addr); ok && f.Name() == "Body" && base == ssa.Value(qbm.Params[2]) {
						okBody = true
					}
				}
			}
		}
	}
	c.ob(rule, "RequestBufferMiddleware/buffer-becomes-request-body", qbm.Pos(), okBody, true, "ownership of the request buffer passes to the proxied request (httputil.ReverseProxy closes outreq.Body: net/http/httputil/reverseproxy.go 'defer outreq.Body.Close()')")
	// who creates buffers
	for _, f := range []*ssa.Function{nbr, nbw} {
		for _, u := range c.usesOfFunc(f) {
			o := fname(outer(u.in))
			ok := o == "(*server.RequestBufferMiddleware).ServeHTTP" || o == "(*server.ResponseBufferMiddleware).ServeHTTP" ||
				(f == nbw && o == "server.NewBufferedReadCloser") // one constructor may build on the other: its own error path and its callers are checked above
			c.ob(rule, "call "+f.Name()+" <- "+o, u.instr.Pos(), ok, false, "buffers are created only by the two buffering middlewares (whose cleanup is checked above)")
		}
	}
}

func r142(c *Ctx) {
	const rule = "R14.2 contact-only-after-whole-body"
	c.floor(rule, 5)
	qbm := c.method("RequestBufferMiddleware", "ServeHTTP")
	nbr := c.fn("NewBufferedReadCloser")
	tooBig := c.global(c.server, "ErrMaximumSizeExceeded")
	cs := callsTo(qbm, nbr)
	if len(cs) != 1 {
		c.undecided(rule, "RequestBufferMiddleware/shape", qbm.Pos(), "expected one NewBufferedReadCloser call")
		return
	}
	call := cs[0].instr.(*ssa.Call)
	e := errResultOf(call)
	c.ob(rule, "RequestBufferMiddleware/buffers-the-request-body", call.Pos(), func() bool {
		f, base, ok := fieldLoad(call.Call.Args[0])
		return ok && f.Name() == "Body" && base == ssa.Value(qbm.Params[2])
	}(), true, "")
	for _, x := range callsIn(qbm) {
		if x.common().IsInvoke() && x.common().Method.Name() == "ServeHTTP" {
			isNil, _ := nilKnowledge(x.instr, sameAs(e))
			c.ob(rule, "RequestBufferMiddleware/next-only-after-complete-buffering", x.pos(), isNil, true, "the target may be contacted only when the whole body was buffered without error")
		}
	}
	var saw413, saw500 bool
	for _, s := range c.errorSites() {
		if s.fn != qbm {
			continue
		}
		_, onErr := nilKnowledge(s.instr, sameAs(e))
		isTooBig := false
		for _, ce := range dominatingConds(s.instr.Block()) {
			if cm, ok := ce.asCmp(); ok && cm.op == token.EQL && ((nonNilSource(cm.x) == e && isLoadOfGlobal(cm.y, tooBig)) || (nonNilSource(cm.y) == e && isLoadOfGlobal(cm.x, tooBig))) {
				isTooBig = true
			}
			if call, ok := ce.cond.(*ssa.Call); ok && ce.taken && calleeName(call.Common()) == "errors.Is" && isLoadOfGlobal(call.Call.Args[1], tooBig) {
				isTooBig = true
			}
		}
		if s.status == 413 {
			saw413 = true
			c.ob(rule, "RequestBufferMiddleware/413-iff-size-limit", s.instr.Pos(), onErr && isTooBig, true, "")
		}
		if s.status == 500 {
			saw500 = true
			c.ob(rule, "RequestBufferMiddleware/500-on-other-buffering-errors", s.instr.Pos(), onErr && !isTooBig, true, "")
		}
	}
	c.ob(rule, "RequestBufferMiddleware/has-413-and-500", qbm.Pos(), saw413 && saw500, false, "")
	// NewBufferedReadCloser: returns the buffer only after io.Copy(buf, r) returned nil
	okCopy := false
	for _, x := range callsToName(nbr, "io.Copy") {
		cp := x.instr.(*ssa.Call)
		if stripConv(cp.Call.Args[1]) != ssa.Value(nbr.Params[0]) {
			continue
		}
		for _, ret := range normalReturns(nbr) {
			if isNilConst(lastRet(ret)) {
				if isNil, _ := nilKnowledge(ret, sameAs(errResultOf(cp))); isNil && stripConv(retVal(ret, 0)) == stripConv(cp.Call.Args[0]) {
					okCopy = true
				}
			}
		}
	}
	c.ob(rule, "NewBufferedReadCloser/returns-after-copy-to-EOF", nbr.Pos(), okCopy, true, "")
}

func r143(c *Ctx) {
	const rule = "R14.3 overflow-sends-no-body-and-bypass-rules"
	c.floor(rule, 9)
	send := c.method("bufferedResponseWriter", "Send")
	ovf := c.method("Buffer", "Overflowed")
	hijF := c.field("bufferedResponseWriter", "hijacked")
	bypF := c.field("bufferedResponseWriter", "bypass")
	var oc *ssa.Call
	for _, cs := range callsTo(send, ovf) {
		oc = cs.instr.(*ssa.Call)
	}
	if !c.ob(rule, "Send/tests-overflow", send.Pos(), oc != nil, true, "") {
		return
	}
	for _, cs := range callsIn(send) {
		toClient := (cs.common().IsInvoke() && (cs.common().Method.Name() == "WriteHeader" || cs.common().Method.Name() == "Write")) || isCallTo(cs.common(), c.method("Buffer", "Send"))
		if !toClient {
			continue
		}
		_, notOver := boolFacts(cs.instr, sameAs(oc))
		_, notHij := boolFacts(cs.instr, matchFieldLoad(hijF))
		c.ob(rule, "Send/client-write-only-when-not-overflowed-and-not-hijacked", cs.pos(), notOver && notHij, true, "nothing of an over-limit response (and nothing after a hijack) may be written to the client")
	}
	tooBig := c.global(c.server, "ErrMaximumSizeExceeded")
	okRet := false
	for _, ret := range normalReturns(send) {
		if t, _ := boolFacts(ret, sameAs(oc)); t && isLoadOfGlobal(lastRet(ret), tooBig) {
			okRet = true
		}
	}
	c.ob(rule, "Send/overflow=>ErrMaximumSizeExceeded", send.Pos(), okRet, true, "")
	rbm := c.method("ResponseBufferMiddleware", "ServeHTTP")
	n500 := 0
	for _, s := range c.errorSites() {
		if s.fn == rbm {
			n500++
			// (answered directly: the target's headers are already in the header map, and the error-page path renders a
			// page over them - http.Error resets what it must; there is no embedded page for 500 either)
			c.ob(rule, "ResponseBufferMiddleware/send-error=>500", s.instr.Pos(), s.status == 500 && s.via != "SetErrorResponse", true, "a response that cannot be sent is answered 500 by http.Error, not through the error-page machinery")
		}
	}
	c.ob(rule, "ResponseBufferMiddleware/answers-500-on-overflow", rbm.Pos(), n500 >= 1, false, "")
	// Write: forwards to the client only under bypass
	w := c.method("bufferedResponseWriter", "Write")
	for _, cs := range callsIn(w) {
		if cs.common().IsInvoke() && cs.common().Method.Name() == "Write" {
			on, _ := boolFacts(cs.instr, matchFieldLoad(bypF))
			c.ob(rule, "Write/direct-client-write-only-under-bypass", cs.pos(), on, true, "")
		}
	}
	// bypass set only in SwitchToUnbuffered; called only when ShouldSwitchToUnbuffered
	stu := c.method("bufferedResponseWriter", "SwitchToUnbuffered")
	sstu := c.method("bufferedResponseWriter", "ShouldSwitchToUnbuffered")
	for _, wr := range c.writesOfField(bypF) {
		c.ob(rule, "write bypass <- "+fname(wr.fn), wr.instr.Pos(), wr.fn == stu, false, "")
	}
	for _, u := range c.usesOfFunc(stu) {
		ok := false
		if call, isC := u.instr.(*ssa.Call); isC {
			for _, q := range callsTo(u.in, sstu) {
				if t, _ := boolFacts(call, sameAs(q.instr.(*ssa.Call))); t {
					ok = true
				}
			}
		}
		c.ob(rule, "SwitchToUnbuffered-only-when-ShouldSwitchToUnbuffered in "+fname(u.in), u.instr.Pos(), ok, true, "")
	}
	okSSE := false
	for _, ret := range normalReturns(sstu) {
		if bo, ok := retVal(ret, 0).(*ssa.BinOp); ok && bo.Op == token.EQL {
			if s, ok := constString(bo.Y); ok && s == "text/event-stream" {
				// the left side is the part before ';' of the Content-Type header
				if e, ok := bo.X.(*ssa.Extract); ok && e.Index == 0 {
					if cut, ok := e.Tuple.(*ssa.Call); ok && calleeName(cut.Common()) == "strings.Cut" {
						if sep, _ := constString(cut.Call.Args[1]); sep == ";" {
							if g, ok := cut.Call.Args[0].(*ssa.Call); ok && calleeName(g.Common()) == "(net/http.Header).Get" {
								if h, _ := constString(g.Call.Args[1]); h == "Content-Type" {
									okSSE = true
								}
							}
						}
					}
				}
			}
		}
	}
	c.ob(rule, "ShouldSwitchToUnbuffered/only-event-streams", sstu.Pos(), okSSE, true, "only responses whose media type is exactly text/event-stream bypass the buffer")
	// Hijack marks hijacked and forwards
	hj := c.method("bufferedResponseWriter", "Hijack")
	okH := false
	for _, wr := range c.writesOfField(hijF) {
		if wr.fn == hj {
			if b, ok := constBool(wr.val); ok && b {
				okH = true
			}
		} else {
			c.ob(rule, "write hijacked <- "+fname(wr.fn), wr.instr.Pos(), false, false, "")
		}
	}
	c.ob(rule, "Hijack/marks-hijacked", hj.Pos(), okH, true, "")
	// WriteHeader records the first status only and does not reach the client unless switching to unbuffered
	wh := c.method("bufferedResponseWriter", "WriteHeader")
	direct := 0
	for _, cs := range callsIn(wh) {
		if cs.common().IsInvoke() && cs.common().Method.Name() == "WriteHeader" {
			direct++
		}
	}
	c.ob(rule, "WriteHeader/buffers-status", wh.Pos(), direct == 0, true, "the status must be held back until the body is known to fit")
}

func r144(c *Ctx, rule string) {
	c.floor(rule, 10)
	w := c.method("Buffer", "Write")
	spill := c.method("Buffer", "createSpill")
	diskF, maxF, maxMemF := c.field("Buffer", "diskBuffer"), c.field("Buffer", "maxBytes"), c.field("Buffer", "maxMemBytes")
	memWrittenF, ovfF := c.field("Buffer", "memBytesWritten"), c.field("Buffer", "overflowed")
	tooBig := c.global(c.server, "ErrMaximumSizeExceeded")
	// the limit test: an If whose condition compares against a load of maxBytes
	var limitIfs []*ssa.If
	for _, b := range w.Blocks {
		if len(b.Instrs) == 0 {
			continue
		}
		if ifi, ok := b.Instrs[len(b.Instrs)-1].(*ssa.If); ok {
			if bo, ok := ifi.Cond.(*ssa.BinOp); ok && (isLoadOfField(bo.X, maxF) || isLoadOfField(bo.Y, maxF)) {
				limitIfs = append(limitIfs, ifi)
			}
		}
	}
	c.ob(rule, "Write/has-limit-test", w.Pos(), len(limitIfs) >= 1, true, "")
	// where bytes are stored: Write calls on the memory buffer / the spill file (the two small helpers of the reference
	// tree, writeToMemory and writeToDisk, are always expanded into Write)
	type storeSite struct {
		callSite
		kind  string    // "memory" | "disk"
		data  ssa.Value // what is written
		count ssa.Value // the count the write returned
	}
	var writes []storeSite
	memBufF := c.field("Buffer", "memoryBuffer")
	for _, cs := range callsIn(w) {
		cc := cs.common()
		var target, data ssa.Value
		switch {
		case cc.IsInvoke() && cc.Method.Name() == "Write" && len(cc.Args) == 1:
			target, data = resolve(cc.Value), cc.Args[0]
		case !cc.IsInvoke() && cc.StaticCallee() != nil && cc.StaticCallee().Name() == "Write" && len(cc.Args) == 2:
			target, data = resolve(cc.Args[0]), cc.Args[1]
		default:
			continue
		}
		kind := ""
		if f, _, ok := fieldOfAddr(target); ok && f == memBufF {
			kind = "memory"
		} else if isLoadOfField(target, diskF) {
			kind = "disk"
		} else {
			c.ob(rule, "Write/unrecognised-destination", cs.pos(), false, true, "a Write inside Buffer.Write that goes neither to the memory buffer nor to the spill file")
			continue
		}
		var count ssa.Value
		if call, ok := cs.instr.(*ssa.Call); ok {
			count = resultOf(call, 0)
		}
		writes = append(writes, storeSite{cs, kind, data, count})
	}
	for _, cs := range writes {
		tested := false
		for _, ifi := range limitIfs {
			if dominates(ifi, cs.instr) {
				tested = true
			}
		}
		c.ob(rule, "Write/"+cs.kind+"-write-after-limit-test", cs.pos(), tested, true, "no byte may be stored before the total-size limit was tested (a fast path ahead of the test lets over-limit bodies through)")
	}
	byKind := func(k string) []storeSite {
		var out []storeSite
		for _, s := range writes {
			if s.kind == k {
				out = append(out, s)
			}
		}
		return out
	}
	// overflow branch: sets overflowed, returns ErrMaximumSizeExceeded, reaches no write
	okOvf := false
	for _, ret := range normalReturns(w) {
		if !isLoadOfGlobal(lastRet(ret), tooBig) {
			continue
		}
		set := false
		for _, wr := range c.writesOfField(ovfF) {
			if wr.fn == w && dominates(wr.instr, ret) {
				if b, ok := constBool(wr.val); ok && b {
					set = true
				}
			}
		}
		// on the branch where maxBytes>0 && total+len>maxBytes
		var gt0, over bool
		for _, ce := range dominatingConds(ret.Block()) {
			cm, ok := ce.asCmp()
			if !ok {
				continue
			}
			if isLoadOfField(cm.x, maxF) && cm.op == token.GTR {
				if k, ok := constInt(cm.y); ok && k == 0 {
					gt0 = true
				}
			}
			if isLoadOfField(cm.y, maxF) && cm.op == token.GTR {
				over = true
			}
		}
		// no further condition may exempt a write from the limit
		extra := 0
		for _, ce := range dominatingConds(ret.Block()) {
			if _, isPhi := ce.cond.(*ssa.Phi); isPhi {
				continue // a merged boolean (`a && b` computed by a helper): its operands are listed as well
			}
			cm, ok := ce.asCmp()
			if ok && (isLoadOfField(cm.x, maxF) || isLoadOfField(cm.y, maxF)) {
				continue
			}
			if ok && (isLoadOfField(cm.x, c.field("Buffer", "reader")) || isLoadOfField(cm.y, c.field("Buffer", "reader"))) {
				continue
			}
			extra++
		}
		okOvf = set && gt0 && over && extra == 0
	}
	c.ob(rule, "Write/over-limit=>overflowed+ErrMaximumSizeExceeded", w.Pos(), okOvf, true, "when maxBytes>0 and total+len(p)>maxBytes the buffer must be marked overflowed and the write refused")
	// memory writes only before the spill exists, and within the memory limit
	for _, cs := range byKind("memory") {
		noSpill, _ := nilKnowledge(cs.instr, matchFieldLoad(diskF))
		c.ob(rule, "Write/memory-write-only-before-spill", cs.pos(), noSpill, true, "once the spill file exists every later byte must go to disk: a later chunk written to memory would be read back AHEAD of earlier disk bytes (body reordered)")
		arg := resolve(cs.data)
		bounded := false
		how := ""
		if sl, ok := arg.(*ssa.Slice); ok && sl.X == ssa.Value(w.Params[1]) && sl.Low == nil {
			if bo, ok := sl.High.(*ssa.BinOp); ok && bo.Op == token.SUB && isLoadOfField(bo.X, maxMemF) && isLoadOfField(bo.Y, memWrittenF) {
				bounded, how = true, "slice p[:maxMemBytes-memBytesWritten]"
			}
		} else if arg == ssa.Value(w.Params[1]) {
			// memBytesWritten + n <= maxMemBytes, in any arrangement of the three terms (n <= maxMemBytes - memBytesWritten, ...)
			for _, ce := range dominatingConds(cs.instr.Block()) {
				cm, ok := ce.asCmp()
				if !ok {
					continue
				}
				terms := map[string]int{}
				linearTerms(cm.x, 1, terms)
				linearTerms(cm.y, -1, terms)
				op := cm.op
				if op == token.GEQ || op == token.GTR {
					for k := range terms {
						terms[k] = -terms[k]
					}
					op = map[token.Token]token.Token{token.GEQ: token.LEQ, token.GTR: token.LSS}[op]
				}
				others := 0
				for k, n := range terms {
					if n != 0 && k != "field:"+memWrittenF.Name() && k != "field:"+maxMemF.Name() {
						if n == 1 {
							others++
						} else {
							others = 99
						}
					}
				}
				if (op == token.LEQ || op == token.LSS) && terms["field:"+memWrittenF.Name()] == 1 && terms["field:"+maxMemF.Name()] == -1 && others == 1 {
					bounded, how = true, "guard memBytesWritten+len(p) <= maxMemBytes"
				}
			}
		}
		c.ob(rule, "Write/memory-write-bounded-by-maxMemBytes", cs.pos(), bounded, true, "a write to the in-memory part must be bounded by the memory limit: "+how)
	}
	// the split write is contiguous: disk part is p[n:] where n is what the memory part wrote
	for _, cs := range byKind("disk") {
		arg := resolve(cs.data)
		if arg == ssa.Value(w.Params[1]) {
			// whole chunk to disk: only when a spill already exists
			_, hasSpill := nilKnowledge(cs.instr, matchFieldLoad(diskF))
			c.ob(rule, "Write/whole-chunk-to-disk-only-when-spilled", cs.pos(), hasSpill, true, "")
			continue
		}
		ok := false
		if sl, isSl := arg.(*ssa.Slice); isSl && sl.X == ssa.Value(w.Params[1]) && sl.High == nil {
			for _, m := range byKind("memory") {
				if m.count != nil && resolve(sl.Low) == m.count && dominates(m.instr, cs.instr) {
					ok = true
				}
			}
		}
		c.ob(rule, "Write/disk-part-continues-where-memory-part-stopped", cs.pos(), ok, true, "the remainder written to disk must be p[n:] with n the count the memory write returned")
		// and a spill was created first
		created := false
		for _, sp := range callsTo(w, spill) {
			if isNil, _ := nilKnowledge(cs.instr, sameAs(errResultOf(sp.instr.(*ssa.Call)))); isNil {
				created = true
			}
		}
		c.ob(rule, "Write/spill-created-before-disk-part", cs.pos(), created, true, "")
	}
	for _, sp := range callsTo(w, spill) {
		noSpill, _ := nilKnowledge(sp.instr, matchFieldLoad(diskF))
		c.ob(rule, "Write/spill-created-at-most-once", sp.pos(), noSpill, true, "createSpill only while no spill exists (else the first spill file leaks and its bytes are lost)")
	}
	// counters track what was written: every store site is followed by counter += the count it returned, and nothing else
	// writes the counters
	for _, f := range []struct{ kind, fld string }{{"memory", "memBytesWritten"}, {"disk", "diskBytesWritten"}} {
		cf := c.field("Buffer", f.fld)
		accounted := map[ssa.Instruction]bool{}
		for _, wr := range c.writesOfField(cf) {
			okW := false
			if wr.fn == w {
				if bo, isB := wr.val.(*ssa.BinOp); isB && bo.Op == token.ADD && isLoadOfField(bo.X, cf) {
					if cv, isCv := bo.Y.(*ssa.Convert); isCv {
						for _, s := range byKind(f.kind) {
							if s.count != nil && resolve(cv.X) == s.count && dominates(s.instr, wr.instr) {
								okW = true
								accounted[s.instr] = true
							}
						}
					}
				}
			}
			if !okW {
				c.ob(rule, "write Buffer."+f.fld+" <- "+fname(wr.fn), wr.instr.Pos(), false, false, "the counter may only be advanced by the count a write to its part returned")
			}
		}
		all := len(byKind(f.kind)) >= 1
		for _, s := range byKind(f.kind) {
			if !accounted[s.instr] {
				all = false
			}
		}
		c.ob(rule, f.kind+"-writes/account-bytes-written", w.Pos(), all, true, "")
	}
	// read side: memory first, then disk from offset 0
	sr := c.method("Buffer", "setReader")
	okOrder, okSeek := false, false
	for _, cs := range callsToName(sr, "io.MultiReader") {
		elems := varargElems(cs.common().Args[0])
		if len(elems) == 2 {
			var first, second string
			for _, e := range elems {
				_ = e
			}
			// elements are stored at index 0 and 1: recover order from the IndexAddr constants
			first, second = multiReaderOrder(cs.common().Args[0])
			okOrder = first == "memoryBuffer" && second == "diskBuffer"
		}
		for _, sk := range callsToName(sr, "(*os.File).Seek") {
			o, _ := constInt(sk.common().Args[1])
			wh, _ := constInt(sk.common().Args[2])
			if isLoadOfField(sk.common().Args[0], diskF) && o == 0 && wh == 0 && dominates(sk.instr, cs.instr) {
				okSeek = true
			}
		}
	}
	c.ob(rule, "setReader/memory-then-disk", sr.Pos(), okOrder, true, "reads must return the in-memory part first, then the spill")
	c.ob(rule, "setReader/spill-rewound", sr.Pos(), okSeek, true, "the spill must be rewound to offset 0 before reading")
	_ = fmt.Sprint
}

func multiReaderOrder(v ssa.Value) (string, string) {
	sl, ok := v.(*ssa.Slice)
	if !ok {
		return "", ""
	}
	a, ok := sl.X.(*ssa.Alloc)
	if !ok {
		return "", ""
	}
	names := map[int64]string{}
	for _, r := range *a.Referrers() {
		ia, ok := r.(*ssa.IndexAddr)
		if !ok {
			continue
		}
		idx, _ := constInt(ia.Index)
		for _, rr := range *ia.Referrers() {
			if st, ok := rr.(*ssa.Store); ok && st.Addr == ia {
				src := stripConv(st.Val)
				if fa, ok := src.(*ssa.FieldAddr); ok {
					f, _, _ := fieldOfAddr(fa)
					names[idx] = f.Name()
				} else if f, _, ok := fieldLoad(src); ok {
					names[idx] = f.Name()
				}
			}
		}
	}
	return names[0], names[1]
}

func r145(c *Ctx) {
	const rule = "R14.5 wiring-and-size-arguments"
	c.floor(rule, 10)
	nt := c.fn("NewTarget")
	wq, wr := c.fn("WithRequestBufferMiddleware"), c.fn("WithResponseBufferMiddleware")
	for _, m := range []struct {
		fn              *ssa.Function
		flag, max, kind string
	}{{wq, "BufferRequests", "MaxRequestBodySize", "request"}, {wr, "BufferResponses", "MaxResponseBodySize", "response"}} {
		cs := callsTo(nt, m.fn)
		if len(cs) != 1 {
			c.ob(rule, "NewTarget/"+m.kind+"-buffering-wired", nt.Pos(), false, true, fmt.Sprintf("expected one call of %s, found %d", m.fn.Name(), len(cs)))
			continue
		}
		call := cs[0]
		on := false
		extra := 0
		for _, ce := range condsOtherThanLoop(dominatingConds(call.instr.Block())) {
			if f, _, ok := fieldLoad(ce.cond); ok && f.Name() == m.flag && ce.taken {
				on = true
				continue
			}
			if cm, ok := ce.asCmp(); ok && isErrorType(cm.x.Type()) {
				continue
			}
			extra++
		}
		c.ob(rule, "NewTarget/"+m.kind+"-buffering-iff-flag", call.pos(), on && extra == 0, true, "the middleware must be installed exactly under options."+m.flag)
		a0, _ := fieldPath(call.common().Args[0])
		a1, _ := fieldPath(call.common().Args[1])
		c.ob(rule, "NewTarget/"+m.kind+"-sizes-in-order", call.pos(), len(a0) > 0 && len(a1) > 0 && a0[len(a0)-1].Name() == "MaxMemoryBufferSize" && a1[len(a1)-1].Name() == m.max, true,
			"arguments must be (MaxMemoryBufferSize, "+m.max+"): both are int64, a swap compiles")
		// wraps the handler built so far, result becomes the proxy handler
		phF := c.field("Target", "proxyHandler")
		cph := c.method("Target", "createProxyHandler")
		var chain func(v ssa.Value, d int) bool
		chain = func(v ssa.Value, d int) bool {
			if d > 6 {
				return false
			}
			if isLoadOfField(v, phF) {
				return true
			}
			switch x := resolve(v).(type) {
			case *ssa.Call:
				if isCallTo(x.Common(), cph) {
					return true
				}
				if isCallTo(x.Common(), wq) || isCallTo(x.Common(), wr) {
					return chain(x.Call.Args[2], d+1)
				}
			case *ssa.Phi:
				for _, e := range x.Edges {
					if !chain(e, d+1) {
						return false
					}
				}
				return len(x.Edges) > 0
			}
			return false
		}
		var becomes func(v ssa.Value, d int) bool
		becomes = func(v ssa.Value, d int) bool {
			if d > 6 || v.Referrers() == nil {
				return false
			}
			for _, r := range *v.Referrers() {
				switch x := r.(type) {
				case *ssa.Store:
					if f, _, ok := fieldOfAddr(x.Addr); ok && f == phF && x.Val == v {
						return true
					}
					if a, ok := x.Addr.(*ssa.Alloc); ok && x.Val == v {
						// a local variable holding the handler built so far
						for _, rr := range *a.Referrers() {
							if u, ok := rr.(*ssa.UnOp); ok && u.Op == token.MUL && becomes(u, d+1) {
								return true
							}
						}
					}
				case *ssa.Phi:
					if becomes(x, d+1) {
						return true
					}
				case *ssa.Call:
					if (isCallTo(x.Common(), wq) || isCallTo(x.Common(), wr)) && len(x.Call.Args) == 3 && x.Call.Args[2] == v && becomes(x, d+1) {
						return true
					}
				}
			}
			return false
		}
		cv, _ := call.instr.(ssa.Value)
		c.ob(rule, "NewTarget/"+m.kind+"-wraps-proxy-handler", call.pos(), chain(call.common().Args[2], 0) && cv != nil && becomes(cv, 0), true, "the middleware must wrap the handler built so far (the reverse proxy, possibly already wrapped) and its result must become the target's proxy handler")
	}
	c.paramsToFields(rule, wq, "RequestBufferMiddleware", map[string]string{"maxMemBytes": "maxMemBytes", "maxBytes": "maxBytes", "next": "next"})
	c.paramsToFields(rule, wr, "ResponseBufferMiddleware", map[string]string{"maxMemBytes": "maxMemBytes", "maxBytes": "maxBytes", "next": "next"})
	c.argsFromFields(rule, c.fn("NewBufferedReadCloser"), map[string]string{"maxBytes": "maxBytes", "maxMemBytes": "maxMemBytes"})
	c.argsFromFields(rule, c.fn("NewBufferedWriteCloser"), map[string]string{"maxBytes": "maxBytes", "maxMemBytes": "maxMemBytes"})
	c.paramsToFields(rule, c.fn("NewBufferedReadCloser"), "Buffer", map[string]string{"maxBytes": "maxBytes", "maxMemBytes": "maxMemBytes"})
	// request buffering is outermost (applied last)
	var q, r ssa.Instruction
	for _, cs := range callsTo(nt, wq) {
		q = cs.instr
	}
	for _, cs := range callsTo(nt, wr) {
		r = cs.instr
	}
	okOrder := false
	if q != nil && r != nil {
		_, after := reach(nt, r, func(in ssa.Instruction) bool { return in == q }, nil)
		okOrder = after
	}
	c.ob(rule, "NewTarget/request-buffer-outside-response-buffer", nt.Pos(), okOrder, true, "")
}

func r146(c *Ctx, rule string) {
	c.floor(rule, 6)
	hij := lookupIface(c, "net/http", "Hijacker")
	flu := lookupIface(c, "net/http", "Flusher")
	for _, typ := range []string{"loggerResponseWriter", "targetResponseWriter", "bufferedResponseWriter"} {
		nt := c.named(typ)
		pt := types.NewPointer(nt)
		c.ob(rule, typ+"/implements-http.Hijacker", nt.Obj().Pos(), hij != nil && types.Implements(pt, hij), true, "a wrapper without Hijack breaks WebSocket upgrades through it")
		c.ob(rule, typ+"/implements-http.Flusher", nt.Obj().Pos(), flu != nil && types.Implements(pt, flu), true, "a wrapper without Flush breaks streaming through it")
		// Hijack delegates to the wrapped writer's Hijacker
		h := c.method(typ, "Hijack")
		okD := false
		for _, cs := range callsIn(h) {
			if cs.common().IsInvoke() && cs.common().Method.Name() == "Hijack" {
				okD = true
			}
		}
		c.ob(rule, typ+".Hijack/delegates", h.Pos(), okD, true, "")
	}
}

func lookupIface(c *Ctx, pkg, name string) *types.Interface {
	for _, p := range c.prog.AllPackages() {
		if p.Pkg.Path() == pkg {
			if o := p.Pkg.Scope().Lookup(name); o != nil {
				i, _ := o.Type().Underlying().(*types.Interface)
				return i
			}
		}
	}
	return nil
}

func r147(c *Ctx) {
	const rule = "R14.7 buffering-alters-only-the-body"
	c.floor(rule, 1)
	n := 0
	for _, t := range c.requestTouches() {
		o := fname(outer(t.fn))
		if o != "(*server.RequestBufferMiddleware).ServeHTTP" && o != "(*server.ResponseBufferMiddleware).ServeHTTP" {
			continue
		}
		n++
		c.ob(rule, o+" touches "+t.side+" "+t.what+" "+t.hdr, t.in.Pos(), t.what == "Request.Body" && o == "(*server.RequestBufferMiddleware).ServeHTTP", true,
			"the buffering middlewares may replace the request body only (e.g. recomputing Content-Length from a partial count truncates chunked uploads)")
	}
	c.ob(rule, "request-buffering-replaces-body", c.method("RequestBufferMiddleware", "ServeHTTP").Pos(), n >= 1, false, "")
}

// tracesToCallOf: v is the result of a call of callee, directly, through single-assignment locals, or through a field
// of a local struct literal that was initialised with it (`w := &wrapper{buffer: NewX()}; defer w.buffer.Close()`).
func tracesToCallOf(v ssa.Value, callee *ssa.Function, depth int) bool {
	if depth > 4 {
		return false
	}
	v = resolve(stripConv(v))
	if call, ok := v.(*ssa.Call); ok && isCallTo(call.Common(), callee) {
		return true
	}
	if f, base, ok := fieldLoad(v); ok {
		a, isAlloc := resolve(base).(*ssa.Alloc)
		if !isAlloc {
			return false
		}
		n, all := 0, true
		for _, r := range *a.Referrers() {
			fa, isFA := r.(*ssa.FieldAddr)
			if !isFA {
				continue
			}
			if st := derefStruct(fa.X.Type()); st == nil || st.Field(fa.Field) != f {
				continue
			}
			for _, rr := range *fa.Referrers() {
				if store, isSt := rr.(*ssa.Store); isSt && store.Addr == ssa.Value(fa) {
					n++
					if !tracesToCallOf(store.Val, callee, depth+1) {
						all = false
					}
				}
			}
		}
		return n >= 1 && all
	}
	return false
}

// linearTerms adds the terms of a +/- expression to out with their signs; field loads are keyed by field name
// (object-insensitive), constants by value, anything else by identity.
func linearTerms(v ssa.Value, sign int, out map[string]int) {
	switch x := v.(type) {
	case *ssa.BinOp:
		if x.Op == token.ADD {
			linearTerms(x.X, sign, out)
			linearTerms(x.Y, sign, out)
			return
		}
		if x.Op == token.SUB {
			linearTerms(x.X, sign, out)
			linearTerms(x.Y, -sign, out)
			return
		}
	case *ssa.Convert:
		if _, isBasic := x.X.Type().Underlying().(*types.Basic); isBasic {
			linearTerms(x.X, sign, out)
			return
		}
	case *ssa.Const:
		if k, ok := constInt(x); ok {
			out["const"] += sign * int(k)
			return
		}
	}
	if f, _, ok := fieldLoad(v); ok {
		out["field:"+f.Name()] += sign
		return
	}
	// a one-line arithmetic accessor of the module (`func (b *Buffer) memoryRemaining() int64 { return b.max - b.used }`)
	if call, ok := v.(*ssa.Call); ok {
		if g := call.Call.StaticCallee(); g != nil && g.Pkg != nil && strings.HasPrefix(g.Pkg.Pkg.Path(), modulePath) && len(g.Blocks) == 1 && len(g.Params) == 1 {
			if ret, ok := g.Blocks[0].Instrs[len(g.Blocks[0].Instrs)-1].(*ssa.Return); ok && len(ret.Results) == 1 {
				pure := true
				for _, in := range g.Blocks[0].Instrs {
					switch in.(type) {
					case *ssa.FieldAddr, *ssa.UnOp, *ssa.BinOp, *ssa.Return, *ssa.DebugRef, *ssa.Convert, *ssa.Field:
					default:
						pure = false
					}
				}
				if pure {
					linearTerms(ret.Results[0], sign, out)
					return
				}
			}
		}
	}
	out[fmt.Sprintf("val:%p", v)] += sign
}

// rStatusKept: the buffered writer hands the client the status the target sent: WriteHeader records its argument before
// it marks the header as written (on every path - also the one that switches to unbuffered delivery, which sends the
// recorded status at once), and Send passes the recorded status on (shared by C13, C14).
func rStatusKept(c *Ctx, rule string) {
	c.floor(rule, 2)
	wh := c.method("bufferedResponseWriter", "WriteHeader")
	send := c.method("bufferedResponseWriter", "Send")
	statusF, hwF := c.field("bufferedResponseWriter", "statusCode"), c.field("bufferedResponseWriter", "headerWritten")
	var statusStores []ssa.Instruction
	for _, w := range c.writesOfField(statusF) {
		if w.fn == wh && w.val == ssa.Value(wh.Params[1]) {
			statusStores = append(statusStores, w.instr)
		}
	}
	n := 0
	for _, w := range c.writesOfField(hwF) {
		if w.fn != wh {
			continue
		}
		if b, isC := constBool(w.val); !isC || !b {
			continue
		}
		n++
		ok := false
		for _, st := range statusStores {
			if dominates(st, w.instr) {
				ok = true
			}
		}
		c.ob(rule, "WriteHeader/status-recorded-before-header-marked-written", w.instr.Pos(), ok, true, "once headerWritten is set the recorded status is what reaches the client (at Send, or at once when switching to unbuffered delivery): it must have been stored first")
	}
	c.ob(rule, "WriteHeader/marks-header-written", wh.Pos(), n >= 1, true, "")
	okSend := false
	hijF := c.field("bufferedResponseWriter", "hijacked")
	for _, cs := range callsIn(send) {
		if cs.common().IsInvoke() && cs.common().Method.Name() == "WriteHeader" && len(cs.common().Args) == 1 && isLoadOfField(cs.common().Args[0], statusF) {
			if on, _ := boolFacts(cs.instr, matchFieldLoad(hwF)); on {
				// under nothing but: a header was written, not hijacked, not overflowed (the switch to unbuffered
				// delivery goes through Send with bypass already set: the status must go out on that way too)
				extra := 0
				for _, ce := range dominatingConds(cs.instr.Block()) {
					cond := ce.cond
					for {
						u, isNot := cond.(*ssa.UnOp)
						if !isNot || u.Op != token.NOT {
							break
						}
						cond = u.X
					}
					if f, _, isF := fieldLoad(cond); isF && (f == hwF || f == hijF) {
						continue
					}
					if call, isCall := cond.(*ssa.Call); isCall && call.Call.StaticCallee() != nil && call.Call.StaticCallee().Name() == "Overflowed" {
						continue
					}
					if _, isPhi := cond.(*ssa.Phi); isPhi {
						continue
					}
					extra++
				}
				okSend = extra == 0
			}
		}
	}
	c.ob(rule, "Send/passes-the-recorded-status-on", send.Pos(), okSend, true, "when a header was written, Send must write the recorded status to the client before the body")
}

// rSendNoEmptyWrite: Buffer.Send must not touch the client's writer when there is nothing to send: a zero-length Write
// commits "200 OK", after which the error page for a target that failed before sending anything goes out under 200.
// io.Copy never calls Write for an empty reader; a direct Write must be guarded by a non-empty test (shared by C14, C15).
func rSendNoEmptyWrite(c *Ctx, rule string) {
	c.floor(rule, 1)
	send := c.method("Buffer", "Send")
	w := ssa.Value(send.Params[1])
	nCopy := 0
	for _, cs := range callsIn(send) {
		cc := cs.common()
		if calleeName(cc) == "io.Copy" && len(cc.Args) == 2 && resolve(cc.Args[0]) == w {
			nCopy++
			continue
		}
		usesW := false
		if cc.IsInvoke() && resolve(cc.Value) == w {
			usesW = true
		}
		for _, a := range cc.Args {
			if resolve(a) == w {
				usesW = true
			}
		}
		if !usesW {
			continue
		}
		// some other use of the destination: only with something to write
		nonEmpty := false
		for _, ce := range dominatingConds(cs.instr.Block()) {
			if cm, ok := ce.asCmp(); ok {
				if k, isK := constInt(cm.y); isK && ((cm.op == token.GTR && k == 0) || (cm.op == token.GEQ && k == 1) || (cm.op == token.NEQ && k == 0)) {
					if call, isCall := cm.x.(*ssa.Call); isCall && (strings.HasSuffix(calleeName(call.Common()), ".Len") || calleeName(call.Common()) == "builtin.len") {
						nonEmpty = true
					}
				}
			}
		}
		c.ob(rule, "Send/direct-use-of-the-destination-only-with-data", cs.pos(), nonEmpty, true, "a Write of zero bytes on an http.ResponseWriter commits status 200: the destination may be written directly only under a test that there is something to write (io.Copy does not write for an empty source)")
	}
	c.ob(rule, "Send/delivers-through-io.Copy", send.Pos(), nCopy >= 1, false, "")
}
