package main

import (
	"fmt"
	"go/token"
	"go/types"
	"strings"

	"golang.org/x/tools/go/ssa"
)

func init() {
	register("C11", &propCheck{
		explain: "Decides that nothing observable is dropped or altered on the way through the state file: (R11.1) field coverage - every configuration/runtime field of Service is read by MarshalJSON and written by UnmarshalJSON, every non-legacy field of the persisted form is filled verbatim from the corresponding Service field and read back verbatim (no transformation such as sorting or defaulting on either side: the only writes to the decoded form are the legacy fix-ups, each guarded by 'new field empty && legacy field set'), derived fields are re-derived (initialize is the result of every successful UnmarshalJSON), and every field of every struct reachable from the persisted form is exported and json-tagged except a frozen transient table; (R11.2) restore re-enters the controller through its transition functions (extracted PauseController model from every decoded start state; rollout slot only from a non-empty list); (R11.3) RestoreLastSavedState installs every decoded service under the write lock into a fresh table; (R11.4) 'presumed healthy' is applied only on restore, and probing starts for restored balancers.",
		notDecided: []string{"observational equivalence for every continuation (a bisimulation argument)", "legacy state files"},
		run:        checkC11,
	})
}

func checkC11(c *Ctx) {
	r111(c)
	r071(c, "R11.2 restore-reenters-controller-transitions")
	r104(c, "R11.2b rollout-slot-symmetry")
	r113(c)
	r114(c)
	r117(c)
	// the file a restart reads must reflect every completed command (shared with C12)
	r122(c, "R11.5 state-file-carries-latest-listing")
	r123(c, "R11.6 every-mutating-command-snapshots-after")
	// what the running proxy derives from the services (bindings, inherited TLS flags) is what a restart derives: every
	// change of the table rebuilds the derived state (shared with C04/C05)
	c.floor("R11.8 derived-table-rebuilt-on-every-change", 1)
	c.servicesWriteRebuilds("R11.8 derived-table-rebuilt-on-every-change")
	// a restored balancer refreshes its rotation like a deployed one: nothing but the refresh writes it (shared with C09)
	rRotationOnlyRefreshed(c, "R11.9 rotation-written-only-by-the-refresh")
	// what a deploy writes into a live service's slot is either installed (and saved) or taken back: a failing deploy that
	// leaves anything else in the slot changes the running configuration without a snapshot (shared with C01)
	r011(c, "R11.10 slot-writes-installed-or-undone")
}

var serviceFieldClass = map[string]string{
	"name": "config", "options": "config", "targetOptions": "config",
	"active": "runtime", "rollout": "runtime", "pauseController": "runtime", "rolloutController": "runtime",
	"serviceLock": "lock", "certManager": "derived", "middleware": "derived",
}

// persisted form field -> Service field it mirrors
var persistedMirror = map[string]string{
	"Name": "name", "Options": "options", "TargetOptions": "targetOptions",
	"PauseController": "pauseController", "RolloutController": "rolloutController",
	"ActiveTargets": "active", "RolloutTargets": "rollout",
}

func r111(c *Ctx) {
	const rule = "R11.1 persisted-field-coverage-and-fidelity"
	c.floor(rule, 40)
	mj, um := c.method("Service", "MarshalJSON"), c.method("Service", "UnmarshalJSON")
	svc := c.named("Service").Underlying().(*types.Struct)
	for i := 0; i < svc.NumFields(); i++ {
		f := svc.Field(i)
		class, ok := serviceFieldClass[f.Name()]
		if !ok && c.unobservedNewField("Service", f) {
			c.ob(rule, "Service."+f.Name()+"/new-and-unobserved", f.Pos(), true, false, "a field that does not exist in the reference tree and is read only by new functions: nothing the existing code does depends on it surviving a restart")
			continue
		}
		if !ok {
			c.note("Service.%s has no persistence class (new field): reported, not a violation by itself", f.Name())
			c.ob(rule, "Service."+f.Name()+"/classified", f.Pos(), false, false, "a field of Service that is not in the frozen persistence classification {config, runtime, derived, lock}: decide whether it must survive a restart and add it to MarshalJSON/UnmarshalJSON")
			continue
		}
		switch class {
		case "config", "runtime":
			c.ob(rule, "Service."+f.Name()+"/read-by-MarshalJSON", mj.Pos(), readsFieldVia(mj, f, mj.Params[0]), true, class+" field must be saved")
			written := false
			for _, w := range c.writesOfField(f) {
				if w.fn == um {
					written = true
				}
			}
			c.ob(rule, "Service."+f.Name()+"/written-by-UnmarshalJSON", um.Pos(), written, true, class+" field must be restored")
		}
	}
	// MarshalJSON: persisted form filled verbatim
	ms := c.named("marshalledService").Underlying().(*types.Struct)
	targetsFn, namesFn := c.method("LoadBalancer", "Targets"), c.methodIn(c.server, "TargetList", "Names")
	for i := 0; i < ms.NumFields(); i++ {
		pf := ms.Field(i)
		if strings.HasPrefix(pf.Name(), "Legacy") {
			continue
		}
		mirror, ok := persistedMirror[pf.Name()]
		if !ok {
			c.ob(rule, "marshalledService."+pf.Name()+"/mirror", pf.Pos(), false, false, "persisted field without a known Service counterpart")
			continue
		}
		sf := c.field("Service", mirror)
		var stored ssa.Value
		n := 0
		for _, w := range c.writesOfField(pf) {
			if w.fn == mj {
				stored = w.val
				n++
			}
		}
		verbatim := false
		if n == 1 {
			switch mirror {
			case "active", "rollout":
				// <slot>.Targets().Names(), (rollout: nil when the slot is nil)
				for _, src := range phiSources(stored) {
					if isNilConst(src) {
						continue
					}
					call, ok := src.(*ssa.Call)
					if ok && isCallTo(call.Common(), namesFn) {
						if t, ok := call.Call.Args[0].(*ssa.Call); ok && isCallTo(t.Common(), targetsFn) && isLoadOfField(t.Call.Args[0], sf) {
							verbatim = true
							continue
						}
					}
					verbatim = false
					break
				}
			default:
				f, base, ok := fieldLoad(stored)
				verbatim = ok && f == sf && base == ssa.Value(mj.Params[0])
			}
		}
		c.ob(rule, "MarshalJSON/"+pf.Name()+" = s."+mirror+" verbatim", mj.Pos(), verbatim, true, "the saved value must be exactly the service's current value (reordering, normalising or defaulting it changes what a restart restores)")
	}
	// what is marshalled is that literal
	okM := false
	for _, cs := range callsToName(mj, "encoding/json.Marshal") {
		if mi, ok := cs.common().Args[0].(*ssa.MakeInterface); ok && typeString(mi.X.Type()) == typeString(c.named("marshalledService")) {
			okM = true
		}
	}
	c.ob(rule, "MarshalJSON/marshals-the-persisted-form", mj.Pos(), okM, true, "")
	// UnmarshalJSON: decoded form; stores to it only as guarded legacy fix-ups; Service fields assigned verbatim from it
	var decoded *ssa.Alloc
	for _, cs := range callsToName(um, "encoding/json.Unmarshal") {
		if mi, ok := cs.common().Args[1].(*ssa.MakeInterface); ok {
			if a, ok := mi.X.(*ssa.Alloc); ok {
				decoded = a
			}
		} else if a, ok := cs.common().Args[1].(*ssa.Alloc); ok {
			decoded = a
		}
	}
	if !c.ob(rule, "UnmarshalJSON/decodes-into-local-persisted-form", um.Pos(), decoded != nil, true, "") {
		return
	}
	isDecodedField := func(v ssa.Value) ([]*types.Var, bool) {
		chain, base := fieldPath(v)
		return chain, base == ssa.Value(decoded) && len(chain) > 0
	}
	for _, b := range um.Blocks {
		for _, in := range b.Instrs {
			st, ok := in.(*ssa.Store)
			if !ok {
				continue
			}
			// store into the decoded form?
			var chain []*types.Var
			addr := st.Addr
			for {
				fa, ok := addr.(*ssa.FieldAddr)
				if !ok {
					break
				}
				s := derefStruct(fa.X.Type())
				chain = append([]*types.Var{s.Field(fa.Field)}, chain...)
				addr = fa.X
			}
			if addr != ssa.Value(decoded) || len(chain) == 0 {
				continue
			}
			// must be a legacy fix-up: guarded by len(new)==0 and a legacy field being set, value derived from the legacy field
			var newEmpty, legacySet bool
			for _, ce := range dominatingConds(st.Block()) {
				cm, ok := ce.asCmp()
				if !ok {
					continue
				}
				subject := cm.x
				if call, ok := subject.(*ssa.Call); ok {
					if bi, ok := call.Call.Value.(*ssa.Builtin); ok && bi.Name() == "len" {
						subject = call.Call.Args[0]
					}
				}
				ch, isD := isDecodedField(subject)
				if !isD {
					continue
				}
				last := ch[len(ch)-1].Name()
				if strings.HasPrefix(last, "Legacy") && (cm.op == token.NEQ || cm.op == token.GTR) {
					legacySet = true
				}
				if pathString(ch) == pathString(chain) && cm.op == token.EQL {
					newEmpty = true
				}
			}
			c.ob(rule, "UnmarshalJSON/write-to-decoded ms."+pathString(chain)+"-is-legacy-fixup", st.Pos(), newEmpty && legacySet, true,
				"the decoded state may be altered only to adopt a legacy field when the current field is empty; any other rewrite (defaults, normalisation) makes the restored proxy differ from the one that wrote the file")
		}
	}
	for pfName, mirror := range persistedMirror {
		if mirror == "active" || mirror == "rollout" {
			continue
		}
		sf := c.field("Service", mirror)
		ok := false
		for _, w := range c.writesOfField(sf) {
			if w.fn != um {
				continue
			}
			ch, isD := isDecodedField(w.val)
			if isD && len(ch) == 1 && ch[0].Name() == pfName && onlyErrNilGuards(w.instr) {
				ok = true
			}
		}
		c.ob(rule, "UnmarshalJSON/s."+mirror+" = ms."+pfName+" verbatim", um.Pos(), ok, true, "")
	}
	// slots rebuilt from the saved target names with the saved target options
	ntl, nlb := c.fn("NewTargetList"), c.fn("NewLoadBalancer")
	for _, slot := range []struct{ field, names string }{{"active", "ActiveTargets"}, {"rollout", "RolloutTargets"}} {
		sf := c.field("Service", slot.field)
		ok := false
		for _, w := range c.writesOfField(sf) {
			if w.fn != um {
				continue
			}
			if call, isC := nonNilSource(w.val).(*ssa.Call); isC && isCallTo(call.Common(), nlb) {
				if e, isE := nonNilSource(call.Call.Args[0]).(*ssa.Extract); isE {
					if tl, isT := e.Tuple.(*ssa.Call); isT && isCallTo(tl.Common(), ntl) {
						c1, d1 := isDecodedField(tl.Call.Args[0])
						c2, d2 := isDecodedField(tl.Call.Args[1])
						if d1 && d2 && c1[0].Name() == slot.names && c2[0].Name() == "TargetOptions" {
							ok = true
							// whether the slot is rebuilt may depend only on the saved list itself (and on earlier steps not failing)
							for _, ce := range dominatingConds(w.instr.Block()) {
								if guardIsErrNil(ce) {
									continue
								}
								cm, isCmp := ce.asCmp()
								okGuard := false
								if isCmp {
									x := cm.x
									if _, isK := cm.x.(*ssa.Const); isK {
										x = cm.y
									}
									if lc, isCall := x.(*ssa.Call); isCall {
										if b, isB := lc.Call.Value.(*ssa.Builtin); isB && b.Name() == "len" {
											x = lc.Call.Args[0]
										}
									}
									if ch, isD := isDecodedField(x); isD && len(ch) == 1 && ch[0].Name() == slot.names {
										okGuard = true
									}
								}
								if !okGuard {
									ok = false
									c.ob(rule, "UnmarshalJSON/s."+slot.field+"-rebuild-depends-only-on-ms."+slot.names, w.instr.Pos(), false, true, "the saved "+slot.field+" targets must be restored whenever the saved list is non-empty: a condition on any other saved value (e.g. the split) makes the restored proxy answer later commands differently")
								}
							}
						}
					}
				}
			}
		}
		c.ob(rule, "UnmarshalJSON/s."+slot.field+" rebuilt from ms."+slot.names+" with ms.TargetOptions", um.Pos(), ok, true, "")
	}
	// derived state re-derived: every successful return is initialize()'s result
	ini := c.method("Service", "initialize")
	okIni := false
	allOK := true
	for _, ret := range normalReturns(um) {
		v := lastRet(ret)
		if call, ok := v.(*ssa.Call); ok && isCallTo(call.Common(), ini) && call.Call.Args[0] == ssa.Value(um.Params[0]) {
			okIni = true
			continue
		}
		if isNilConst(v) {
			allOK = false
		}
	}
	c.ob(rule, "UnmarshalJSON/derived-state-re-derived", um.Pos(), okIni && allOK, true, "certificate manager and middleware are not persisted: every successful restore must end in s.initialize()")
	// struct types reachable from the persisted form
	persistedFields(c, rule, "marshalledService", nil)
	persistedFields(c, rule, "ServiceOptions", nil)
	persistedFields(c, rule, "TargetOptions", nil)
	persistedFields(c, rule, "HealthCheckConfig", nil)
	persistedFields(c, rule, "RolloutController", nil)
	persistedFields(c, rule, "PauseController", map[string]string{
		"lock":         "a mutex is never persisted",
		"pauseChannel": "rebuilt by re-applying the persisted state through Pause() (R11.2 / R07.1)",
	})
	c.floor(rule, 40)
	_ = fmt.Sprint
}

func r113(c *Ctx) {
	const rule = "R11.3 restore-installs-every-saved-service"
	c.floor(rule, 5)
	fn := c.method("Router", "RestoreLastSavedState")
	li := c.lockInfo()
	lock := c.field("Router", "serviceLock")
	set := c.method("ServiceMap", "Set")
	statePath := c.field("Router", "statePath")
	// opens the state path read-only and decodes into a local []*Service
	var opened *ssa.Call
	for _, cs := range callsToName(fn, "os.Open") {
		if isLoadOfField(cs.common().Args[0], statePath) {
			opened = cs.instr.(*ssa.Call)
		}
	}
	c.ob(rule, "RestoreLastSavedState/reads-the-state-path", fn.Pos(), opened != nil, true, "")
	var target *ssa.Alloc
	for _, cs := range callsToName(fn, "(*encoding/json.Decoder).Decode") {
		if mi, ok := cs.common().Args[1].(*ssa.MakeInterface); ok {
			target, _ = mi.X.(*ssa.Alloc)
		}
	}
	c.ob(rule, "RestoreLastSavedState/decodes-service-list", fn.Pos(), target != nil && strings.Contains(typeString(target.Type()), "[]*"), true, "")
	// in the locked closure: fresh table, then Set for every decoded service
	nSet := 0
	for _, cl := range withAnon(fn) {
		for _, cs := range callsTo(cl, set) {
			nSet++
			s, full := fullRangeElem(cs.common().Args[1])
			okAll := full && cellOfLoad(s) == target
			// (conditions of the form "an earlier step did not fail" do not make the installation conditional)
			nCond := 0
			for _, ce := range dominatingCondsOtherThanLoop(cs.instr) {
				if !guardIsErrNil(ce) {
					nCond++
				}
			}
			// (a table built privately and published afterwards: the Sets need no lock, the publication does)
			private := freshUnpublishedAt(c.World, cs.common().Args[0], cs.instr)
			c.ob(rule, "RestoreLastSavedState/installs-every-decoded-service", cs.pos(), okAll && (li.holds(cs.instr, lock, modeW) || private) && nCond == 0, true, "every element of the decoded list must be Set, unconditionally, under the write lock")
			// into a fresh map assigned before
			fresh := false
			if private {
				recv := resolve(cs.common().Args[0])
				for _, w := range c.writesOfField(c.field("Router", "services")) {
					if outer(w.fn) == fn && resolve(w.val) == recv && li.holds(w.instr, lock, modeW) && len(dominatingCondsOtherThanLoop(w.instr)) == 0 {
						if call, ok := recv.(*ssa.Call); ok && isCallTo(call.Common(), c.fn("NewServiceMap")) {
							fresh = true
						}
					}
				}
			}
			for _, w := range c.writesOfField(c.field("Router", "services")) {
				if w.fn == cl {
					if call, ok := w.val.(*ssa.Call); ok && isCallTo(call.Common(), c.fn("NewServiceMap")) && dominates(w.instr, cs.instr) || dominatesLoop(w.instr, cs.instr) {
						fresh = true
					}
				}
			}
			c.ob(rule, "RestoreLastSavedState/into-a-fresh-table", cs.pos(), fresh, true, "")
		}
	}
	c.ob(rule, "RestoreLastSavedState/has-install-loop", fn.Pos(), nSet == 1, false, "")
	// run() restores before serving
	run := c.methodIn(c.cmd, "runCommand", "run")
	var restore, start ssa.Instruction
	for _, cs := range callsIn(run) {
		switch {
		case isCallTo(cs.common(), fn):
			restore = cs.instr
		case isCallTo(cs.common(), c.method("Server", "Start")):
			start = cs.instr
		}
	}
	c.ob(rule, "run/restores-before-serving", run.Pos(), restore != nil && start != nil && dominates(restore, start), true, "the saved state must be restored before the listeners start")
	// the router restored is the one the server serves, built on the configured state path
	okPath := false
	for _, cs := range callsTo(run, c.fn("NewRouter")) {
		if call, ok := cs.common().Args[0].(*ssa.Call); ok && call.Call.StaticCallee() != nil && call.Call.StaticCallee().Name() == "StatePath" {
			okPath = true
		}
	}
	c.ob(rule, "run/router-uses-configured-state-path", run.Pos(), okPath, true, "")
}

func dominatesLoop(a, b ssa.Instruction) bool {
	return a.Parent() == b.Parent() && a.Block().Dominates(b.Block())
}

func r114(c *Ctx) {
	const rule = "R11.4 presumed-healthy-only-on-restore"
	c.floor(rule, 3)
	mah := c.method("LoadBalancer", "MarkAllHealthy")
	um := c.method("Service", "UnmarshalJSON")
	for _, u := range c.usesOfFunc(mah) {
		c.ob(rule, "call MarkAllHealthy <- "+fname(outer(u.in)), u.instr.Pos(), outer(u.in) == um, false, "only restored targets are presumed healthy")
	}
	// every balancer created on restore is marked healthy (else a restored service answers 503 until the first probe) and probes start in NewLoadBalancer
	nlb := c.fn("NewLoadBalancer")
	for _, cs := range callsTo(um, nlb) {
		lb := cs.instr.(*ssa.Call)
		marked := false
		for _, m := range callsTo(um, mah) {
			if f, _, ok := fieldLoad(m.common().Args[0]); ok {
				for _, w := range c.writesOfField(f) {
					if w.fn == um && nonNilSource(w.val) == ssa.Value(lb) && dominates(w.instr, m.instr) {
						marked = true
					}
				}
			}
			if m.common().Args[0] == ssa.Value(lb) {
				marked = true
			}
		}
		c.ob(rule, "UnmarshalJSON/restored-balancer-marked-healthy", lb.Pos(), marked, true, "")
	}
	// (beginHealthChecks is de-anchored: expanded into NewLoadBalancer) the constructor reaches Target.BeginHealthChecks
	nBegin := len(callsTo(nlb, c.method("Target", "BeginHealthChecks")))
	c.ob(rule, "NewLoadBalancer/probing-starts-for-restored-targets", nlb.Pos(), nBegin >= 1, true, "")
	// MarkAllHealthy sets every target healthy and refreshes
	upd := c.method("Target", "updateState")
	healthy := c.enumVal(c.server, "TargetStateHealthy")
	okAll := false
	for _, cs := range callsTo(mah, upd) {
		if k, ok := constInt(cs.common().Args[1]); ok && k == healthy {
			if s, full := fullRangeElem(cs.common().Args[0]); full {
				if call, ok := s.(*ssa.Call); ok && isCallTo(call.Common(), c.method("LoadBalancer", "Targets")) || isLoadOfField(s, c.field("LoadBalancer", "all")) {
					okAll = true
				}
			}
		}
	}
	c.ob(rule, "MarkAllHealthy/all-targets-healthy", mah.Pos(), okAll, true, "")
}

// onlyErrNilGuards: the instruction is conditional on nothing but earlier calls having returned a nil error.
func onlyErrNilGuards(in ssa.Instruction) bool {
	for _, ce := range dominatingConds(in.Block()) {
		if !guardIsErrNil(ce) {
			return false
		}
	}
	return true
}

// guardIsErrNil: the condition edge is `<some error value> == nil` taken.
func guardIsErrNil(ce condEdge) bool {
	cm, ok := ce.asCmp()
	if !ok || cm.op != token.EQL {
		return false
	}
	v := cm.x
	if isNilConst(v) {
		v = cm.y
	} else if !isNilConst(cm.y) {
		return false
	}
	return isErrorType(v.Type())
}

// readsFieldVia: fn obtains field f of base, directly or through an accessor method of the module.
func readsFieldVia(fn *ssa.Function, f *types.Var, base ssa.Value) bool {
	for _, b := range fn.Blocks {
		for _, in := range b.Instrs {
			v, ok := in.(ssa.Value)
			if !ok {
				continue
			}
			if fv, bs, ok := fieldLoad(v); ok && fv == f && bs == base {
				return true
			}
		}
	}
	return false
}

// R11.7 What is derived once, when a service object is built (certificate manager, middleware chain), is rebuilt from
// the SAVED options after a restart. The routing table rewrites some options of installed services in place (a
// sub-path service inherits the TLS flags of its host's root service), and the saved options carry the rewritten
// values. So construction may let such a flag decide something only for services the table never rewrites (those on
// the root path); otherwise the restarted proxy builds a different object than the one that wrote the file.
func r117(c *Ctx) {
	const rule = "R11.7 derived-state-ignores-inherited-flags"
	c.floor(rule, 4)
	so := c.named("ServiceOptions").Underlying().(*types.Struct)
	srp := c.method("Service", "servesRootPath")
	prefixesF := c.field("ServiceOptions", "PathPrefixes")
	rootPath := c.constant(c.server, "rootPath")
	isRootTest := func(v ssa.Value) bool {
		call, ok := v.(*ssa.Call)
		if !ok {
			return false
		}
		if isCallTo(call.Common(), srp) {
			return true
		}
		if calleeName(call.Common()) == "slices.Contains" && len(call.Call.Args) == 2 {
			k, isK := call.Call.Args[1].(*ssa.Const)
			return isK && k.Value != nil && k.Value.ExactString() == rootPath.Value.Value.ExactString() && isLoadOfField(call.Call.Args[0], prefixesF)
		}
		return false
	}
	// W: option fields the routing table stores into after installation
	inherited := map[*types.Var]bool{}
	for i := 0; i < so.NumFields(); i++ {
		f := so.Field(i)
		for _, w := range c.writesOfField(f) {
			rn := recvNamed(outer(w.fn))
			if rn == nil || rn.Obj().Name() != "ServiceMap" {
				continue
			}
			inherited[f] = true
			_, notRoot := boolFacts(w.instr, isRootTest)
			c.ob(rule, "ServiceMap rewrites ServiceOptions."+f.Name()+" only off the root path <- "+fname(w.fn), w.instr.Pos(), notRoot, true, "the table may rewrite the options of an installed service only on the !servesRootPath() branch (root-path services keep the flags they were deployed with)")
		}
	}
	isInherited := func(v ssa.Value) bool {
		f, _, ok := fieldLoad(v)
		return ok && inherited[f]
	}
	// construction: initialize and every module function it can reach
	ini := c.method("Service", "initialize")
	inModule := map[*ssa.Function]bool{}
	for _, f := range c.proxyFuncs() {
		inModule[f] = true
	}
	seen := map[*ssa.Function]bool{}
	var order []*ssa.Function
	var visit func(f *ssa.Function)
	visit = func(f *ssa.Function) {
		if seen[f] || !inModule[f] || f.Blocks == nil {
			return
		}
		seen[f] = true
		order = append(order, f)
		for _, cs := range callsIn(f) {
			if callee := cs.common().StaticCallee(); callee != nil {
				visit(callee)
			}
		}
	}
	visit(ini)
	isEffect := func(in ssa.Instruction) bool {
		switch x := in.(type) {
		case *ssa.Store:
			// writing a local variable that stays in the function (a parameter copy made by an expanded helper) changes nothing
			addr := x.Addr
			for {
				if fa, ok := addr.(*ssa.FieldAddr); ok {
					addr = fa.X
					continue
				}
				break
			}
			if a, ok := addr.(*ssa.Alloc); ok && !a.Heap {
				return false
			}
			return true
		case *ssa.MapUpdate, *ssa.Send, *ssa.MakeClosure, *ssa.Go, *ssa.Defer, *ssa.Panic:
			return true
		case *ssa.Call:
			if _, isB := x.Call.Value.(*ssa.Builtin); isB {
				return false
			}
			if isRootTest(x) || strings.HasPrefix(calleeName(x.Common()), "log/slog.") {
				return false
			}
			return true
		case *ssa.Return:
			for _, r := range x.Results {
				if k, isK := r.(*ssa.Const); !isK || k.Value != nil {
					return true
				}
			}
		}
		return false
	}
	nLoads := 0
	for _, f := range order {
		reads := false
		for _, b := range f.Blocks {
			for _, in := range b.Instrs {
				if v, ok := in.(ssa.Value); ok && isInherited(v) {
					reads = true
					nLoads++
					// the flag may only be tested
					for _, r := range *v.Referrers() {
						switch x := r.(type) {
						case *ssa.If, *ssa.DebugRef:
						case *ssa.UnOp:
							if x.Op != token.NOT {
								c.ob(rule, "construction/"+fname(f)+"/inherited-flag-only-tested", r.Pos(), false, true, "an inherited TLS flag read while building the service object flows somewhere other than a branch")
							}
						default:
							c.ob(rule, "construction/"+fname(f)+"/inherited-flag-only-tested", r.Pos(), false, true, "an inherited TLS flag read while building the service object flows somewhere other than a branch (stored, passed on or captured): the object then depends on a value the table rewrites later")
						}
					}
				}
			}
		}
		if !reads {
			continue
		}
		okAll := true
		var bad ssa.Instruction
		for _, b := range f.Blocks {
			conds := dominatingConds(b)
			on, off := boolFactsOf(conds, isInherited)
			root, _ := boolFactsOf(conds, isRootTest)
			for _, in := range b.Instrs {
				if (on || off) && !root && isEffect(in) {
					okAll, bad = false, in
				}
				// values merged according to the flag
				if phi, isPhi := in.(*ssa.Phi); isPhi && !(on || off) {
					same := true
					for _, e := range phi.Edges[1:] {
						if e != phi.Edges[0] {
							same = false
						}
					}
					if same {
						continue
					}
					for i, pred := range b.Preds {
						_ = i
						ec := append(append([]condEdge{}, dominatingConds(pred)...), edgeCond(pred, b)...)
						pon, poff := boolFactsOf(ec, isInherited)
						proot, _ := boolFactsOf(ec, isRootTest)
						if (pon || poff) && !proot {
							okAll, bad = false, in
						}
					}
				}
			}
		}
		pos := f.Pos()
		if bad != nil && bad.Pos().IsValid() {
			pos = bad.Pos()
		}
		c.ob(rule, "construction/"+fname(f)+"/inherited-flags-matter-only-on-the-root-path", pos, okAll, true, "everything this function does under a test of an inherited TLS flag must also be under 'serves the root path': for a sub-path service the saved flag is the root service's, so a restart would otherwise build a different certificate manager / middleware chain than the running proxy has (with a wildcard host it cannot even be restored)")
	}
	c.ob(rule, "construction/reads-an-inherited-flag", ini.Pos(), nLoads >= 1 && len(inherited) >= 2, false, fmt.Sprintf("%d reads of %d inherited fields in %d functions reachable from initialize", nLoads, len(inherited), len(order)))
}
