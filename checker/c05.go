package main

import (
	"go/types"
	"fmt"
	"go/token"

	"golang.org/x/tools/go/ssa"
)

func init() {
	register("C05", &propCheck{
		explain: "Decides that ownership check and installation form one exclusive critical section and that the check quantifies over every pair: (R05.1) every ServiceMap.Set reachable from a command sits in a closure entered with Router.serviceLock write-held and is dominated, in that closure, by the nil branch of CheckAvailability(s.name, s.options) on the same service value (restore exempt, with reason); the conflict branch returns a non-nil error; (R05.2) Remove under the write lock; Set replaces by name and both rebuild the table; (R05.3) CheckAvailability ranges completely over options.Hosts x options.PathPrefixes, looks up the element host, compares element prefix with every binding of that host, exempts only bindings of the same service name, and reports the first other owner; (R05.4) nobody else edits the ownership table or a service's name/bindings.",
		notDecided: []string{"nothing material; the property is essentially structural (mutual exclusion itself is sync.RWMutex's, trusted)"},
		run:        checkC05,
	})
}

func checkC05(c *Ctx) {
	r051(c, "R05.1 check-then-install-atomic")
	r052(c)
	r053(c, "R05.3 check-covers-all-pairs")
	r054(c)
	// "the same pair" means the same thing to the ownership test and to routing
	rPrefixNormalForm(c, "R05.5 prefix-normal-form")
	// the ownership test looks a claimed host up in the routing index: the index must be keyed by the hosts as claimed,
	// every service, every host, every prefix (shared with C04)
	r044(c, "R05.6 index-keyed-by-the-claimed-hosts")
}

func r051(c *Ctx, rule string) {
	c.floor(rule, 6)
	li := c.lockInfo()
	lock := c.field("Router", "serviceLock")
	set := c.method("ServiceMap", "Set")
	chk := c.method("ServiceMap", "CheckAvailability")
	nameF, optF := c.field("Service", "name"), c.field("Service", "options")
	for _, u := range c.usesOfFunc(set) {
		o := fname(outer(u.in))
		key := "ServiceMap.Set in " + fname(u.in)
		call, isCall := u.instr.(*ssa.Call)
		if !isCall {
			c.ob(rule, key, u.instr.Pos(), false, true, "ServiceMap.Set used other than by a direct call")
			continue
		}
		if !li.holds(call, lock, modeW) && freshUnpublishedAt(c.World, call.Call.Args[0], call) {
			c.ob(rule, key+"/table-not-yet-published", call.Pos(), true, false, "Set on a table this function created and has not yet handed to anyone: no other goroutine can see it")
		} else {
			c.ob(rule, key+"/write-locked", call.Pos(), li.holds(call, lock, modeW), true, fmt.Sprintf("must hold Router.serviceLock for writing; held: %s", li.before(call)))
		}
		if o == "(*server.Router).RestoreLastSavedState" {
			c.ob(rule, key+"/restore-exempt-from-check", call.Pos(), true, false, "reloads a table this proxy wrote (each entry passed the check when it was installed)")
			continue
		}
		svc := call.Call.Args[1]
		var guard *ssa.Call
		for _, cs := range callsTo(u.in, chk) {
			cc, ok := cs.instr.(*ssa.Call)
			if !ok {
				continue
			}
			isNil, _ := nilKnowledge(call, sameAs(cc))
			if !isNil {
				continue
			}
			// arguments: (svc.name, svc.options) of the same service
			f1, b1, ok1 := fieldLoad(cc.Call.Args[1])
			f2, b2, ok2 := fieldLoad(cc.Call.Args[2])
			if ok1 && ok2 && f1 == nameF && f2 == optF && sameResolved(b1, svc) && sameResolved(b2, svc) {
				guard = cc
			}
		}
		c.ob(rule, key+"/dominated-by-availability-check", call.Pos(), guard != nil, true, "Set(s) must be on the nil branch of CheckAvailability(s.name, s.options) for the same s, in the same critical section")
		if guard != nil {
			c.ob(rule, key+"/check-in-same-lock-hold", guard.Pos(), li.holds(guard, lock, modeW) && guard.Parent() == call.Parent(), true, "the check must run under the same write-lock hold as the Set")
			// conflict branch returns a non-nil error and never reaches Set
			okErr := false
			for _, ret := range normalReturns(u.in) {
				if _, nn := nilKnowledge(ret, sameAs(guard)); nn {
					okErr = !isNilConst(lastRet(ret))
				}
			}
			c.ob(rule, key+"/conflict-reports-error", guard.Pos(), okErr, true, "on a conflict the closure must return a non-nil error")
		}
	}
	// the closure's error is what installService returns (so deploy fails)
	inst := c.method("Router", "installService")
	wwl := c.method("Router", "withWriteLock")
	okProp := false
	for _, cs := range callsTo(inst, wwl) {
		call, ok := cs.instr.(*ssa.Call)
		if !ok {
			continue
		}
		// whenever the locked section failed, that error is what is returned: no return can be reached with the
		// section's error known non-nil (or unknown) and something else as the result
		okProp = true
		nRet := 0
		for _, rc := range retCases(inst) {
			res := rc.vals[len(rc.vals)-1]
			isNil, _ := nilKnowledgeOf(rc.conds, sameAs(call))
			if res == ssa.Value(call) {
				nRet++
				continue
			}
			if !isNil {
				okProp = false
			}
		}
		okProp = okProp && nRet >= 1
	}
	c.ob(rule, "installService/propagates-conflict", inst.Pos(), okProp, true, "installService must return the error of the locked section")
	// withWriteLock returns fn()'s result
	okW := false
	for _, ret := range normalReturns(wwl) {
		if call, ok := lastRet(ret).(*ssa.Call); ok && call.Call.Value == ssa.Value(wwl.Params[1]) {
			okW = true
		}
	}
	c.ob(rule, "withWriteLock/returns-closure-result", wwl.Pos(), okW, true, "")
}

func r052(c *Ctx) {
	const rule = "R05.2 release-on-remove-and-redeploy"
	c.floor(rule, 4)
	li := c.lockInfo()
	lock := c.field("Router", "serviceLock")
	rem := c.method("ServiceMap", "Remove")
	c.ob(rule, "ServiceMap.Remove/entered-write-locked", rem.Pos(), li.entryOf(rem)[lock] == modeW, true, "entry lockset: "+li.entryOf(rem).String())
	// Remove deletes by its parameter; Set stores under service.name
	svcs := c.field("ServiceMap", "services")
	okDel := false
	for _, cs := range callsIn(rem) {
		if b, ok := cs.common().Value.(*ssa.Builtin); ok && b.Name() == "delete" && isLoadOfField(cs.common().Args[0], svcs) && cs.common().Args[1] == ssa.Value(rem.Params[1]) {
			okDel = true
		}
	}
	c.ob(rule, "ServiceMap.Remove/deletes-named-entry", rem.Pos(), okDel, true, "Remove must delete services[name]")
	set := c.method("ServiceMap", "Set")
	okSet := false
	for _, b := range set.Blocks {
		for _, in := range b.Instrs {
			if mu, ok := in.(*ssa.MapUpdate); ok && isLoadOfField(mu.Map, svcs) {
				f, base, ok := fieldLoad(mu.Key)
				if ok && f == c.field("Service", "name") && base == ssa.Value(set.Params[1]) && mu.Value == ssa.Value(set.Params[1]) {
					okSet = true
				}
			}
		}
	}
	c.ob(rule, "ServiceMap.Set/replaces-by-name", set.Pos(), okSet, true, "Set must store the service under its own name (a redeploy replaces the previous entry, releasing pairs it no longer lists when the table is rebuilt)")
	c.servicesWriteRebuilds(rule)
	// RemoveService removes the service it looked up, under the lock
	rs := c.method("Router", "RemoveService")
	okR := false
	for _, cl := range rs.AnonFuncs {
		for _, cs := range callsTo(cl, rem) {
			if li.holds(cs.instr, lock, modeW) {
				okR = true
			}
		}
	}
	c.ob(rule, "RemoveService/removes-under-write-lock", rs.Pos(), okR, true, "")
}

func r053(c *Ctx, rule string) {
	c.floor(rule, 4)
	fn := c.method("ServiceMap", "CheckAvailability")
	rsm := c.field("ServiceMap", "requestServiceMap")
	hostsF, prefF := c.field("ServiceOptions", "Hosts"), c.field("ServiceOptions", "PathPrefixes")
	ppF, svcF, nameF := c.field("pathBinding", "pathPrefix"), c.field("pathBinding", "service"), c.field("Service", "name")
	optionsParam := ssa.Value(fn.Params[2])
	isOptField := func(v ssa.Value, f interface{ Name() string }) bool {
		chain, base := fieldPath(v)
		if len(chain) != 1 || chain[0].Name() != f.Name() {
			return false
		}
		if base == optionsParam {
			return true
		}
		// param spilled to a local cell
		if a, ok := base.(*ssa.Alloc); ok {
			return cellValue(a) == optionsParam
		}
		return false
	}
	nHit := 0
	// (per way of returning: a conflict found by a helper expanded in place arrives merged with that helper's "none")
	for _, rc := range retCases(fn) {
		ret := rc.ret
		v := rc.vals[0]
		if isNilConst(v) {
			continue
		}
		nHit++
		f, binding, ok := fieldLoad(v)
		if ok {
			binding = nonNilSource(resolve(binding)) // (found by a helper that returns nil for "none")
		}
		if !ok || f != svcF {
			c.ob(rule, "CheckAvailability/returns-conflicting-owner", ret.Pos(), false, true, "the non-nil result must be binding.service")
			continue
		}
		// binding ranges fully over requestServiceMap[host elem]
		bs, full := fullRangeElem(binding)
		okLookup := false
		if full {
			if l, ok := bs.(*ssa.Lookup); ok && isLoadOfField(l.X, rsm) {
				if hs, fullH := fullRangeElem(l.Index); fullH && isOptField(hs, hostsF) {
					okLookup = true
				}
			}
		}
		c.ob(rule, "CheckAvailability/every-binding-of-every-host", ret.Pos(), okLookup, true, "the conflict scan must visit every binding of requestServiceMap[h] for every h in options.Hosts")
		// conditions: prefix equality with every element of options.PathPrefixes, and name inequality; nothing else
		var sawPrefixEq, sawNameNeq bool
		extra := 0
		// (a position found by a search: the conditions under which it was found belong here too)
		for _, ce := range condsOtherThanEmptiness(condsOtherThanLoop(append(append([]condEdge{}, rc.conds...), indexEdgeConds(binding)...))) {
			if _, isPhi := ce.cond.(*ssa.Phi); isPhi {
				continue // a merged boolean: its operands are listed as well
			}
			cm, ok := ce.asCmp()
			if !ok {
				extra++
				continue
			}
			isElemPrefix := func(v ssa.Value) bool {
				ps, full := fullRangeElem(v)
				return full && isOptField(ps, prefF)
			}
			isBindingPrefix := func(v ssa.Value) bool {
				f, b, ok := fieldLoad(v)
				return ok && f == ppF && sameElem(b, binding)
			}
			isOwnerName := func(v ssa.Value) bool {
				chain, b := fieldPath(v)
				return len(chain) == 2 && chain[0] == svcF && chain[1] == nameF && sameElem(b, binding)
			}
			switch {
			case cm.op == token.EQL && ((isElemPrefix(cm.x) && isBindingPrefix(cm.y)) || (isElemPrefix(cm.y) && isBindingPrefix(cm.x))):
				sawPrefixEq = true
			case cm.op == token.NEQ && ((isOwnerName(cm.x) && cm.y == ssa.Value(fn.Params[1])) || (isOwnerName(cm.y) && cm.x == ssa.Value(fn.Params[1]))):
				sawNameNeq = true
			case isNilConst(cm.x) || isNilConst(cm.y):
				// nil checks of the bindings slice are harmless
			default:
				extra++
			}
		}
		c.ob(rule, "CheckAvailability/conflict-iff-same-prefix-other-owner", ret.Pos(), sawPrefixEq && sawNameNeq && extra == 0, true,
			fmt.Sprintf("a conflict must be reported exactly when prefix==binding.pathPrefix (for every element of options.PathPrefixes) and binding.service.name!=name; found prefixEq=%v nameNeq=%v extraConditions=%d", sawPrefixEq, sawNameNeq, extra))
	}
	c.ob(rule, "CheckAvailability/has-conflict-return", fn.Pos(), nHit >= 1, false, "")
	// the loops are not left early except by the conflict return: every return is either the conflict or after the outer loop ended
	for _, ret := range normalReturns(fn) {
		if !isNilConst(retVal(ret, 0)) {
			continue
		}
		// a nil return inside a loop would cut the scan short
		c.ob(rule, "CheckAvailability/nil-only-after-full-scan", ret.Pos(), !inLoop(ret.Block()) && len(dominatingCondsOtherThanLoop(ret)) == 0, true, "\"available\" may be answered only after all pairs were scanned")
	}
}

func r054(c *Ctx) {
	const rule = "R05.4 nobody-else-edits-ownership"
	c.floor(rule, 4)
	svcs := c.field("ServiceMap", "services")
	for _, a := range c.accessesOf(svcs) {
		if !a.write {
			continue
		}
		o := fname(outer(a.fn))
		ok := o == "(*server.ServiceMap).Set" || o == "(*server.ServiceMap).Remove" || o == "server.NewServiceMap"
		c.ob(rule, "write ServiceMap.services <- "+o, a.instr.Pos(), ok, false, "the ownership table is written only by Set, Remove and the constructor")
	}
	for _, w := range c.writesOfField(c.field("Service", "name")) {
		o := fname(outer(w.fn))
		ok := o == "server.NewService" || o == "(*server.Service).UnmarshalJSON"
		if _, fresh := w.base.(*ssa.Alloc); fresh {
			ok = true // the object is allocated in this very function: construction
		}
		c.ob(rule, "write Service.name <- "+o, w.instr.Pos(), ok, false, "a service's name is fixed at construction/restore")
	}
	for _, w := range c.writesOfField(c.field("Router", "services")) {
		o := fname(outer(w.fn))
		ok := o == "server.NewRouter" || o == "(*server.Router).RestoreLastSavedState"
		c.ob(rule, "write Router.services <- "+o, w.instr.Pos(), ok, false, "the router's table object is replaced only at construction and restore")
	}
	rm := c.method("ServiceMap", "Remove")
	for _, u := range c.usesOfFunc(rm) {
		o := fname(outer(u.in))
		c.ob(rule, "call ServiceMap.Remove <- "+o, u.instr.Pos(), o == "(*server.Router).RemoveService", false, "")
	}
}

// rPrefixNormalForm: ownership compares path prefixes with ==, routing compares them after adding a trailing slash: the two
// agree only if every stored prefix is in ONE normal form - "/" followed by the prefix with all leading and trailing
// slashes removed. NormalizePathPrefixes must produce that for every element (shared by C04, C05).
func rPrefixNormalForm(c *Ctx, rule string) {
	c.floor(rule, 2)
	fn := c.fn("NormalizePathPrefixes")
	var trimmed func(v ssa.Value, d int) (ssa.Value, bool, bool) // inner value, left trimmed, right trimmed
	trimmed = func(v ssa.Value, d int) (ssa.Value, bool, bool) {
		call, ok := resolve(v).(*ssa.Call)
		if !ok || d > 3 || len(call.Call.Args) != 2 {
			return v, false, false
		}
		if cut, _ := constString(call.Call.Args[1]); cut != "/" {
			return v, false, false
		}
		switch calleeName(call.Common()) {
		case "strings.Trim":
			return call.Call.Args[0], true, true
		case "strings.TrimLeft":
			in, l, r := trimmed(call.Call.Args[0], d+1)
			_ = l
			return in, true, r
		case "strings.TrimRight":
			in, l, r := trimmed(call.Call.Args[0], d+1)
			_ = r
			return in, l, true
		}
		return v, false, false
	}
	n := 0
	// every string put into a list element by this function (appended, or assigned by index) is the root path constant or
	// a prefix in normal form
	for _, blk := range fn.Blocks {
		for _, in := range blk.Instrs {
			st, isSt := in.(*ssa.Store)
			if !isSt {
				continue
			}
			if _, isElem := st.Addr.(*ssa.IndexAddr); !isElem {
				continue
			}
			if bt, isBasic := st.Val.Type().Underlying().(*types.Basic); !isBasic || bt.Kind() != types.String {
				continue
			}
			if sv, isConst := constString(st.Val); isConst && sv == "/" {
				continue
			}
			n++
			ok := false
			if bo, isB := resolve(st.Val).(*ssa.BinOp); isB && bo.Op == token.ADD {
				if lead, _ := constString(bo.X); lead == "/" {
					if in, l, r := trimmed(bo.Y, 0); l && r {
						if src, full := fullRangeElem(resolve(in)); full && resolve(src) == ssa.Value(fn.Params[0]) {
							ok = true
						}
					}
				}
			}
			c.ob(rule, "NormalizePathPrefixes/element-normal-form", st.Pos(), ok, true, "every stored prefix must be \"/\" + the given prefix without leading AND trailing slashes: \"/api\" and \"api/\" are the same prefix for routing and must be the same for the ownership test")
		}
	}
	c.ob(rule, "NormalizePathPrefixes/builds-the-list", fn.Pos(), n >= 1, true, "")
	// the default for "no prefix" is the root path
	okDef := false
	for _, rc := range retCases(fn) {
		els := varargElems(rc.vals[0])
		if len(els) == 1 {
			if sv, ok := constString(els[0]); ok && sv == "/" {
				for _, f := range intFactsOf(rc.conds, func(v ssa.Value) bool {
					call, ok := v.(*ssa.Call)
					if !ok {
						return false
					}
					bi, ok := call.Call.Value.(*ssa.Builtin)
					return ok && bi.Name() == "len" && resolve(call.Call.Args[0]) == ssa.Value(fn.Params[0])
				}) {
					if f.op == token.EQL && f.k == 0 {
						okDef = true
					}
				}
			}
		}
	}
	c.ob(rule, "NormalizePathPrefixes/no-prefix-means-root", fn.Pos(), okDef, true, "")
}
