package main

import (
	"fmt"
	"go/token"
	"go/types"
	"os"
	"sort"
	"strings"

	"golang.org/x/tools/go/callgraph"
	"golang.org/x/tools/go/callgraph/cha"
	"golang.org/x/tools/go/callgraph/vta"
	"golang.org/x/tools/go/packages"
	"golang.org/x/tools/go/ssa"
	"golang.org/x/tools/go/ssa/ssautil"
)

const modulePath = "github.com/basecamp/kamal-proxy"

// World is the resolved program: type-checked packages of /repo, their SSA
// form, and lazily the whole-program call graph.
type World struct {
	repo    string
	fset    *token.FileSet
	pkgs    []*packages.Package
	prog    *ssa.Program
	ssaPkgs map[string]*ssa.Package // by import path
	server  *ssa.Package
	cmd     *ssa.Package
	pages   *ssa.Package

	modFuncs []*ssa.Function // every source function of the module (incl. anon), deterministic order
	cg       *callgraph.Graph
	locks    *LockInfo
	mayLocks *LockInfo
	loadNotes []string
	thorough bool // thorough tier: who-may-call inventories are cross-checked against the VTA call graph
	vtaExtra int
}

func loadWorld(repo string) (*World, error) {
	os.Unsetenv("GOWORK")
	// The repository is built with Go 1.24.2 (go.mod); use that toolchain from the module cache when present.
	const go1242 = "/root/go/pkg/mod/golang.org/toolchain@v0.0.1-go1.24.2.linux-amd64/bin"
	if _, err := os.Stat(go1242 + "/go"); err == nil && !strings.HasPrefix(os.Getenv("PATH"), go1242) {
		os.Setenv("PATH", go1242+":"+os.Getenv("PATH"))
	}
	cfg := &packages.Config{
		Dir:   repo,
		Mode:  packages.LoadAllSyntax,
		Tests: false,
		Env:   append(os.Environ(), "GOFLAGS=-mod=mod", "GOPROXY=off", "GOSUMDB=off", "GOTOOLCHAIN=local", "CGO_ENABLED=0", "GOWORK=off"),
	}
	loadOnce := func(overlay map[string][]byte) ([]*packages.Package, error) {
		c2 := *cfg
		c2.Overlay = overlay
		pkgs, err := packages.Load(&c2, "./...")
		if err != nil {
			return nil, fmt.Errorf("packages.Load: %w", err)
		}
		if len(pkgs) == 0 {
			return nil, fmt.Errorf("no packages loaded from %s", repo)
		}
		var errs []string
		packages.Visit(pkgs, nil, func(p *packages.Package) {
			for _, e := range p.Errors {
				errs = append(errs, e.Error())
			}
		})
		if len(errs) > 0 {
			return nil, fmt.Errorf("load/type errors:\n  %s", strings.Join(errs, "\n  "))
		}
		return pkgs, nil
	}
	pkgs, err := loadOnce(nil)
	if err != nil {
		return nil, err
	}
	if *writeBaselineFlag != "" {
		if err := writeBaseline(pkgs, *writeBaselineFlag); err != nil {
			return nil, err
		}
	}
	// see through helper functions that do not exist in the reference tree (inline.go)
	var loadNotes []string
	overlayAll := map[string][]byte{}
	for round := 0; round < 8 && os.Getenv("KPVERIFY_NO_INLINE") == ""; round++ {
		overlay, notes := flattenHelpers(pkgs)
		loadNotes = append(loadNotes, notes...)
		if overlay == nil {
			break
		}
		lastGood := map[string][]byte{}
		for k, v := range overlayAll {
			lastGood[k] = v
		}
		for k, v := range overlay {
			overlayAll[k] = v
		}
		flat, ferr := loadOnce(overlayAll)
		if ferr != nil {
			if round == 0 {
				loadNotes = append(loadNotes, "helper inlining abandoned (rewritten program does not type-check; analysing the program as written): "+firstLine(ferr.Error()))
			} else {
				loadNotes = append(loadNotes, fmt.Sprintf("helper inlining stopped after round %d (the next rewrite does not type-check; analysing the result of round %d): %s", round, round, firstLine(ferr.Error())))
			}
			if os.Getenv("KPVERIFY_DEBUG_INLINE") != "" {
				for k, v := range overlayAll {
					os.WriteFile("/tmp/kpinline_"+strings.ReplaceAll(strings.TrimPrefix(k, repo+"/"), "/", "_"), v, 0o644)
				}
				fmt.Fprintln(os.Stderr, ferr)
			}
			if round > 0 {
				// (the syntax trees of the last good round were rewritten in place by the attempt that failed: load them again)
				overlayAll = lastGood
				if pkgs, err = loadOnce(overlayAll); err != nil {
					return nil, err
				}
			}
			if round == 0 {
				if pkgs, err = loadOnce(nil); err != nil {
					return nil, err
				}
				// second attempt: only the de-anchored helpers of the reference tree (the rules rely on those being expanded)
				if !inlineMinimal {
					inlineMinimal = true
					overlayAll = map[string][]byte{}
					round = -1
					loadNotes = append(loadNotes, "retrying with the de-anchored helpers only")
					continue
				}
			}
			break
		}
		pkgs = flat
	}
	if d := os.Getenv("KPVERIFY_DUMP_NORMALISED"); d != "" {
		for k, v := range overlayAll {
			os.WriteFile(d+"/"+strings.ReplaceAll(strings.TrimPrefix(k, repo+"/"), "/", "_"), v, 0o644)
		}
	}
	prog, spkgs := ssautil.AllPackages(pkgs, ssa.InstantiateGenerics|ssa.BuildSerially)
	if perr := func() (e error) {
		defer func() {
			if r := recover(); r != nil {
				e = fmt.Errorf("building the SSA form panicked: %v", r)
			}
		}()
		prog.Build()
		return nil
	}(); perr != nil {
		return nil, perr
	}
	w := &World{repo: repo, fset: pkgs[0].Fset, pkgs: pkgs, prog: prog, ssaPkgs: map[string]*ssa.Package{}, loadNotes: loadNotes}
	for i, p := range pkgs {
		if spkgs[i] == nil {
			return nil, fmt.Errorf("no SSA for %s", p.PkgPath)
		}
		w.ssaPkgs[p.PkgPath] = spkgs[i]
	}
	w.server = w.ssaPkgs[modulePath+"/internal/server"]
	w.cmd = w.ssaPkgs[modulePath+"/internal/cmd"]
	w.pages = w.ssaPkgs[modulePath+"/internal/pages"]
	if w.server == nil || w.cmd == nil || w.pages == nil {
		return nil, fmt.Errorf("expected packages internal/server, internal/cmd, internal/pages; got %d root packages", len(pkgs))
	}
	w.collectModuleFuncs()
	return w, nil
}

func (w *World) rootPackageCount() int { return len(w.pkgs) }

// collectModuleFuncs gathers every function with source in the module:
// package-level functions, methods of named types, and all nested closures.
func (w *World) collectModuleFuncs() {
	seen := map[*ssa.Function]bool{}
	var add func(f *ssa.Function)
	add = func(f *ssa.Function) {
		if f == nil || seen[f] || f.Blocks == nil {
			return
		}
		if f.Synthetic != "" && !strings.Contains(f.Synthetic, "range-over-func") {
			return
		}
		seen[f] = true
		w.modFuncs = append(w.modFuncs, f)
		for _, a := range f.AnonFuncs {
			add(a)
		}
	}
	paths := make([]string, 0, len(w.ssaPkgs))
	for p := range w.ssaPkgs {
		paths = append(paths, p)
	}
	sort.Strings(paths)
	for _, p := range paths {
		sp := w.ssaPkgs[p]
		names := make([]string, 0, len(sp.Members))
		for n := range sp.Members {
			names = append(names, n)
		}
		sort.Strings(names)
		for _, n := range names {
			switch m := sp.Members[n].(type) {
			case *ssa.Function:
				add(m)
			case *ssa.Type:
				nt, ok := m.Type().(*types.Named)
				if !ok {
					continue
				}
				for i := 0; i < nt.NumMethods(); i++ {
					add(w.prog.FuncValue(nt.Method(i)))
				}
			}
		}
	}
}

// inModule reports whether fn's source is in the analysed module.
func (w *World) inModule(fn *ssa.Function) bool {
	for fn != nil && fn.Parent() != nil {
		fn = fn.Parent()
	}
	if fn == nil || fn.Pkg == nil {
		return false
	}
	return strings.HasPrefix(fn.Pkg.Pkg.Path(), modulePath)
}

func (w *World) callGraph() *callgraph.Graph {
	if w.cg == nil {
		w.cg = vta.CallGraph(ssautil.AllFunctions(w.prog), cha.CallGraph(w.prog))
	}
	return w.cg
}

func (w *World) pos(p token.Pos) string {
	if !p.IsValid() {
		return "-"
	}
	pp := w.fset.Position(p)
	return fmt.Sprintf("%s:%d", strings.TrimPrefix(pp.Filename, w.repo+"/"), pp.Line)
}

func firstLine(s string) string {
	if i := strings.Index(s, "\n  "); i >= 0 {
		rest := s[i+3:]
		if j := strings.Index(rest, "\n"); j >= 0 {
			rest = rest[:j]
		}
		return rest
	}
	return s
}
