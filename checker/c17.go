package main

import (
	"fmt"
	"go/token"
	"go/types"
	"sort"
	"strings"

	"golang.org/x/tools/go/ssa"
)

func init() {
	register("C17", &propCheck{
		explain:    "Elapsed time is not statically decidable; what is decided is that every wait on a command path is bounded by the right parameter and also wakes on its condition, and that every probe loop has an owner that stops it: (R17.1) exhaustive inventory of may-block instructions (select, channel receive/send, WaitGroup.Wait, time.Sleep, Cond.Wait) reachable from the RPC command handlers through calls, closures and joined goroutines, against a frozen table; each select has an arm on time.After(<the function's own timeout parameter>) created once, plus the awaited condition; (R17.1b) the deploy/drain/pause timeouts travel from the RPC argument to those parameters without being swapped (all are time.Duration); (R17.2) disposal chain Service -> both slots -> all targets -> stopHealthChecks -> cancel; (R17.3) remove disposes before unbinding, successful redeploy drains then disposes the replaced balancer, failed deploy disposes the new one on every error path, a timed-out target stops its own probes. (R17.8) probe loops are started only for the targets of a balancer under construction (who-may-call table for run / NewHealthCheck / BeginHealthChecks).",
		notDecided: []string{"the numeric bounds and promptness as elapsed time", "behaviour of timers under load"},
		run:        checkC17,
	})
}

func checkC17(c *Ctx) {
	r171(c, "R17.1 bounded-prompt-waits")
	r171b(c)
	r172(c, "R17.2 disposal-chain")
	r173(c)
	// a wait performed while a lock is held makes every command that needs that lock wait as long (list, resume, remove
	// and the rollout commands must return without waiting): shared with C18
	r182(c, "R17.4 no-wait-while-holding-a-lock")
	// pause/stop drain both slots at the same time, each bounded by the one drain timeout (shared with C03)
	r033(c, "R17.5 drains-run-concurrently-and-join")
	// the timeouts given on the command line are the ones the proxy bounds its waits with (shared with C20)
	rFlagsBoundToCommand(c, "R17.6 flags-bound-to-the-command-object")
	// disposal reaches every target only while the target lists are not aliased / rewritten by anything but the refresh
	// (shared with C09)
	rRotationOnlyRefreshed(c, "R17.7 rotation-written-only-by-the-refresh")
	rWhoMayStartProbes(c, "R17.8 who-may-start-probing")
	rHealthWaitsConcurrent(c, "R17.9 health-waits-run-concurrently")
}

// commandReach: functions a command handler runs synchronously: static calls, closure arguments,
// interface implementers, and goroutines launched by a function that joins them (WaitGroup.Wait).
func (c *Ctx) commandReach() map[*ssa.Function][]string {
	out := map[*ssa.Function][]string{}
	ch := c.named("CommandHandler")
	var roots []*ssa.Function
	for _, fn := range c.proxyFuncs() {
		if fn.Parent() == nil && recvNamed(fn) != nil && recvNamed(fn).Obj() == ch.Obj() && fn.Object().Exported() && fn.Name() != "Start" && fn.Name() != "Close" {
			roots = append(roots, fn)
		}
	}
	var walk func(f *ssa.Function, root string)
	walk = func(f *ssa.Function, root string) {
		if f == nil || f.Blocks == nil || !c.inModule(f) {
			return
		}
		for _, r := range out[f] {
			if r == root {
				return
			}
		}
		out[f] = append(out[f], root)
		joins := len(callsToName(f, "(*sync.WaitGroup).Wait")) > 0
		for _, cs := range callsIn(f) {
			_, isGo := cs.instr.(*ssa.Go)
			if isGo && !joins {
				continue
			}
			cc := cs.common()
			if cc.IsInvoke() {
				for _, t := range c.implementers(cc) {
					walk(t, root)
				}
			} else if sc := cc.StaticCallee(); sc != nil {
				walk(sc, root)
			} else if cl := closureFunc(cc.Value); cl != nil {
				walk(cl, root)
			} else if i, ok := paramIndex(f, cc.Value); ok {
				// calling a function-typed parameter: the closures passed by callers are walked at their call sites
				_ = i
			}
			for _, a := range cc.Args {
				if cl := closureFunc(a); cl != nil {
					walk(cl, root)
				}
				// slices of closures (PerformConcurrently(fns...))
				for _, e := range varargElems(a) {
					if cl := closureFunc(e); cl != nil {
						walk(cl, root)
					}
				}
			}
		}
	}
	for _, r := range roots {
		walk(r, r.Name())
	}
	return out
}

// blockTable: function -> kinds of blocking instruction it may contain on a command path
var blockTable = map[string]map[string]string{
	"(*server.Target).WaitUntilHealthy":       {"select": "first of time.After(deploy timeout) / becameHealthy"},
	"(*server.Target).Drain":                  {"select": "per request: first of request done / one shared time.After(drain timeout)"},
	"(*server.LoadBalancer).WaitUntilHealthy": {"WaitGroup.Wait": "joins one bounded waiter per target"},
	"(*server.LoadBalancer).DrainAll":         {"WaitGroup.Wait": "joins one bounded drain per target"},
	"server.PerformConcurrently":              {"WaitGroup.Wait": "joins the per-slot drains"},
}

func r171(c *Ctx, rule string) {
	c.floor(rule, 7)
	reachSet := c.commandReach()
	var fns []*ssa.Function
	for f := range reachSet {
		fns = append(fns, f)
	}
	sort.Slice(fns, func(i, j int) bool { return fname(fns[i]) < fname(fns[j]) })
	c.ob(rule, "command-reachable-functions", c.method("CommandHandler", "Deploy").Pos(), len(fns) >= 40, false, fmt.Sprintf("%d functions reachable from the 9 RPC command handlers (calls, closures, joined goroutines)", len(fns)))
	for _, f := range fns {
		c.touched(f.String())
		for _, b := range f.Blocks {
			for _, in := range b.Instrs {
				kind := ""
				switch x := in.(type) {
				case *ssa.Select:
					if x.Blocking {
						kind = "select"
					}
				case *ssa.UnOp:
					if x.Op == token.ARROW {
						kind = "chan-receive"
					}
				case *ssa.Send:
					kind = "chan-send"
				case ssa.CallInstruction:
					switch calleeName(x.Common()) {
					case "(*sync.WaitGroup).Wait":
						kind = "WaitGroup.Wait"
					case "time.Sleep":
						kind = "time.Sleep"
					case "(*sync.Cond).Wait":
						kind = "Cond.Wait"
					}
				}
				if kind == "" {
					continue
				}
				o := fname(outer(f))
				reason, ok := blockTable[o][kind]
				c.ob(rule, o+"/"+kind, in.Pos(), ok, true, func() string {
					if ok {
						return "allowed: " + reason + fmt.Sprintf(" (reachable from %v)", reachSet[f])
					}
					return fmt.Sprintf("a may-block instruction on the path of command(s) %v that is not in the frozen table of bounded waits: the command can hang", reachSet[f])
				}())
				if sel, isSel := in.(*ssa.Select); isSel && ok {
					// a timer arm on time.After(<own Duration parameter>), created outside any loop, and >= 1 other arm
					timerOK := false
					for _, st := range sel.States {
						if st.Dir != types.RecvOnly {
							continue
						}
						if call, isC := stripConv(st.Chan).(*ssa.Call); isC && calleeName(call.Common()) == "time.After" {
							if p, isP := resolve(call.Call.Args[0]).(*ssa.Parameter); isP && p.Parent() == f && typeString(p.Type()) == "time.Duration" && !inLoop(call.Block()) {
								timerOK = true
							}
						}
					}
					c.ob(rule, o+"/select-bounded-by-own-timeout-parameter", sel.Pos(), timerOK && len(sel.States) >= 2, true, "the wait must have an arm on time.After(timeout parameter) created once (not per iteration), next to the awaited condition")
				}
			}
		}
	}
	// no network or probe I/O is awaited by a command except through those waits: http client calls only in the probe goroutine
	for _, f := range fns {
		for _, cs := range callsIn(f) {
			if n := calleeName(cs.common()); n == "(*net/http.Client).Do" || n == "net.Dial" || n == "net/http.Get" {
				c.ob(rule, fname(f)+"/network-call-on-command-path", cs.pos(), false, true, "a command must not perform network I/O synchronously (probes run in their own goroutine and are awaited with a bound)")
			}
		}
	}
}

func r171b(c *Ctx) {
	const rule = "R17.1b timeouts-reach-the-right-waits"
	c.floor(rule, 14)
	fns := []*ssa.Function{
		c.method("CommandHandler", "Deploy"), c.method("CommandHandler", "RolloutDeploy"), c.method("CommandHandler", "Pause"), c.method("CommandHandler", "Stop"),
		c.method("Router", "DeployService"), c.method("Router", "SetRolloutTargets"), c.method("Router", "deployTargetsIntoService"),
		c.method("Router", "PauseService"), c.method("Router", "StopService"),
		c.method("Service", "Pause"), c.method("Service", "Stop"), c.method("Service", "Drain"),
		c.method("LoadBalancer", "WaitUntilHealthy"), c.method("LoadBalancer", "DrainAll"),
	}
	var all []*ssa.Function
	for _, f := range fns {
		all = append(all, withAnon(f)...)
	}
	c.durationArgsAgreeResolved(rule, all)
	c.durationFieldsAgree(rule, all)
}

// durationArgsAgreeResolved: like durationArgsAgree, but arguments are resolved through captured cells,
// and deploy/drain naming is checked by role: an argument named *deploy* may only feed a parameter named
// timeout of a WaitUntilHealthy, an argument named *drain* only DrainAll/Drain/Pause/Stop drain parameters.
func (c *Ctx) durationArgsAgreeResolved(rule string, fns []*ssa.Function) {
	norm := func(s string) string {
		out := ""
		for _, r := range s {
			if r != '_' {
				out += string(r | 0x20)
			}
		}
		return out
	}
	for _, fn := range fns {
		for _, cs := range callsIn(fn) {
			callee := cs.common().StaticCallee()
			if callee == nil || !c.inModule(callee) {
				continue
			}
			for i, a := range cs.common().Args {
				if i >= len(callee.Params) || typeString(a.Type()) != "time.Duration" {
					continue
				}
				var src string
				r := resolve(a)
				if p, ok := r.(*ssa.Parameter); ok {
					src = p.Name()
				} else if ch, _ := fieldPath(r); len(ch) > 0 {
					src = ch[len(ch)-1].Name()
				} else if _, isConst := r.(*ssa.Const); isConst {
					continue
				} else {
					// a timeout that is computed on the way (max with another setting, a sum, a default) no longer is the
					// bound the operator gave
					c.ob(rule, fmt.Sprintf("%s: <computed> -> %s(%s:)", fname(fn), callee.Name(), callee.Params[i].Name()), cs.pos(), false, true, "a timeout must be handed on as it was given: the wait it bounds would otherwise outlast (or undercut) the configured bound")
					continue
				}
				want := callee.Params[i].Name()
				s, w := norm(src), norm(want)
				ok := s == w
				// by role: which bound a name stands for (a parameter object may call its fields just `deploy` / `drain`)
				role := func(n string) string {
					switch {
					case strings.Contains(n, "deploy"):
						return "deploy"
					case strings.Contains(n, "drain"):
						return "drain"
					case strings.Contains(n, "pause") || n == "failafter":
						return "pause"
					}
					return ""
				}
				if !ok && role(s) != "" && role(s) == role(w) {
					ok = true
				}
				if !ok && w == "timeout" {
					switch callee.Name() {
					case "WaitUntilHealthy":
						ok = role(s) == "deploy" || s == "timeout"
					case "DrainAll", "Drain":
						ok = role(s) == "drain" || s == "timeout"
					}
				}
				if !ok && w == "failafter" {
					ok = role(s) == "pause"
				}
				c.ob(rule, fmt.Sprintf("%s: %s -> %s(%s:)", fname(fn), src, callee.Name(), want), cs.pos(), ok, true, "each timeout must reach the wait it is meant to bound (all are time.Duration: a swap compiles)")
			}
		}
	}
}

// durationFieldsAgree: a time.Duration stored into a struct field inside the timeout-carrying functions keeps its role
// (`deployTimeouts{deploy: deployTimeout, drain: drainTimeout}`: a swap compiles).
func (c *Ctx) durationFieldsAgree(rule string, fns []*ssa.Function) {
	role := func(n string) string {
		n = strings.ToLower(strings.ReplaceAll(n, "_", ""))
		switch {
		case strings.Contains(n, "deploy"):
			return "deploy"
		case strings.Contains(n, "drain"):
			return "drain"
		case strings.Contains(n, "pause") || n == "failafter":
			return "pause"
		}
		return ""
	}
	for _, fn := range fns {
		for _, b := range fn.Blocks {
			for _, in := range b.Instrs {
				st, ok := in.(*ssa.Store)
				if !ok || typeString(st.Val.Type()) != "time.Duration" {
					continue
				}
				f, _, isField := fieldOfAddr(st.Addr)
				if !isField {
					continue
				}
				src := ""
				r := resolve(st.Val)
				if p, isP := r.(*ssa.Parameter); isP {
					src = p.Name()
				} else if ch, _ := fieldPath(r); len(ch) > 0 {
					src = ch[len(ch)-1].Name()
				}
				if role(f.Name()) == "" || role(src) == "" {
					continue
				}
				c.ob(rule, fmt.Sprintf("%s: %s -> field %s", fname(fn), src, f.Name()), st.Pos(), role(f.Name()) == role(src), true, "a timeout put into a parameter object must go into the field of its own role (all are time.Duration: a swap compiles)")
			}
		}
	}
}

func r172(c *Ctx, rule string) {
	c.floor(rule, 5)
	sd := c.method("Service", "Dispose")
	lbd := c.method("LoadBalancer", "Dispose")
	tld := c.methodIn(c.server, "TargetList", "Dispose")
	td := c.method("Target", "Dispose")
	stop := c.method("Target", "stopHealthChecks")
	activeF, rolloutF := c.field("Service", "active"), c.field("Service", "rollout")
	disposed := map[*types.Var]bool{}
	for _, cs := range callsTo(sd, lbd) {
		// the balancer disposed: a slot, or every element of a list of slots built just before (each under its conditions)
		type cand struct {
			val   ssa.Value
			conds []condEdge
		}
		var cands []cand
		recv := resolve(cs.common().Args[0])
		if src, full := fullRangeElem(recv); full {
			if els, ok := listContents(src); ok {
				for _, e := range els {
					cands = append(cands, cand{e.val, append(append([]condEdge{}, e.conds...), condsOtherThanLoop(dominatingConds(cs.instr.Block()))...)})
				}
			}
		} else {
			cands = append(cands, cand{recv, dominatingConds(cs.instr.Block())})
		}
		for _, cd := range cands {
			f, _, ok := fieldLoad(cd.val)
			if !ok {
				continue
			}
			guardsOK := true
			for _, ce := range cd.conds {
				cm, ok := ce.asCmp()
				if !ok || cm.op != token.NEQ || !isLoadOfField(resolve(cm.x), f) || !isNilConst(cm.y) {
					guardsOK = false
				}
			}
			if guardsOK {
				disposed[f] = true
			}
		}
	}
	c.ob(rule, "Service.Dispose/disposes-active", sd.Pos(), disposed[activeF], true, "")
	c.ob(rule, "Service.Dispose/disposes-rollout-whenever-set", sd.Pos(), disposed[rolloutF], true, "rollout targets are probed from the moment they are deployed, split or not: removal must stop their probes whenever the slot is non-nil (no other condition)")
	// LoadBalancer.Dispose -> lb.all.Dispose() on every path
	okAll := false
	for _, cs := range callsTo(lbd, tld) {
		if isLoadOfField(cs.common().Args[0], c.field("LoadBalancer", "all")) {
			_, skip := reach(lbd, nil, isReturn, func(in ssa.Instruction) bool { return in == cs.instr })
			okAll = !skip
		}
	}
	c.ob(rule, "LoadBalancer.Dispose/all-targets", lbd.Pos(), okAll, true, "every target of the balancer (lb.all, not only the healthy ones) must be disposed")
	okEach := false
	for _, cs := range callsTo(tld, td) {
		if s, full := fullRangeElem(cs.common().Args[0]); full && s == ssa.Value(tld.Params[0]) && len(dominatingCondsOtherThanLoop(cs.instr)) == 0 {
			okEach = true
		}
	}
	c.ob(rule, "TargetList.Dispose/every-element", tld.Pos(), okEach, true, "")
	_, skipStop := reach(td, nil, isReturn, func(in ssa.Instruction) bool { ci, ok := in.(*ssa.Call); return ok && isCallTo(ci.Common(), stop) })
	c.ob(rule, "Target.Dispose/stops-health-checks", td.Pos(), !skipStop, true, "")
	r064(c, "R17.2b probe-loop-stops")
}

func r173(c *Ctx) {
	const rule = "R17.3 disposal-in-every-stated-situation"
	c.floor(rule, 1)
	rs := c.method("Router", "RemoveService")
	sd := c.method("Service", "Dispose")
	rm := c.method("ServiceMap", "Remove")
	get := c.method("ServiceMap", "Get")
	ok := false
	for _, cl := range rs.AnonFuncs {
		for _, d := range callsTo(cl, sd) {
			for _, r := range callsTo(cl, rm) {
				// the service disposed is the one looked up by the name being removed, and it is disposed on the path to Remove
				g, isCall := d.common().Args[0].(*ssa.Call)
				if isCall && isCallTo(g.Common(), get) && dominates(d.instr, r.instr) {
					if _, nn := nilKnowledge(d.instr, sameAs(g)); nn {
						ok = true
					}
				}
			}
		}
	}
	c.ob(rule, "RemoveService/disposes-the-removed-service", rs.Pos(), ok, true, "remove must stop the probes of the service it unbinds")
	r021(c, "R02.1 deploy-step-order")
	r061(c, "R17.3b failed-deploy-disposes-new-balancer")
}

// R17.8 who may start probing: "no further probes after remove / redeploy / failed deploy" holds because disposal stops
// a target's probe loop (R17.2) AND nothing starts one again: probe loops are started for the targets of a balancer under
// construction and nowhere else (a drain, a resume or a probe result that restarted probing would outlive the disposal
// that ran in between).
func rWhoMayStartProbes(c *Ctx, rule string) {
	c.floor(rule, 3)
	allow := map[string]map[string]string{
		"(*server.HealthCheck).run":                {"server.NewHealthCheck": "the constructor starts the loop"},
		"server.NewHealthCheck":                    {"(*server.Target).BeginHealthChecks": "the only maker of probe loops"},
		"(*server.Target).BeginHealthChecks":       {"(*server.LoadBalancer).beginHealthChecks": "for every target of a new balancer", "server.NewLoadBalancer": "for every target of a new balancer"},
		"(*server.LoadBalancer).beginHealthChecks": {"server.NewLoadBalancer": "balancer construction"},
	}
	for _, fn := range c.proxyFuncs() {
		row, ok := allow[fname(fn)]
		if !ok {
			continue
		}
		for _, u := range c.usesOfFunc(fn) {
			o := fname(outer(u.in))
			reason, ok := row[o]
			c.ob(rule, "call "+fn.Name()+" ("+fname(fn)+") <- "+o, u.instr.Pos(), ok, false, "who may start probing: "+reason)
		}
	}
}

// R17.9 the health waits of one deploy run at the same time: each Target.WaitUntilHealthy of
// LoadBalancer.WaitUntilHealthy is made from a goroutine launched for that target, so that N targets that never become
// healthy cost one deploy timeout and not N of them ("deploy returns within deploy-timeout plus drain-timeout").
func rHealthWaitsConcurrent(c *Ctx, rule string) {
	c.floor(rule, 1)
	lbw := c.method("LoadBalancer", "WaitUntilHealthy")
	tw := c.method("Target", "WaitUntilHealthy")
	launched := map[*ssa.Function]bool{}
	for _, fn := range withAnon(lbw) {
		for _, b := range fn.Blocks {
			for _, in := range b.Instrs {
				g, ok := in.(*ssa.Go)
				if !ok {
					continue
				}
				if mc, ok := g.Call.Value.(*ssa.MakeClosure); ok {
					if f, ok := mc.Fn.(*ssa.Function); ok {
						launched[f] = true
					}
				} else if f := g.Call.StaticCallee(); f != nil {
					launched[f] = true
				}
			}
		}
	}
	n := 0
	for _, u := range c.usesOfFunc(tw) {
		if outer(u.in) != lbw {
			continue
		}
		n++
		ok := u.kind == "go"
		for f := u.in; f != nil && !ok; f = f.Parent() {
			if launched[f] {
				ok = true
			}
		}
		c.ob(rule, "LoadBalancer.WaitUntilHealthy/per-target-wait-in-its-own-goroutine", u.instr.Pos(), ok, true, "a wait made in the command's own goroutine makes the targets wait one after the other: N timeouts instead of one")
	}
	c.ob(rule, "LoadBalancer.WaitUntilHealthy/waits-for-its-targets", lbw.Pos(), n >= 1, false, "")
}
