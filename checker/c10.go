package main

import (
	"fmt"
	"go/constant"
	"go/token"
	"go/types"
	"math"
	"reflect"
	"strings"

	"golang.org/x/tools/go/ssa"
)

func init() {
	register("C10", &propCheck{
		explain: "Decides the structural clauses of the rollout split: (R10.1) the decision and everything it calls is effect-free (no store to non-local state, no clock/rand/global/env read; callee allow-list), and its input is exactly Cookie(\"kamal-rollout\").Value; (R10.2) inclusion is hash(value) <= splitPoint with the hash independent of the percentage and splitPoint non-decreasing in it (monotonicity lattice over the constructor's expression), and constant folding at percentage=100 gives >= MaxUint32, the maximum of the hash type; (R10.3) the rollout balancer is returned only under rollout!=nil && controller!=nil && RequestUsesRolloutGroup, the empty cookie short-circuits to false before allowlist/hash, rollout stop clears the controller; (R10.4) a split is stored only when rollout targets exist, and restore creates the rollout slot only from a non-empty saved list; (R10.5) every field of the persisted controller is exported and json-tagged.",
		notDecided: []string{"included share ~ percentage (uniformity of FNV-1a)", "net/http cookie parsing"},
		run:        checkC10,
	})
}

func checkC10(c *Ctx) {
	r101(c)
	r102(c)
	r103(c)
	r104(c, "R10.4 split-needs-rollout-targets")
	persistedFields(c, "R10.5 split-survives-restart", "RolloutController", nil)
}

// reachableStatic: module functions reachable from fn through static calls (and closures).
func (c *Ctx) reachableStatic(fn *ssa.Function) []*ssa.Function {
	seen := map[*ssa.Function]bool{}
	var out []*ssa.Function
	var walk func(f *ssa.Function)
	walk = func(f *ssa.Function) {
		if f == nil || seen[f] || f.Blocks == nil || !c.inModule(f) {
			return
		}
		seen[f] = true
		out = append(out, f)
		for _, cs := range callsInDeep(f) {
			if sc := cs.common().StaticCallee(); sc != nil {
				walk(sc)
			}
		}
	}
	walk(fn)
	return out
}

func r101(c *Ctx) {
	const rule = "R10.1 decision-is-pure-function-of-cookie-value"
	c.floor(rule, 8)
	root := c.method("RolloutController", "RequestUsesRolloutGroup")
	allowed := map[string]string{
		"(*net/http.Request).Cookie": "the request's cookie",
		"slices.Contains":            "allowlist membership",
		"hash/fnv.New32a":            "hash constructor",
		"(hash.Hash32).Sum32":        "hash",
		"(io.Writer).Write":          "hash input",
		"(hash.Hash32).Write":        "hash input",
		"(hash.Hash).Write":          "hash input",
	}
	for _, f := range c.reachableStatic(root) {
		c.touched(f.String())
		pure := true
		detail := ""
		for _, b := range f.Blocks {
			for _, in := range b.Instrs {
				switch x := in.(type) {
				case *ssa.Store:
					if _, isLocal := x.Addr.(*ssa.Alloc); !isLocal {
						if _, _, isField := fieldOfAddr(x.Addr); isField || isGlobalAddr(x.Addr) {
							pure = false
							detail = "stores to non-local state at " + c.pos(x.Pos())
						} else if ia, ok := x.Addr.(*ssa.IndexAddr); ok {
							if _, isLocalArr := ia.X.(*ssa.Alloc); !isLocalArr {
								pure = false
								detail = "stores through an index at " + c.pos(x.Pos())
							}
						}
					}
				case *ssa.MapUpdate, *ssa.Send, *ssa.Go:
					pure = false
					detail = fmt.Sprintf("%T at %s", in, c.pos(in.Pos()))
				case *ssa.UnOp:
					if x.Op == token.MUL {
						if g, ok := x.X.(*ssa.Global); ok {
							// reading a package-level variable would make the decision depend on global state (constants are not Globals)
							pure = false
							detail = "reads global " + g.Name()
						}
					}
				case ssa.CallInstruction:
					cc := x.Common()
					if sc := cc.StaticCallee(); sc != nil && c.inModule(sc) {
						continue
					}
					if _, isB := cc.Value.(*ssa.Builtin); isB {
						continue
					}
					n := calleeName(cc)
					if _, ok := allowed[n]; !ok {
						pure = false
						detail = "calls " + n + " (not in the allow-list of effect-free, input-only callees)"
					}
				}
			}
		}
		c.ob(rule, "effect-free: "+fname(f), f.Pos(), pure, true, detail)
	}
	// input: splitValue returns Cookie("kamal-rollout").Value, "" on error
	sv := c.method("RolloutController", "splitValue")
	cookieName := c.constant(c.server, "RolloutCookieName")
	var ck *ssa.Call
	for _, cs := range callsToName(sv, "(*net/http.Request).Cookie") {
		if call, ok := cs.instr.(*ssa.Call); ok && call.Call.Args[0] == ssa.Value(sv.Params[1]) {
			if s, ok := constString(call.Call.Args[1]); ok && s == constant.StringVal(cookieName.Value.Value) && s == "kamal-rollout" {
				ck = call
			}
		}
	}
	c.ob(rule, "splitValue/reads-the-kamal-rollout-cookie", sv.Pos(), ck != nil, true, "the only input of the decision must be r.Cookie(\"kamal-rollout\")")
	if ck != nil {
		okV, okE := false, false
		for _, ret := range normalReturns(sv) {
			v := retVal(ret, 0)
			if f, base, ok := fieldLoad(v); ok && f.Name() == "Value" && base == resultOf(ck, 0) {
				if isNil, _ := nilKnowledge(ret, sameAs(errResultOf(ck))); isNil {
					okV = true
				}
				continue
			}
			if s, ok := constString(v); ok && s == "" {
				if _, nn := nilKnowledge(ret, sameAs(errResultOf(ck))); nn {
					okE = true
				}
				continue
			}
			okV = false
			okE = false
			break
		}
		c.ob(rule, "splitValue/value-or-empty", sv.Pos(), okV && okE, true, "splitValue must return the cookie's Value, or \"\" when the cookie is absent")
	}
	// hash depends only on the value
	hv := c.method("RolloutController", "hashForValue")
	okH := false
	for _, cs := range callsIn(hv) {
		if cs.common().IsInvoke() && cs.common().Method.Name() == "Write" {
			if cv, ok := cs.common().Args[0].(*ssa.Convert); ok && cv.X == ssa.Value(hv.Params[1]) {
				okH = true
			}
		}
	}
	usesRecv := false
	if refs := hv.Params[0].Referrers(); refs != nil && len(*refs) > 0 {
		usesRecv = true
	}
	c.ob(rule, "hashForValue/hash-of-the-value-only", hv.Pos(), okH && !usesRecv && typeString(hv.Signature.Results().At(0).Type()) == "uint32", true, "the hash must be computed from the cookie value alone (FNV-1a 32) and not from controller state")
}

func isGlobalAddr(v ssa.Value) bool { _, ok := v.(*ssa.Global); return ok }

// mono: monotonicity of an SSA float/int expression in one parameter: +1 non-decreasing, -1 non-increasing, 0 constant, 2 unknown.
func mono(v ssa.Value, p *ssa.Parameter) int {
	switch x := v.(type) {
	case *ssa.Const:
		return 0
	case *ssa.Parameter:
		if x == p {
			return 1
		}
		return 0
	case *ssa.Convert:
		return mono(x.X, p)
	case *ssa.ChangeType:
		return mono(x.X, p)
	case *ssa.BinOp:
		a, b := mono(x.X, p), mono(x.Y, p)
		sign := func(v ssa.Value) int { // sign of a constant operand
			k, ok := v.(*ssa.Const)
			if !ok || k.Value == nil {
				return 2
			}
			f, _ := constant.Float64Val(constant.ToFloat(k.Value))
			switch {
			case f > 0:
				return 1
			case f < 0:
				return -1
			}
			return 0
		}
		switch x.Op {
		case token.ADD:
			if a == 2 || b == 2 {
				return 2
			}
			if a == 0 {
				return b
			}
			if b == 0 || a == b {
				return a
			}
			return 2
		case token.SUB:
			if b == 0 {
				return a
			}
			if a == 0 && b != 2 {
				return -b
			}
			return 2
		case token.MUL:
			if a == 0 && b == 0 {
				return 0
			}
			if b != 0 && b != 2 && a == 0 {
				if s := sign(x.X); s == 1 {
					return b
				} else if s == -1 {
					return -b
				} else if s == 0 {
					return 0
				}
			}
			if a != 0 && a != 2 && b == 0 {
				if s := sign(x.Y); s == 1 {
					return a
				} else if s == -1 {
					return -a
				} else if s == 0 {
					return 0
				}
			}
			return 2
		case token.QUO:
			if b == 0 && a != 2 {
				if s := sign(x.Y); s == 1 {
					return a
				} else if s == -1 {
					return -a
				}
			}
			return 2
		}
	}
	return 2
}

// foldAt evaluates a pure arithmetic SSA expression with parameter p bound to the constant val (go/constant folding).
func foldAt(v ssa.Value, p *ssa.Parameter, val constant.Value) (constant.Value, bool) {
	switch x := v.(type) {
	case *ssa.Const:
		if x.Value == nil {
			return nil, false
		}
		return x.Value, true
	case *ssa.Parameter:
		if x == p {
			return val, true
		}
	case *ssa.Convert:
		in, ok := foldAt(x.X, p, val)
		if !ok {
			return nil, false
		}
		if b, ok := x.Type().Underlying().(*types.Basic); ok && b.Info()&types.IsFloat != 0 {
			return constant.ToFloat(in), true
		}
		return in, true
	case *ssa.BinOp:
		a, ok1 := foldAt(x.X, p, val)
		b, ok2 := foldAt(x.Y, p, val)
		if !ok1 || !ok2 {
			return nil, false
		}
		switch x.Op {
		case token.ADD, token.SUB, token.MUL:
			return constant.BinaryOp(constant.ToFloat(a), x.Op, constant.ToFloat(b)), true
		case token.QUO:
			return constant.BinaryOp(constant.ToFloat(a), token.QUO, constant.ToFloat(b)), true
		}
	}
	return nil, false
}

func r102(c *Ctx) {
	const rule = "R10.2 monotone-in-percentage-and-total-at-100"
	c.floor(rule, 4)
	vp := c.method("RolloutController", "valueInRolloutPercentage")
	hv := c.method("RolloutController", "hashForValue")
	spF := c.field("RolloutController", "PercentageSplitPoint")
	rets := normalReturns(vp)
	okCmp := false
	if len(rets) == 1 {
		if bo, ok := retVal(rets[0], 0).(*ssa.BinOp); ok && (bo.Op == token.LEQ || bo.Op == token.GEQ) {
			h, sp := bo.X, bo.Y
			if bo.Op == token.GEQ {
				h, sp = bo.Y, bo.X
			}
			if cv, ok := h.(*ssa.Convert); ok {
				if call, ok := cv.X.(*ssa.Call); ok && isCallTo(call.Common(), hv) && call.Call.Args[1] == ssa.Value(vp.Params[1]) && isLoadOfField(sp, spF) {
					okCmp = true
				}
			}
		}
	}
	c.ob(rule, "valueInRolloutPercentage/hash(value) <= splitPoint", vp.Pos(), okCmp, true, "inclusion must be the comparison float64(hashForValue(value)) <= rc.PercentageSplitPoint (a value included at one split point stays included at every larger one)")
	// the split point stored by the constructor is non-decreasing in `percentage` and >= MaxUint32 at 100
	nrc := c.fn("NewRolloutController")
	var spVal ssa.Value
	nW := 0
	for _, w := range c.writesOfField(spF) {
		nW++
		if w.fn == nrc {
			spVal = w.val
		} else {
			c.ob(rule, "write RolloutController.PercentageSplitPoint <- "+fname(outer(w.fn)), w.instr.Pos(), false, false, "only the constructor computes the split point")
		}
	}
	if !c.ob(rule, "NewRolloutController/computes-split-point", nrc.Pos(), spVal != nil, true, "") {
		return
	}
	p := nrc.Params[0]
	m := mono(spVal, p)
	c.ob(rule, "NewRolloutController/split-point-non-decreasing-in-percentage", nrc.Pos(), m == 1, true, fmt.Sprintf("monotonicity of the split-point expression in 'percentage' (+1 non-decreasing, 0 constant, -1 non-increasing, 2 unknown): %d", m))
	at100, ok := foldAt(spVal, p, constant.MakeInt64(100))
	f100 := math.NaN()
	if ok {
		f100, _ = constant.Float64Val(at100)
	}
	c.ob(rule, "NewRolloutController/percentage=100-includes-every-hash", nrc.Pos(), ok && f100 >= float64(math.MaxUint32), true, fmt.Sprintf("split point folded at percentage=100: %v; must be >= %d (maximum of the uint32 hash)", f100, uint32(math.MaxUint32)))
	at0, ok0 := foldAt(spVal, p, constant.MakeInt64(0))
	f0 := math.NaN()
	if ok0 {
		f0, _ = constant.Float64Val(at0)
	}
	c.ob(rule, "NewRolloutController/percentage=0-includes-(almost)-nothing", nrc.Pos(), ok0 && f0 >= 0 && f0 < 1, true, fmt.Sprintf("split point folded at percentage=0: %v", f0))
	// Percentage and Allowlist stored from the parameters
	c.paramsToFields(rule, nrc, "RolloutController", map[string]string{"Percentage": "percentage", "Allowlist": "allowlist"})
}

func r103(c *Ctx) {
	const rule = "R10.3 confinement"
	c.floor(rule, 5)
	lbf := c.method("Service", "loadBalancerForRequest")
	activeF, rolloutF, rcF := c.field("Service", "active"), c.field("Service", "rollout"), c.field("Service", "rolloutController")
	uses := c.method("RolloutController", "RequestUsesRolloutGroup")
	licensed := func(b *ssa.BasicBlock) bool {
		var r, k, u bool
		for _, ce := range dominatingCondsFrom(b) {
			if cm, ok := ce.asCmp(); ok && cm.op == token.NEQ {
				for _, pr := range [][2]ssa.Value{{cm.x, cm.y}, {cm.y, cm.x}} {
					if isNilConst(pr[1]) && isLoadOfField(pr[0], rolloutF) {
						r = true
					}
					if isNilConst(pr[1]) && isLoadOfField(pr[0], rcF) {
						k = true
					}
				}
			}
			if call, ok := ce.cond.(*ssa.Call); ok && ce.taken && isCallTo(call.Common(), uses) && isLoadOfField(call.Call.Args[0], rcF) && call.Call.Args[1] == ssa.Value(lbf.Params[1]) {
				u = true
			}
		}
		return r && k && u
	}
	nRollout, nActive := 0, 0
	for _, ret := range normalReturns(lbf) {
		v := retVal(ret, 0)
		type src struct {
			v ssa.Value
			b *ssa.BasicBlock
		}
		var srcs []src
		if phi, ok := v.(*ssa.Phi); ok {
			for i, e := range phi.Edges {
				srcs = append(srcs, src{e, phi.Block().Preds[i]})
			}
		} else {
			srcs = []src{{v, ret.Block()}}
		}
		for _, s := range srcs {
			switch {
			case isLoadOfField(s.v, rolloutF):
				nRollout++
				c.ob(rule, "loadBalancerForRequest/rollout-only-when-opted-in", ret.Pos(), licensed(s.b), true, "the rollout balancer may be chosen only under s.rollout!=nil && s.rolloutController!=nil && rolloutController.RequestUsesRolloutGroup(req)")
			case isLoadOfField(s.v, activeF):
				nActive++
			default:
				c.ob(rule, "loadBalancerForRequest/unknown-result", ret.Pos(), false, true, "the result must be s.active or s.rollout")
			}
		}
	}
	c.ob(rule, "loadBalancerForRequest/falls-back-to-active", lbf.Pos(), nActive >= 1 && nRollout >= 1, true, "")
	// RequestUsesRolloutGroup: empty value => false before allowlist/hash; true only via allowlist or percentage
	sv := c.method("RolloutController", "splitValue")
	al := c.method("RolloutController", "valueInAllowlist")
	vp := c.method("RolloutController", "valueInRolloutPercentage")
	svc := callsTo(uses, sv)
	if len(svc) != 1 {
		c.undecided(rule, "RequestUsesRolloutGroup/shape", uses.Pos(), "expected one splitValue call")
		return
	}
	val := svc[0].instr.(*ssa.Call)
	for _, cs := range append(callsTo(uses, al), callsTo(uses, vp)...) {
		nonEmpty := false
		for _, ce := range dominatingConds(cs.instr.Block()) {
			if cm, ok := ce.asCmp(); ok && cm.op == token.NEQ {
				if s, ok := constString(cm.y); ok && s == "" && cm.x == ssa.Value(val) {
					nonEmpty = true
				}
			}
		}
		c.ob(rule, "RequestUsesRolloutGroup/"+cs.common().StaticCallee().Name()+"-only-with-a-cookie-value", cs.pos(), nonEmpty && cs.common().Args[1] == ssa.Value(val), true, "allowlist and percentage may be consulted only for a non-empty cookie value, and on that value")
	}
	for _, ret := range normalReturns(uses) {
		// every value that can be returned is false, a verdict of the allowlist / percentage test, or true on a path where
		// the allowlist test was true
		var okSrc func(v ssa.Value, conds []condEdge, depth int) bool
		okSrc = func(v ssa.Value, conds []condEdge, depth int) bool {
			if b, isC := constBool(v); isC {
				if !b {
					return true
				}
				for _, cs := range callsTo(uses, al) {
					if t, _ := boolFactsOf(conds, sameAs(cs.instr.(*ssa.Call))); t {
						return true
					}
				}
				return false
			}
			if call, isCall := v.(*ssa.Call); isCall && (isCallTo(call.Common(), vp) || isCallTo(call.Common(), al)) {
				return true
			}
			if phi, isPhi := v.(*ssa.Phi); isPhi && depth < 4 {
				for i, e := range phi.Edges {
					pred := phi.Block().Preds[i]
					ec := append(append([]condEdge{}, dominatingConds(pred)...), edgeCond(pred, phi.Block())...)
					if !okSrc(e, ec, depth+1) {
						return false
					}
				}
				return true
			}
			return false
		}
		ok := okSrc(retVal(ret, 0), dominatingConds(ret.Block()), 0)
		c.ob(rule, "RequestUsesRolloutGroup/result-provenance", ret.Pos(), ok, true, "the decision may be true only via the allowlist or the percentage test")
	}
	// valueInAllowlist == slices.Contains(rc.Allowlist, value)
	okAL := false
	for _, cs := range callsIn(al) {
		if o := calleeObj(cs.common()); o != nil && o.Pkg() != nil && o.Pkg().Path() == "slices" && o.Name() == "Contains" {
			if isLoadOfField(cs.common().Args[0], c.field("RolloutController", "Allowlist")) && cs.common().Args[1] == ssa.Value(al.Params[1]) {
				okAL = true
			}
		}
	}
	if !okAL {
		// the same written as a loop: true exactly under `element == value` for an element ranging over the whole list,
		// false only after the loop
		allowF := c.field("RolloutController", "Allowlist")
		nTrue, okLoop := 0, true
		for _, rc := range retCases(al) {
			b, isConst := constBool(rc.vals[0])
			if !isConst {
				okLoop = false
				continue
			}
			if b {
				nTrue++
				eq := false
				for _, ce := range rc.conds {
					cm, ok := ce.asCmp()
					if !ok || cm.op != token.EQL {
						continue
					}
					for _, pr := range [][2]ssa.Value{{cm.x, cm.y}, {cm.y, cm.x}} {
						if src, full := fullRangeElem(pr[0]); full && isLoadOfField(src, allowF) && pr[1] == ssa.Value(al.Params[1]) {
							eq = true
						}
					}
				}
				if !eq {
					okLoop = false
				}
			} else if inLoop(rc.ret.Block()) || len(dominatingCondsOtherThanLoop(rc.ret)) != 0 {
				okLoop = false
			}
		}
		okAL = okLoop && nTrue >= 1
	}
	c.ob(rule, "valueInAllowlist/exact-membership", al.Pos(), okAL, true, "")
	// StopRollout clears the controller
	sr := c.method("Service", "StopRollout")
	okStop := false
	for _, w := range c.writesOfField(rcF) {
		if w.fn == sr && isNilConst(w.val) {
			_, skip := reach(sr, nil, isReturn, func(in ssa.Instruction) bool { return in == w.instr })
			okStop = !skip
		}
	}
	c.ob(rule, "StopRollout/clears-split", sr.Pos(), okStop, true, "rollout stop must set rolloutController to nil on every path")
}

// dominatingCondsFrom: conditions known at the END of block b (including b's own position in the idom chain).
func dominatingCondsFrom(b *ssa.BasicBlock) []condEdge {
	out := dominatingConds(b)
	return out
}

func r104(c *Ctx, rule string) {
	c.floor(rule, 3)
	srs := c.method("Service", "SetRolloutSplit")
	rolloutF, rcF := c.field("Service", "rollout"), c.field("Service", "rolloutController")
	n := 0
	for _, w := range c.writesOfField(rcF) {
		if outer(w.fn) != srs {
			continue
		}
		n++
		_, nn := nilKnowledge(w.instr, matchFieldLoad(rolloutF))
		c.ob(rule, "SetRolloutSplit/store-requires-rollout-targets", w.instr.Pos(), nn, true, "the split may be stored only on the s.rollout != nil branch")
	}
	c.ob(rule, "SetRolloutSplit/stores-split", srs.Pos(), n >= 1, false, "")
	// optional-slot symmetry: MarshalJSON writes rollout targets only when the slot is set; UnmarshalJSON must create the slot only from a non-empty list
	um := c.method("Service", "UnmarshalJSON")
	rtF := c.field("marshalledService", "RolloutTargets")
	nr := 0
	for _, w := range c.writesOfField(rolloutF) {
		if w.fn != um {
			continue
		}
		nr++
		lo, _, neq := interval(intFacts(w.instr, func(v ssa.Value) bool {
			call, ok := v.(*ssa.Call)
			if !ok {
				return false
			}
			b, ok := call.Call.Value.(*ssa.Builtin)
			return ok && b.Name() == "len" && isLoadOfField(call.Call.Args[0], rtF)
		}))
		nonEmpty := lo >= 1
		for _, k := range neq {
			if k == 0 {
				nonEmpty = true
			}
		}
		c.ob(rule, "UnmarshalJSON/rollout-slot-only-from-saved-rollout-targets", w.instr.Pos(), nonEmpty, true, "nil-ness of Service.rollout carries meaning ('rollout targets exist'): restore must set it only when the saved rollout target list is non-empty, else `rollout set` is accepted without targets after a restart")
	}
	c.ob(rule, "UnmarshalJSON/restores-rollout-slot", um.Pos(), nr >= 1, false, "")
	mj := c.method("Service", "MarshalJSON")
	okM := false
	for _, cs := range callsTo(mj, c.method("LoadBalancer", "Targets")) {
		if isLoadOfField(cs.common().Args[0], rolloutF) {
			if _, nn := nilKnowledge(cs.instr, matchFieldLoad(rolloutF)); nn {
				okM = true
			}
		}
	}
	c.ob(rule, "MarshalJSON/rollout-targets-only-when-slot-set", mj.Pos(), okM, true, "")
}

// persistedFields: every field of a JSON-persisted struct is exported and has a json tag other than "-",
// except the listed transient fields (each with a reason).
func persistedFields(c *Ctx, rule, typ string, transient map[string]string) {
	nt := c.named(typ)
	st := nt.Underlying().(*types.Struct)
	c.floor(rule, st.NumFields())
	// encoding/json silently drops every field whose name is claimed twice at the same depth
	jsonNames := map[string]int{}
	for i := 0; i < st.NumFields(); i++ {
		if name := strings.Split(reflect.StructTag(st.Tag(i)).Get("json"), ",")[0]; name != "" && name != "-" {
			jsonNames[name]++
		}
	}
	for i := 0; i < st.NumFields(); i++ {
		f := st.Field(i)
		if n := jsonNames[strings.Split(reflect.StructTag(st.Tag(i)).Get("json"), ",")[0]]; n > 1 {
			c.ob(rule, typ+"."+f.Name()+"/json-name-unique", f.Pos(), false, true, "two fields of "+typ+" carry the same json name: encoding/json then saves and restores neither of them")
		}
		oldName := f.Name()
		if o, ok := renamedFieldsOf(nt.Obj().Pkg().Path(), typ, st)[f.Name()]; ok {
			oldName = o // the reference tree's field under a new name
		}
		if reason, ok := transient[oldName]; ok {
			c.ob(rule, typ+"."+oldName+"/transient", f.Pos(), true, false, "not persisted by design: "+reason)
			continue
		}
		if !f.Exported() && c.unobservedNewField(typ, f) {
			c.ob(rule, typ+"."+f.Name()+"/new-and-unobserved", f.Pos(), true, false, "a field that does not exist in the reference tree and is read only by new functions: nothing the existing code does depends on it surviving a restart")
			continue
		}
		tag := reflect.StructTag(st.Tag(i)).Get("json")
		name := strings.Split(tag, ",")[0]
		c.ob(rule, typ+"."+f.Name()+"/persisted", f.Pos(), f.Exported() && tag != "" && name != "-", true,
			fmt.Sprintf("encoding/json only saves exported fields; exported=%v json tag=%q", f.Exported(), tag))
	}
}
