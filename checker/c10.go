package main

import (
	"os"
	"fmt"
	"go/constant"
	"go/token"
	"go/types"
	"math"
	"reflect"
	"strings"

	"golang.org/x/tools/go/ssa"
)

func init() {
	register("C10", &propCheck{
		explain: "Decides the structural clauses of the rollout split: (R10.1) the decision and everything it calls is effect-free (no store to non-local state, no clock/rand/global/env read; callee allow-list), and its input is exactly Cookie(\"kamal-rollout\").Value; (R10.2) inclusion is hash(value) <= splitPoint with the hash independent of the percentage and splitPoint non-decreasing in it (monotonicity lattice over the constructor's expression), and constant folding at percentage=100 gives >= MaxUint32, the maximum of the hash type; (R10.3) the rollout balancer is returned only under rollout!=nil && controller!=nil && RequestUsesRolloutGroup, the empty cookie short-circuits to false before allowlist/hash, rollout stop clears the controller; (R10.4) a split is stored only when rollout targets exist, and restore creates the rollout slot only from a non-empty saved list; (R10.5) every field of the persisted controller is exported and json-tagged.",
		notDecided: []string{"included share ~ percentage (uniformity of FNV-1a)", "net/http cookie parsing"},
		run:        checkC10,
	})
}

func checkC10(c *Ctx) {
	r101(c)
	r102(c)
	r103(c)
	r104(c, "R10.4 split-needs-rollout-targets")
	persistedFields(c, "R10.5 split-survives-restart", "RolloutController", nil)
	// "after rollout stop all requests go to the active targets": also when the stop was acknowledged while a redeploy of
	// the same service was waiting for its targets (known finding K8)
	rStaleInstall(c, "R10.6 split-in-force-is-the-last-acknowledged", "DeployService", "copy-made-before-the-health-wait-installed-after")
	// the split consulted is the one in force when the request is actually routed: the balancer is chosen after the pause
	// gate (shared with C03/C07) ...
	r073(c, "R10.7 balancer-chosen-after-the-gate")
	// ... and an acknowledged `rollout set` / `rollout stop` reaches the state file (no snapshot is skipped; shared with C12)
	r122(c, "R10.8 snapshots-serialised-and-unconditional")
}

// reachableStatic: module functions reachable from fn through static calls (and closures).
func (c *Ctx) reachableStatic(fn *ssa.Function) []*ssa.Function {
	seen := map[*ssa.Function]bool{}
	var out []*ssa.Function
	var walk func(f *ssa.Function)
	walk = func(f *ssa.Function) {
		if f == nil || seen[f] || f.Blocks == nil || !c.inModule(f) {
			return
		}
		seen[f] = true
		out = append(out, f)
		for _, cs := range callsInDeep(f) {
			if sc := cs.common().StaticCallee(); sc != nil {
				walk(sc)
			}
		}
	}
	walk(fn)
	return out
}

func r101(c *Ctx) {
	const rule = "R10.1 decision-is-pure-function-of-cookie-value"
	c.floor(rule, 4)
	root := c.method("RolloutController", "RequestUsesRolloutGroup")
	allowed := map[string]string{
		"(*net/http.Request).Cookie": "the request's cookie",
		"slices.Contains":            "allowlist membership",
		"hash/fnv.New32a":            "hash constructor",
		"(hash.Hash32).Sum32":        "hash",
		"(io.Writer).Write":          "hash input",
		"(hash.Hash32).Write":        "hash input",
		"(hash.Hash).Write":          "hash input",
	}
	for _, f := range c.reachableStatic(root) {
		c.touched(f.String())
		pure := true
		detail := ""
		for _, b := range f.Blocks {
			for _, in := range b.Instrs {
				switch x := in.(type) {
				case *ssa.Store:
					if _, isLocal := x.Addr.(*ssa.Alloc); !isLocal {
						if _, _, isField := fieldOfAddr(x.Addr); isField || isGlobalAddr(x.Addr) {
							pure = false
							detail = "stores to non-local state at " + c.pos(x.Pos())
						} else if ia, ok := x.Addr.(*ssa.IndexAddr); ok {
							if _, isLocalArr := ia.X.(*ssa.Alloc); !isLocalArr {
								pure = false
								detail = "stores through an index at " + c.pos(x.Pos())
							}
						}
					}
				case *ssa.MapUpdate, *ssa.Send, *ssa.Go:
					pure = false
					detail = fmt.Sprintf("%T at %s", in, c.pos(in.Pos()))
				case *ssa.UnOp:
					if x.Op == token.MUL {
						if g, ok := x.X.(*ssa.Global); ok {
							// reading a package-level variable would make the decision depend on global state (constants are not Globals)
							pure = false
							detail = "reads global " + g.Name()
						}
					}
				case ssa.CallInstruction:
					cc := x.Common()
					if sc := cc.StaticCallee(); sc != nil && c.inModule(sc) {
						continue
					}
					if _, isB := cc.Value.(*ssa.Builtin); isB {
						continue
					}
					n := calleeName(cc)
					if _, ok := allowed[n]; !ok {
						pure = false
						detail = "calls " + n + " (not in the allow-list of effect-free, input-only callees)"
					}
				}
			}
		}
		c.ob(rule, "effect-free: "+fname(f), f.Pos(), pure, true, detail)
	}
	// input and hash: read off RequestUsesRolloutGroup itself (its small helpers - splitValue, valueInAllowlist,
	// valueInRolloutPercentage, hashForValue in the reference tree - are always expanded into it, so that renaming,
	// merging or reshaping them changes nothing here)
	d := c.rolloutDecision()
	c.ob(rule, "decision/reads-the-kamal-rollout-cookie", root.Pos(), d.ck != nil, true, "the only input of the decision must be r.Cookie(\"kamal-rollout\") (exactly one such call, on the request)")
	if d.ck != nil {
		c.ob(rule, "decision/value-or-empty", root.Pos(), d.val != nil && d.okVal, true, "the value the decision is made on must be the cookie's Value, or \"\" when the cookie is absent: "+d.whyVal)
	}
	c.ob(rule, "decision/hash-of-the-value-only", root.Pos(), d.okHash, true, "the hash must be computed from the cookie value alone (one FNV-1a 32 hasher, one Write of the value, its Sum32): "+d.whyHash)
}

// rolloutDecision: the parts of RequestUsesRolloutGroup the rules talk about.
type rolloutDecisionModel struct {
	root    *ssa.Function
	ck      *ssa.Call // r.Cookie("kamal-rollout")
	val     ssa.Value // the value compared with ""
	okVal   bool
	whyVal  string
	hasher  *ssa.Call
	write   ssa.CallInstruction
	sum     *ssa.Call
	okHash  bool
	whyHash string
	paths         []pathInfo
	pathsComplete bool
}

// isCookieValue: v loads the Value field of the cookie the decision looked up.
func (d *rolloutDecisionModel) isCookieValue(v ssa.Value) bool {
	f, base, ok := fieldLoad(v)
	return ok && d.ck != nil && f.Name() == "Value" && base == resultOf(d.ck, 0)
}

// valueOn: what the decision's value is on path p (false when the path ends before the value exists).
func (d *rolloutDecisionModel) valueOn(p pathInfo) (ssa.Value, bool) {
	hv := resolve(p.pathValue(d.val))
	if phi, still := hv.(*ssa.Phi); still {
		_ = phi
		return nil, false
	}
	if in, ok := hv.(ssa.Instruction); ok && in.Block() != nil {
		on := false
		for _, b := range p.blocks {
			if b == in.Block() {
				on = true
			}
		}
		if !on {
			return nil, false
		}
	}
	if def, ok := d.val.(ssa.Instruction); ok && def.Block() != nil {
		on := false
		for _, b := range p.blocks {
			if b == def.Block() {
				on = true
			}
		}
		if !on {
			return nil, false
		}
	}
	return hv, true
}

// emptinessOn: what path p knows about the value being empty.
func (d *rolloutDecisionModel) emptinessOn(p pathInfo) (empty, nonEmpty bool) {
	hv, defined := d.valueOn(p)
	if defined {
		if sv, ok := constString(hv); ok && sv == "" {
			return true, false
		}
	}
	for _, ce := range p.conds {
		cm, isCmp := ce.asCmp()
		if !isCmp || (cm.op != token.EQL && cm.op != token.NEQ) {
			continue
		}
		for _, pr := range [][2]ssa.Value{{cm.x, cm.y}, {cm.y, cm.x}} {
			e, isE := constString(pr[1])
			if !isE || e != "" {
				continue
			}
			x := resolve(pr[0])
			same := x == d.val || (defined && (x == hv || (d.isCookieValue(x) && d.isCookieValue(hv))))
			if same {
				if cm.op == token.EQL {
					empty = true
				} else {
					nonEmpty = true
				}
			}
		}
	}
	return empty, nonEmpty
}

// nonEmptyAt: every way of reaching block b knows the value to be non-empty.
func (d *rolloutDecisionModel) nonEmptyAt(b *ssa.BasicBlock) bool {
	n := 0
	for _, p := range d.paths {
		through := false
		var upTo pathInfo
		for i, pb := range p.blocks {
			if pb == b {
				through = true
				upTo = pathInfo{blocks: p.blocks[:i+1]}
				break
			}
		}
		if !through {
			continue
		}
		// only what was decided before b counts
		for _, ce := range p.conds {
			if ce.ifIn != nil {
				for _, pb := range upTo.blocks[:len(upTo.blocks)-1] {
					if pb == ce.ifIn.Block() {
						upTo.conds = append(upTo.conds, ce)
					}
				}
			}
		}
		n++
		if _, ne := d.emptinessOn(upTo); !ne {
			if os.Getenv("KP_DBG") != "" {
				hv, def := d.valueOn(upTo)
				fmt.Fprintf(os.Stderr, "DBG nonEmptyAt b=%d blocks=%d conds=%d hv=%v def=%v val=%v\n", b.Index, len(upTo.blocks), len(upTo.conds), hv, def, d.val)
				for _, ce := range upTo.conds {
					fmt.Fprintf(os.Stderr, "   cond %v taken=%v\n", ce.cond, ce.taken)
				}
			}
			return false
		}
	}
	return n > 0
}

func (c *Ctx) rolloutDecision() *rolloutDecisionModel {
	root := c.method("RolloutController", "RequestUsesRolloutGroup")
	d := &rolloutDecisionModel{root: root}
	cookieName := c.constant(c.server, "RolloutCookieName")
	nck := 0
	for _, cs := range callsToName(root, "(*net/http.Request).Cookie") {
		nck++
		if call, ok := cs.instr.(*ssa.Call); ok && call.Call.Args[0] == ssa.Value(root.Params[1]) {
			if s, ok := constString(call.Call.Args[1]); ok && s == constant.StringVal(cookieName.Value.Value) && s == "kamal-rollout" {
				d.ck = call
			}
		}
	}
	if nck != 1 {
		d.ck = nil
	}
	// the value: what is hashed (when there is exactly one hasher with one Write); else what is compared with ""
	var hashed ssa.Value
	{
		var hs []*ssa.Call
		for _, cs := range callsToName(root, "hash/fnv.New32a") {
			if call, ok := cs.instr.(*ssa.Call); ok {
				hs = append(hs, call)
			}
		}
		if len(hs) == 1 {
			for _, cs := range callsIn(root) {
				cc := cs.common()
				if cc.IsInvoke() && cc.Value == ssa.Value(hs[0]) && cc.Method.Name() == "Write" {
					if cv, ok := cc.Args[0].(*ssa.Convert); ok {
						hashed = resolve(cv.X)
					}
				}
			}
		}
	}
	vals := map[ssa.Value]bool{}
	for _, b := range root.Blocks {
		for _, in := range b.Instrs {
			bo, ok := in.(*ssa.BinOp)
			if !ok || (bo.Op != token.EQL && bo.Op != token.NEQ) {
				continue
			}
			for _, pr := range [][2]ssa.Value{{bo.X, bo.Y}, {bo.Y, bo.X}} {
				if s, ok := constString(pr[1]); ok && s == "" {
					if _, isC := pr[0].(*ssa.Const); !isC {
						vals[resolve(pr[0])] = true
					}
				}
			}
		}
	}
	switch {
	case hashed != nil:
		d.val = hashed
	case len(vals) == 1:
		for v := range vals {
			d.val = v
		}
	default:
		d.whyVal = fmt.Sprintf("%d different values are compared with \"\"", len(vals))
	}
	d.paths, d.pathsComplete = enumPathsX(root, func(*ssa.Return) bool { return true }, 4096)
	if d.val != nil && d.ck != nil && d.pathsComplete {
		// way by way through the function: where the value is defined it is cookie.Value (lookup succeeded) or "" (lookup
		// failed, or the cookie's value is itself empty)
		nV, nE, bad := 0, 0, 0
		for _, p := range d.paths {
			hv, defined := d.valueOn(p)
			if !defined {
				continue
			}
			isNil, nonNil := nilKnowledgeOf(p.conds, sameAs(errResultOf(d.ck)))
			if d.isCookieValue(hv) && isNil {
				nV++
				continue
			}
			if sv, ok := constString(hv); ok && sv == "" {
				emptyCookie := false
				for _, ce := range p.conds {
					if cm, isCmp := ce.asCmp(); isCmp && cm.op == token.EQL {
						for _, pr := range [][2]ssa.Value{{cm.x, cm.y}, {cm.y, cm.x}} {
							if e, isE := constString(pr[1]); isE && e == "" && d.isCookieValue(resolve(pr[0])) {
								emptyCookie = true
							}
						}
					}
				}
				if nonNil || (isNil && emptyCookie) {
					nE++
					continue
				}
			}
			bad++
		}
		d.okVal = nV >= 1 && nE >= 1 && bad == 0
		d.whyVal = fmt.Sprintf("cookie.Value on success: %d way(s), \"\" on error / empty cookie: %d way(s), anything else: %d", nV, nE, bad)
	}
	// the hash
	var hashers []*ssa.Call
	for _, cs := range callsToName(root, "hash/fnv.New32a") {
		if call, ok := cs.instr.(*ssa.Call); ok {
			hashers = append(hashers, call)
		}
	}
	if len(hashers) == 1 {
		d.hasher = hashers[0]
		nW, nS := 0, 0
		okW := false
		for _, cs := range callsIn(root) {
			cc := cs.common()
			if !cc.IsInvoke() || cc.Value != ssa.Value(d.hasher) {
				continue
			}
			switch cc.Method.Name() {
			case "Write":
				nW++
				d.write = cs.instr.(ssa.CallInstruction)
				if cv, ok := cc.Args[0].(*ssa.Convert); ok && d.val != nil && resolve(cv.X) == d.val {
					okW = true
				}
			case "Sum32":
				nS++
				d.sum, _ = cs.instr.(*ssa.Call)
			default:
				nW += 2 // anything else done to the hasher (Reset, Sum, ...)
			}
		}
		// the hasher is used for nothing else
		if refs := d.hasher.Referrers(); refs != nil {
			for _, r := range *refs {
				if _, isCall := r.(ssa.CallInstruction); !isCall {
					if _, isDbg := r.(*ssa.DebugRef); !isDbg {
						nW += 2
					}
				}
			}
		}
		d.okHash = nW == 1 && nS == 1 && okW && d.sum != nil && typeString(d.sum.Type()) == "uint32"
		d.whyHash = fmt.Sprintf("writes to the hasher: %d (of the cookie value: %v), Sum32: %d", nW, okW, nS)
	} else {
		d.whyHash = fmt.Sprintf("%d fnv.New32a calls", len(hashers))
	}
	return d
}

// isHashCompare: v is float64(hash) <= rc.PercentageSplitPoint (or the mirrored >=) for the decision's hash.
func (d *rolloutDecisionModel) isHashCompare(c *Ctx, v ssa.Value) bool {
	bo, ok := v.(*ssa.BinOp)
	if !ok || (bo.Op != token.LEQ && bo.Op != token.GEQ) || d.sum == nil {
		return false
	}
	h, sp := bo.X, bo.Y
	if bo.Op == token.GEQ {
		h, sp = bo.Y, bo.X
	}
	cv, ok := h.(*ssa.Convert)
	if !ok || resolve(cv.X) != ssa.Value(d.sum) {
		return false
	}
	f, base, ok := fieldLoad(sp)
	return ok && f == c.field("RolloutController", "PercentageSplitPoint") && base == ssa.Value(d.root.Params[0])
}

// memberVerdict: v is true exactly when the cookie value is an element of rc.Allowlist: slices.Contains(rc.Allowlist, value),
// or the merge a membership loop leaves behind (true under element == value for an element ranging over the whole list, false
// only once the loop has ended).
func (d *rolloutDecisionModel) memberVerdict(c *Ctx, v ssa.Value) bool {
	allowF := c.field("RolloutController", "Allowlist")
	v = resolve(v)
	if call, ok := v.(*ssa.Call); ok {
		if o := calleeObj(call.Common()); o != nil && o.Pkg() != nil && o.Pkg().Path() == "slices" && o.Name() == "Contains" {
			f, base, ok := fieldLoad(call.Call.Args[0])
			return ok && f == allowF && base == ssa.Value(d.root.Params[0]) && d.val != nil && resolve(call.Call.Args[1]) == d.val
		}
		return false
	}
	phi, ok := v.(*ssa.Phi)
	if !ok {
		return false
	}
	nTrue := 0
	for _, vc := range valueCases(phi, phi.Block()) {
		b, isConst := constBool(vc.val)
		if !isConst {
			return false
		}
		if b {
			eq := false
			for _, ce := range vc.conds {
				cm, ok := ce.asCmp()
				if !ok || cm.op != token.EQL {
					continue
				}
				for _, pr := range [][2]ssa.Value{{cm.x, cm.y}, {cm.y, cm.x}} {
					if src, full := fullRangeElem(pr[0]); full && isLoadOfField(src, allowF) && resolve(pr[1]) == d.val {
						eq = true
					}
				}
			}
			if !eq {
				return false
			}
			nTrue++
			continue
		}
		// false: after the loop, under nothing but the non-empty-value guard
		for _, ce := range condsOtherThanLoop(vc.conds) {
			cm, ok := ce.asCmp()
			if ok && (resolve(cm.x) == d.val || resolve(cm.y) == d.val) {
				if s, isS := constString(cm.y); isS && s == "" {
					continue
				}
				if s, isS := constString(cm.x); isS && s == "" {
					continue
				}
			}
			return false
		}
	}
	return nTrue >= 1
}

func isGlobalAddr(v ssa.Value) bool { _, ok := v.(*ssa.Global); return ok }

// mono: monotonicity of an SSA float/int expression in one parameter: +1 non-decreasing, -1 non-increasing, 0 constant, 2 unknown.
func mono(v ssa.Value, p *ssa.Parameter) int {
	switch x := v.(type) {
	case *ssa.Const:
		return 0
	case *ssa.Parameter:
		if x == p {
			return 1
		}
		return 0
	case *ssa.Convert:
		return mono(x.X, p)
	case *ssa.ChangeType:
		return mono(x.X, p)
	case *ssa.BinOp:
		a, b := mono(x.X, p), mono(x.Y, p)
		sign := func(v ssa.Value) int { // sign of a constant operand
			k, ok := v.(*ssa.Const)
			if !ok || k.Value == nil {
				return 2
			}
			f, _ := constant.Float64Val(constant.ToFloat(k.Value))
			switch {
			case f > 0:
				return 1
			case f < 0:
				return -1
			}
			return 0
		}
		switch x.Op {
		case token.ADD:
			if a == 2 || b == 2 {
				return 2
			}
			if a == 0 {
				return b
			}
			if b == 0 || a == b {
				return a
			}
			return 2
		case token.SUB:
			if b == 0 {
				return a
			}
			if a == 0 && b != 2 {
				return -b
			}
			return 2
		case token.MUL:
			if a == 0 && b == 0 {
				return 0
			}
			if b != 0 && b != 2 && a == 0 {
				if s := sign(x.X); s == 1 {
					return b
				} else if s == -1 {
					return -b
				} else if s == 0 {
					return 0
				}
			}
			if a != 0 && a != 2 && b == 0 {
				if s := sign(x.Y); s == 1 {
					return a
				} else if s == -1 {
					return -a
				} else if s == 0 {
					return 0
				}
			}
			return 2
		case token.QUO:
			if b == 0 && a != 2 {
				if s := sign(x.Y); s == 1 {
					return a
				} else if s == -1 {
					return -a
				}
			}
			return 2
		}
	}
	return 2
}

// foldAt evaluates a pure arithmetic SSA expression with parameter p bound to the constant val (go/constant folding).
func foldAt(v ssa.Value, p *ssa.Parameter, val constant.Value) (constant.Value, bool) {
	switch x := v.(type) {
	case *ssa.Const:
		if x.Value == nil {
			return nil, false
		}
		return x.Value, true
	case *ssa.Parameter:
		if x == p {
			return val, true
		}
	case *ssa.Convert:
		in, ok := foldAt(x.X, p, val)
		if !ok {
			return nil, false
		}
		if b, ok := x.Type().Underlying().(*types.Basic); ok && b.Info()&types.IsFloat != 0 {
			return constant.ToFloat(in), true
		}
		return in, true
	case *ssa.BinOp:
		a, ok1 := foldAt(x.X, p, val)
		b, ok2 := foldAt(x.Y, p, val)
		if !ok1 || !ok2 {
			return nil, false
		}
		switch x.Op {
		case token.ADD, token.SUB, token.MUL:
			return constant.BinaryOp(constant.ToFloat(a), x.Op, constant.ToFloat(b)), true
		case token.QUO:
			return constant.BinaryOp(constant.ToFloat(a), token.QUO, constant.ToFloat(b)), true
		}
	}
	return nil, false
}

func r102(c *Ctx) {
	const rule = "R10.2 monotone-in-percentage-and-total-at-100"
	c.floor(rule, 4)
	d := c.rolloutDecision()
	spF := c.field("RolloutController", "PercentageSplitPoint")
	// every way of answering that is not a constant is the comparison float64(hash(value)) <= rc.PercentageSplitPoint
	nCmp, okCmp := 0, true
	for _, rc := range retCases(d.root) {
		if _, isConst := constBool(rc.vals[0]); isConst {
			continue
		}
		nCmp++
		if !d.isHashCompare(c, rc.vals[0]) {
			okCmp = false
		}
	}
	c.ob(rule, "decision/hash(value) <= splitPoint", d.root.Pos(), okCmp && nCmp >= 1, true, "inclusion must be the comparison float64(hash(value)) <= rc.PercentageSplitPoint (a value included at one split point stays included at every larger one)")
	// the split point stored by the constructor is non-decreasing in `percentage` and >= MaxUint32 at 100
	nrc := c.fn("NewRolloutController")
	var spVal ssa.Value
	nW := 0
	for _, w := range c.writesOfField(spF) {
		nW++
		if w.fn == nrc {
			spVal = w.val
		} else {
			c.ob(rule, "write RolloutController.PercentageSplitPoint <- "+fname(outer(w.fn)), w.instr.Pos(), false, false, "only the constructor computes the split point")
		}
	}
	if !c.ob(rule, "NewRolloutController/computes-split-point", nrc.Pos(), spVal != nil, true, "") {
		return
	}
	p := nrc.Params[0]
	m := mono(spVal, p)
	c.ob(rule, "NewRolloutController/split-point-non-decreasing-in-percentage", nrc.Pos(), m == 1, true, fmt.Sprintf("monotonicity of the split-point expression in 'percentage' (+1 non-decreasing, 0 constant, -1 non-increasing, 2 unknown): %d", m))
	at100, ok := foldAt(spVal, p, constant.MakeInt64(100))
	f100 := math.NaN()
	if ok {
		f100, _ = constant.Float64Val(at100)
	}
	c.ob(rule, "NewRolloutController/percentage=100-includes-every-hash", nrc.Pos(), ok && f100 >= float64(math.MaxUint32), true, fmt.Sprintf("split point folded at percentage=100: %v; must be >= %d (maximum of the uint32 hash)", f100, uint32(math.MaxUint32)))
	at0, ok0 := foldAt(spVal, p, constant.MakeInt64(0))
	f0 := math.NaN()
	if ok0 {
		f0, _ = constant.Float64Val(at0)
	}
	c.ob(rule, "NewRolloutController/percentage=0-includes-(almost)-nothing", nrc.Pos(), ok0 && f0 >= 0 && f0 < 1, true, fmt.Sprintf("split point folded at percentage=0: %v", f0))
	// Percentage and Allowlist stored from the parameters
	c.paramsToFields(rule, nrc, "RolloutController", map[string]string{"Percentage": "percentage", "Allowlist": "allowlist"})
}

func r103(c *Ctx) {
	const rule = "R10.3 confinement"
	c.floor(rule, 5)
	lbf := c.method("Service", "loadBalancerForRequest")
	activeF, rolloutF, rcF := c.field("Service", "active"), c.field("Service", "rollout"), c.field("Service", "rolloutController")
	uses := c.method("RolloutController", "RequestUsesRolloutGroup")
	licensed := func(b *ssa.BasicBlock) bool {
		var r, k, u bool
		for _, ce := range dominatingCondsFrom(b) {
			if cm, ok := ce.asCmp(); ok && cm.op == token.NEQ {
				for _, pr := range [][2]ssa.Value{{cm.x, cm.y}, {cm.y, cm.x}} {
					if isNilConst(pr[1]) && isLoadOfField(pr[0], rolloutF) {
						r = true
					}
					if isNilConst(pr[1]) && isLoadOfField(pr[0], rcF) {
						k = true
					}
				}
			}
			if call, ok := ce.cond.(*ssa.Call); ok && ce.taken && isCallTo(call.Common(), uses) && isLoadOfField(call.Call.Args[0], rcF) && call.Call.Args[1] == ssa.Value(lbf.Params[1]) {
				u = true
			}
		}
		return r && k && u
	}
	nRollout, nActive := 0, 0
	for _, ret := range normalReturns(lbf) {
		v := retVal(ret, 0)
		type src struct {
			v ssa.Value
			b *ssa.BasicBlock
		}
		var srcs []src
		if phi, ok := v.(*ssa.Phi); ok {
			for i, e := range phi.Edges {
				srcs = append(srcs, src{e, phi.Block().Preds[i]})
			}
		} else {
			srcs = []src{{v, ret.Block()}}
		}
		for _, s := range srcs {
			switch {
			case isLoadOfField(s.v, rolloutF):
				nRollout++
				c.ob(rule, "loadBalancerForRequest/rollout-only-when-opted-in", ret.Pos(), licensed(s.b), true, "the rollout balancer may be chosen only under s.rollout!=nil && s.rolloutController!=nil && rolloutController.RequestUsesRolloutGroup(req)")
			case isLoadOfField(s.v, activeF):
				nActive++
			default:
				c.ob(rule, "loadBalancerForRequest/unknown-result", ret.Pos(), false, true, "the result must be s.active or s.rollout")
			}
		}
	}
	c.ob(rule, "loadBalancerForRequest/falls-back-to-active", lbf.Pos(), nActive >= 1 && nRollout >= 1, true, "")
	// RequestUsesRolloutGroup: empty value => false before allowlist/hash; true only via allowlist or percentage
	d := c.rolloutDecision()
	if d.val == nil {
		c.undecided(rule, "RequestUsesRolloutGroup/shape", uses.Pos(), "no single value is tested against the empty string: "+d.whyVal)
		return
	}
	nonEmptyAt := d.nonEmptyAt
	// what consults the allowlist or the hash does so for a non-empty cookie value only
	allowF := c.field("RolloutController", "Allowlist")
	nMember := 0
	for _, b := range uses.Blocks {
		for _, in := range b.Instrs {
			switch x := in.(type) {
			case *ssa.Call:
				if o := calleeObj(x.Common()); o != nil && o.Pkg() != nil && o.Pkg().Path() == "slices" && o.Name() == "Contains" {
					nMember++
					c.ob(rule, "RequestUsesRolloutGroup/allowlist-only-with-a-cookie-value", x.Pos(), nonEmptyAt(b) && d.memberVerdict(c, x), true, "the allowlist may be consulted only for a non-empty cookie value, and on that value")
				}
			case *ssa.UnOp:
				if x.Op == token.MUL && isLoadOfField(x, allowF) {
					if _, isContainsArg := usedOnlyByContains(x); !isContainsArg {
						nMember++
						c.ob(rule, "RequestUsesRolloutGroup/allowlist-only-with-a-cookie-value", x.Pos(), nonEmptyAt(b), true, "the allowlist may be consulted only for a non-empty cookie value")
					}
				}
			}
		}
	}
	if d.write != nil {
		c.ob(rule, "RequestUsesRolloutGroup/percentage-only-with-a-cookie-value", d.write.Pos(), nonEmptyAt(d.write.Block()), true, "the percentage test may be made only for a non-empty cookie value")
	}
	okMember := false
	for _, rc := range retCases(uses) {
		v := rc.vals[0]
		ok := false
		why := ""
		if b, isC := constBool(v); isC {
			if !b {
				// false: only for the empty value - on every way of getting to this answer
				nF := 0
				ok = true
				for _, p := range d.paths {
					if p.ret != rc.ret {
						continue
					}
					if k, isK := constBool(p.pathValue(retVal(p.ret, 0))); !isK || k {
						continue
					}
					nF++
					if empty, _ := d.emptinessOn(p); !empty {
						ok = false
					}
				}
				ok = ok && nF >= 1
				why = "a constant false answer is for the empty cookie value only"
			} else {
				// true: a membership verdict known true, or element == value inside a complete scan of the list
				for _, ce := range rc.conds {
					if ce.taken && d.memberVerdict(c, ce.cond) {
						ok, okMember = true, true
					}
					if cm, isCmp := ce.asCmp(); isCmp && cm.op == token.EQL {
						for _, pr := range [][2]ssa.Value{{cm.x, cm.y}, {cm.y, cm.x}} {
							if src, full := fullRangeElem(pr[0]); full && isLoadOfField(src, allowF) && resolve(pr[1]) == d.val {
								ok, okMember = true, true
							}
						}
					}
				}
				why = "a constant true answer needs the value to be on the allowlist"
			}
		} else if d.isHashCompare(c, v) {
			ok = true
		} else if d.memberVerdict(c, v) {
			ok, okMember = true, true // `return member` (nothing else to consult)
		} else {
			why = "neither a constant, nor the allowlist verdict, nor the percentage comparison"
		}
		c.ob(rule, "RequestUsesRolloutGroup/result-provenance", rc.pos, ok, true, "the decision may be true only via the allowlist or the percentage test: "+why)
	}
	c.ob(rule, "RequestUsesRolloutGroup/exact-allowlist-membership", uses.Pos(), okMember && nMember >= 1, true, "a value on the allowlist is always in the rollout group: the allowlist verdict must be exact membership of the cookie value in rc.Allowlist")
	// StopRollout clears the controller
	sr := c.method("Service", "StopRollout")
	okStop := false
	for _, w := range c.writesOfField(rcF) {
		if w.fn == sr && isNilConst(w.val) {
			_, skip := reach(sr, nil, isReturn, func(in ssa.Instruction) bool { return in == w.instr })
			okStop = !skip
		}
	}
	c.ob(rule, "StopRollout/clears-split", sr.Pos(), okStop, true, "rollout stop must set rolloutController to nil on every path")
}

// dominatingCondsFrom: conditions known at the END of block b (including b's own position in the idom chain).
func dominatingCondsFrom(b *ssa.BasicBlock) []condEdge {
	out := dominatingConds(b)
	return out
}

func r104(c *Ctx, rule string) {
	c.floor(rule, 3)
	srs := c.method("Service", "SetRolloutSplit")
	rolloutF, rcF := c.field("Service", "rollout"), c.field("Service", "rolloutController")
	n := 0
	for _, w := range c.writesOfField(rcF) {
		if outer(w.fn) != srs {
			continue
		}
		n++
		_, nn := nilKnowledge(w.instr, matchFieldLoad(rolloutF))
		c.ob(rule, "SetRolloutSplit/store-requires-rollout-targets", w.instr.Pos(), nn, true, "the split may be stored only on the s.rollout != nil branch")
	}
	c.ob(rule, "SetRolloutSplit/stores-split", srs.Pos(), n >= 1, false, "")
	// optional-slot symmetry: MarshalJSON writes rollout targets only when the slot is set; UnmarshalJSON must create the slot only from a non-empty list
	um := c.method("Service", "UnmarshalJSON")
	rtF := c.field("marshalledService", "RolloutTargets")
	nr := 0
	for _, w := range c.writesOfField(rolloutF) {
		if w.fn != um {
			continue
		}
		nr++
		lo, _, neq := interval(intFacts(w.instr, func(v ssa.Value) bool {
			call, ok := v.(*ssa.Call)
			if !ok {
				return false
			}
			b, ok := call.Call.Value.(*ssa.Builtin)
			return ok && b.Name() == "len" && isLoadOfField(call.Call.Args[0], rtF)
		}))
		nonEmpty := lo >= 1
		for _, k := range neq {
			if k == 0 {
				nonEmpty = true
			}
		}
		c.ob(rule, "UnmarshalJSON/rollout-slot-only-from-saved-rollout-targets", w.instr.Pos(), nonEmpty, true, "nil-ness of Service.rollout carries meaning ('rollout targets exist'): restore must set it only when the saved rollout target list is non-empty, else `rollout set` is accepted without targets after a restart")
	}
	c.ob(rule, "UnmarshalJSON/restores-rollout-slot", um.Pos(), nr >= 1, false, "")
	mj := c.method("Service", "MarshalJSON")
	okM := false
	for _, cs := range callsTo(mj, c.method("LoadBalancer", "Targets")) {
		if isLoadOfField(cs.common().Args[0], rolloutF) {
			if _, nn := nilKnowledge(cs.instr, matchFieldLoad(rolloutF)); nn {
				// ... and under nothing else: whenever the slot is set its targets are saved (with or without a split)
				extra := 0
				for _, ce := range dominatingConds(cs.instr.Block()) {
					if cm, isCmp := ce.asCmp(); isCmp && ((isLoadOfField(cm.x, rolloutF) && isNilConst(cm.y)) || (isLoadOfField(cm.y, rolloutF) && isNilConst(cm.x))) {
						continue
					}
					if _, isPhi := ce.cond.(*ssa.Phi); isPhi {
						continue
					}
					extra++
				}
				okM = extra == 0
			}
		}
	}
	c.ob(rule, "MarshalJSON/rollout-targets-exactly-when-slot-set", mj.Pos(), okM, true, "the rollout targets are saved whenever (and only when) the rollout slot is set: deployed rollout targets are in force before a split is set and after it is stopped")
}

// persistedFields: every field of a JSON-persisted struct is exported and has a json tag other than "-",
// except the listed transient fields (each with a reason).
func persistedFields(c *Ctx, rule, typ string, transient map[string]string) {
	nt := c.named(typ)
	st := nt.Underlying().(*types.Struct)
	c.floor(rule, st.NumFields())
	// encoding/json silently drops every field whose name is claimed twice at the same depth
	jsonNames := map[string]int{}
	for i := 0; i < st.NumFields(); i++ {
		if name := strings.Split(reflect.StructTag(st.Tag(i)).Get("json"), ",")[0]; name != "" && name != "-" {
			jsonNames[name]++
		}
	}
	for i := 0; i < st.NumFields(); i++ {
		f := st.Field(i)
		if n := jsonNames[strings.Split(reflect.StructTag(st.Tag(i)).Get("json"), ",")[0]]; n > 1 {
			c.ob(rule, typ+"."+f.Name()+"/json-name-unique", f.Pos(), false, true, "two fields of "+typ+" carry the same json name: encoding/json then saves and restores neither of them")
		}
		oldName := f.Name()
		if o, ok := renamedFieldsOf(nt.Obj().Pkg().Path(), typ, st)[f.Name()]; ok {
			oldName = o // the reference tree's field under a new name
		}
		if reason, ok := transient[oldName]; ok {
			c.ob(rule, typ+"."+oldName+"/transient", f.Pos(), true, false, "not persisted by design: "+reason)
			continue
		}
		if !f.Exported() && c.unobservedNewField(typ, f) {
			c.ob(rule, typ+"."+f.Name()+"/new-and-unobserved", f.Pos(), true, false, "a field that does not exist in the reference tree and is read only by new functions: nothing the existing code does depends on it surviving a restart")
			continue
		}
		tag := reflect.StructTag(st.Tag(i)).Get("json")
		name := strings.Split(tag, ",")[0]
		c.ob(rule, typ+"."+f.Name()+"/persisted", f.Pos(), f.Exported() && tag != "" && name != "-", true,
			fmt.Sprintf("encoding/json only saves exported fields; exported=%v json tag=%q", f.Exported(), tag))
	}
}

// usedOnlyByContains: the loaded slice is used as the first argument of slices.Contains and nothing else.
func usedOnlyByContains(v ssa.Value) (ssa.Instruction, bool) {
	refs := v.Referrers()
	if refs == nil {
		return nil, false
	}
	var site ssa.Instruction
	for _, r := range *refs {
		if _, isDbg := r.(*ssa.DebugRef); isDbg {
			continue
		}
		call, ok := r.(*ssa.Call)
		if !ok {
			return nil, false
		}
		o := calleeObj(call.Common())
		if o == nil || o.Pkg() == nil || o.Pkg().Path() != "slices" || o.Name() != "Contains" || call.Call.Args[0] != v {
			return nil, false
		}
		site = call
	}
	return site, site != nil
}

// rStaleInstall: a deploy command takes the service object it will install (the live one, or a copy carrying the live
// rollout slot and split) BEFORE the health wait and installs it AFTER it, without checking that the routing table still
// holds what it started from. A command acknowledged in between is undone by the install: `rollout stop` / `rollout set`
// during a redeploy (K8, the copy carries the old split), a redeploy during a rollout deploy (K9, the replaced - drained
// and disposed - service object is put back). Decided structurally: in deployTargetsIntoService a may-block wait lies
// between the function's entry (the object was obtained by the caller) and installService, and installService's locked
// section never compares the table's current entry with anything.
func rStaleInstall(c *Ctx, rule string, entry string, what string) {
	c.floor(rule, 1)
	dt := c.method("Router", "deployTargetsIntoService")
	inst := c.method("Router", "installService")
	wait := c.method("LoadBalancer", "WaitUntilHealthy")
	get := c.method("ServiceMap", "Get")
	ef := c.method("Router", entry)
	// the entry command obtains the object and hands it to the deploy routine
	hands := false
	for _, cs := range callsTo(ef, dt) {
		v := resolve(cs.common().Args[1])
		if call, ok := v.(*ssa.Call); ok && call.Parent() == ef {
			hands = true // a service looked up / copied in the entry function itself
		}
		if _, ok := v.(*ssa.Phi); ok {
			hands = true
		}
	}
	if !hands {
		c.undecided(rule, entry+"/hands-its-service-to-the-deploy-routine", ef.Pos(), "the service passed to deployTargetsIntoService is not obtained in "+entry+" (unrecognised form)")
		return
	}
	blocksBefore := false
	for _, ic := range callsTo(dt, inst) {
		for _, wc := range callsTo(dt, wait) {
			if dominates(wc.instr, ic.instr) {
				blocksBefore = true
			}
		}
	}
	revalidates := false
	for _, fn := range withAnon(inst) {
		for _, gc := range callsTo(fn, get) {
			gv, _ := gc.instr.(ssa.Value)
			if gv == nil || gv.Referrers() == nil {
				continue
			}
			for _, r := range *gv.Referrers() {
				if bo, ok := r.(*ssa.BinOp); ok && (bo.Op == token.EQL || bo.Op == token.NEQ) && !isNilConst(bo.X) && !isNilConst(bo.Y) {
					revalidates = true
				}
			}
		}
	}
	c.ob(rule, entry+"/"+what, ef.Pos(), !blocksBefore || revalidates, true,
		"the object installed was obtained before the health wait; a command acknowledged during the wait is undone when it is installed (installService does not check that the table still holds the object the deploy started from)")
}
