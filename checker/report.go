package main

import (
	"encoding/json"
	"fmt"
	"go/token"
	"os"
	"path/filepath"
	"sort"
	"strings"
	"time"
)

type Status string

const (
	OK        Status = "discharged"
	Violated  Status = "violated"
	Undecided Status = "undecided" // unrecognised form / unresolved anchor: fails, but is labelled differently
)

// Ob is one proof obligation: a rule applied to one resolved construct.
type Ob struct {
	Rule       string `json:"rule"`
	Key        string `json:"construct"` // rule-stable key, never a line number
	Pos        string `json:"at"`        // informational
	Status     Status `json:"status"`
	Detail     string `json:"detail,omitempty"`
	Nontrivial bool   `json:"nontrivial,omitempty"` // needed a path/dominance/lockset/typestate argument
	Known      string `json:"known_finding,omitempty"`
}

type Finding struct {
	Property  string `json:"property"`
	Rule      string `json:"rule"`
	Construct string `json:"construct"`
	What      string `json:"what"`
	Status    string `json:"status"` // "known" | "fixed"
	Commit    string `json:"commit,omitempty"`
}

// Ctx is handed to each property's rule set.
type Ctx struct {
	*World
	prop       string
	tier       string
	obs        []Ob
	floors     map[string]int // rule -> minimum number of obligations (vacuity guard)
	notes      []string
	notDecided []string
	funcsSeen  map[string]bool
	anchored   map[string]bool // functions the rules looked up by name (a subset of funcsSeen)
	explain    string
	assume     []string
}

type anchorError struct{ msg string }

func (c *Ctx) ob(rule, key string, pos token.Pos, ok bool, nontrivial bool, detail string) bool {
	st := OK
	if !ok {
		st = Violated
	}
	c.obs = append(c.obs, Ob{Rule: rule, Key: key, Pos: c.pos(pos), Status: st, Detail: detail, Nontrivial: nontrivial})
	return ok
}

func (c *Ctx) undecided(rule, key string, pos token.Pos, detail string) {
	c.obs = append(c.obs, Ob{Rule: rule, Key: key, Pos: c.pos(pos), Status: Undecided, Detail: detail, Nontrivial: true})
}

func (c *Ctx) floor(rule string, n int) { c.floors[rule] = n }
func (c *Ctx) note(format string, a ...any) {
	c.notes = append(c.notes, fmt.Sprintf(format, a...))
}
func (c *Ctx) touched(fn string) { c.funcsSeen[fn] = true }

func verifDir() string {
	if d := os.Getenv("VERIF_DIR"); d != "" {
		return d
	}
	return "/verif"
}

func loadFindings() ([]Finding, error) {
	b, err := os.ReadFile(filepath.Join(verifDir(), "known_findings.json"))
	if err != nil {
		return nil, err
	}
	var fs []Finding
	if err := json.Unmarshal(b, &fs); err != nil {
		return nil, err
	}
	return fs, nil
}

// finish applies floors and known findings, writes evidence and replay files,
// prints the verdict lines and returns the process exit code.
func (c *Ctx) finish(start time.Time, seed int64) int {
	// vacuity guard
	count := map[string]int{}
	for _, o := range c.obs {
		count[o.Rule]++
	}
	rules := make([]string, 0, len(c.floors))
	for r := range c.floors {
		rules = append(rules, r)
	}
	sort.Strings(rules)
	for _, r := range rules {
		if count[r] < c.floors[r] {
			c.obs = append(c.obs, Ob{Rule: r, Key: "vacuity-guard", Pos: "-", Status: Undecided, Nontrivial: false,
				Detail: fmt.Sprintf("rule produced %d obligations, fewer than the %d confirmed by hand on the reference tree: the rule no longer matches the code it was written for", count[r], c.floors[r])})
		}
	}

	findings, err := loadFindings()
	if err != nil {
		fmt.Printf("ERROR cannot read known_findings.json: %v\n", err)
		findings = nil
	}
	exit := 0
	var knownLines, violLines []string
	replayDir := filepath.Join(verifDir(), "replay", c.prop)
	os.RemoveAll(replayDir)
	nviol := 0
	discharged := 0
	keys := map[string]bool{}
	nontrivKeys := map[string]bool{}
	for i := range c.obs {
		o := &c.obs[i]
		k := o.Rule + "|" + o.Key
		keys[k] = true
		if o.Nontrivial {
			nontrivKeys[k] = true
		}
		if o.Status == OK {
			discharged++
			continue
		}
		matched := false
		if o.Status == Violated {
			for _, f := range findings {
				if f.Status == "known" && f.Property == c.prop && f.Rule == o.Rule && f.Construct == o.Key {
					matched = true
					o.Known = f.What
					knownLines = append(knownLines, fmt.Sprintf("KNOWN-FINDING: property=%s rule=%s construct=%s at=%s %s", c.prop, o.Rule, o.Key, o.Pos, f.What))
					break
				}
			}
		}
		if matched {
			continue
		}
		nviol++
		exit = 1
		os.MkdirAll(replayDir, 0o755)
		path := filepath.Join(replayDir, fmt.Sprintf("%03d_%s.json", nviol, sanitize(o.Rule+"_"+o.Key)))
		rb, _ := json.MarshalIndent(map[string]any{
			"property": c.prop, "kind": string(o.Status), "rule": o.Rule, "construct": o.Key, "at": o.Pos, "detail": o.Detail,
			"how_to_replay": fmt.Sprintf("cd /verif && ./run.sh %s quick   # re-analyses /repo's working tree; the obligation above is reported again while the construct is unchanged", c.prop),
		}, "", " ")
		os.WriteFile(path, rb, 0o644)
		fmt.Printf("%s: %s: rule %s on %s: %s\n", o.Pos, strings.ToUpper(string(o.Status)), o.Rule, o.Key, o.Detail)
		violLines = append(violLines, fmt.Sprintf("VIOLATION property=%s replay=%s", c.prop, path))
	}
	// A finding listed as known that no longer fires is reported (informational only).
	for _, f := range findings {
		if f.Status != "known" || f.Property != c.prop {
			continue
		}
		fired := false
		for _, o := range c.obs {
			if o.Rule == f.Rule && o.Key == f.Construct && o.Status == Violated {
				fired = true
			}
		}
		if !fired {
			c.note("known finding %s/%s no longer fires on this tree (entry can be turned into 'fixed')", f.Rule, f.Construct)
		}
	}

	// evidence
	samples := []Ob{}
	perRule := map[string]int{}
	for _, o := range c.obs {
		if perRule[o.Rule] < 3 || o.Status != OK {
			samples = append(samples, o)
			perRule[o.Rule]++
		}
	}
	fnames := make([]string, 0, len(c.funcsSeen))
	for f := range c.funcsSeen {
		fnames = append(fnames, f)
	}
	sort.Strings(fnames)
	ruleCounts := map[string]int{}
	for _, o := range c.obs {
		ruleCounts[o.Rule]++
	}
	ev := map[string]any{
		"property_id": c.prop,
		"tier":        c.tier,
		"seed":        seed,
		"level":       "other",
		"coverage": map[string]any{
			"explanation":          c.explain,
			"obligations":          len(c.obs),
			"discharged":           discharged,
			"evaluations":          len(c.obs),
			"distinct_nontrivial":  len(nontrivKeys),
			"rule":                 "one obligation = one rule applied to one resolved construct (function / field / call site / path) of /repo's current working tree; distinct = distinct (rule, construct) keys; non-trivial = discharging it needed a dominance, path, lockset, typestate, provenance or table-agreement argument rather than mere existence",
			"samples":              samples,
			"exhaustive":           true,
			"obligations_per_rule": ruleCounts,
			"functions_analysed":   fnames,
			"module_functions":     len(c.modFuncs),
			"root_packages":        c.rootPackageCount(),
			"known_findings":       knownLines,
			"not_decided":          c.notDecided,
			"notes":                c.notes,
			"checker_cmd":          fmt.Sprintf("./run.sh %s %s", c.prop, c.tier),
			"vta_call_graph_used":  c.thorough,
			"vta_only_callers":     c.vtaExtra,
		},
		"assumptions": append([]string{
			"Go 1.24.2 type checker and golang.org/x/tools v0.29.0 go/ssa build a faithful IR of /repo's working tree",
			"standard library, cobra, autocert, html/template behave as documented (loaded and type-checked, internals not analysed)",
			"hand-confirmed allow/exemption tables printed in the obligations are right",
		}, c.assume...),
		"wall_s":     time.Since(start).Seconds(),
		"violations": nviol,
	}
	eb, _ := json.MarshalIndent(ev, "", " ")
	evDir := filepath.Join(verifDir(), "evidence")
	os.MkdirAll(evDir, 0o755)
	if err := os.WriteFile(filepath.Join(evDir, c.prop+".json"), append(eb, '\n'), 0o644); err != nil {
		fmt.Printf("ERROR writing evidence: %v\n", err)
		exit = 1
	}

	sort.Strings(knownLines)
	for _, l := range knownLines {
		fmt.Println(l)
	}
	fmt.Printf("%s %s: %d obligations over %d rules, %d discharged, %d known findings, %d violations (%.1fs)\n",
		c.prop, c.tier, len(c.obs), len(ruleCounts), discharged, len(knownLines), nviol, time.Since(start).Seconds())
	for _, l := range violLines {
		fmt.Println(l)
	}
	return exit
}

func sanitize(s string) string {
	var b strings.Builder
	for _, r := range s {
		switch {
		case r >= 'a' && r <= 'z', r >= 'A' && r <= 'Z', r >= '0' && r <= '9', r == '.', r == '-', r == '_':
			b.WriteRune(r)
		default:
			b.WriteRune('_')
		}
	}
	out := b.String()
	if len(out) > 120 {
		out = out[:120]
	}
	return out
}
