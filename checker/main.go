// kpverify: repository-specific static analyzer deciding structural
// necessary conditions of properties C01..C20 of basecamp/kamal-proxy.
package main

import (
	"flag"
	"fmt"
	"os"
	"runtime/debug"
	"sort"
	"strconv"
	"time"
)

type propCheck struct {
	explain    string
	notDecided []string
	run        func(c *Ctx)
}

var registry = map[string]*propCheck{}

var writeBaselineFlag = flag.String("write-baseline", "", "write the list of functions of the analysed tree to this file (maintenance)")

func register(id string, p *propCheck) { registry[id] = p }

func main() {
	repo := flag.String("repo", "/repo", "repository working tree to analyse")
	prop := flag.String("property", "", "property id (C01..C20) or 'all'")
	tier := flag.String("tier", "quick", "quick|thorough")
	dump := flag.String("dump", "", "dump SSA of a function (debug)")
	dumpLocks := flag.Bool("locks", false, "print entry locksets (debug)")
	flag.Parse()

	start := time.Now()
	seed, _ := strconv.ParseInt(os.Getenv("VERIF_SEED"), 10, 64)

	w, err := loadWorld(*repo)
	if err != nil {
		fmt.Printf("ERROR loading %s: %v\n", *repo, err)
		if *prop != "" && *prop != "all" {
			fmt.Printf("VIOLATION property=%s replay=%s\n", *prop, writeLoadFailure(*prop, err))
		}
		os.Exit(1)
	}
	w.thorough = *tier == "thorough"
	if *dump != "" {
		dumpFunc(w, *dump)
		return
	}
	if *dumpLocks {
		li := w.lockInfo()
		for _, f := range w.modFuncs {
			fmt.Printf("%-70s entry=%s edges=%d\n", fname(f), li.entryOf(f), len(li.edges[f]))
		}
		return
	}

	ids := []string{*prop}
	if *prop == "all" {
		ids = ids[:0]
		for id := range registry {
			ids = append(ids, id)
		}
		sort.Strings(ids)
	}
	exit := 0
	for _, id := range ids {
		p, ok := registry[id]
		if !ok {
			fmt.Printf("ERROR unknown property %q\n", id)
			os.Exit(2)
		}
		t0 := time.Now()
		if *prop != "all" {
			t0 = start
		}
		c := &Ctx{World: w, prop: id, tier: *tier, floors: map[string]int{}, funcsSeen: map[string]bool{},
			explain: p.explain, notDecided: p.notDecided, notes: append([]string{}, w.loadNotes...)}
		runGuarded(c, p)
		if c.finish(t0, seed) != 0 {
			exit = 1
		}
	}
	os.Exit(exit)
}

// runGuarded converts unresolved anchors and analyzer panics into failing,
// labelled obligations (never a silent pass).
func runGuarded(c *Ctx, p *propCheck) {
	defer func() {
		if r := recover(); r != nil {
			if ae, ok := r.(anchorError); ok {
				c.obs = append(c.obs, Ob{Rule: "anchor", Key: ae.msg, Pos: "-", Status: Undecided, Detail: ae.msg + " (a renamed or removed construct the rules are keyed to; the remaining rules of this property were not evaluated)"})
				return
			}
			c.obs = append(c.obs, Ob{Rule: "analyzer-panic", Key: fmt.Sprint(r), Pos: "-", Status: Undecided, Detail: string(debug.Stack())})
		}
	}()
	p.run(c)
	if _, ok := newStateOwners[c.prop]; ok {
		c.newStateRule("R00 no-new-state-read-by-existing-code")
	}
}

func writeLoadFailure(prop string, err error) string {
	dir := verifDir() + "/replay/" + prop
	os.MkdirAll(dir, 0o755)
	path := dir + "/000_load_failure.json"
	os.WriteFile(path, []byte(fmt.Sprintf("{\"property\":%q,\"kind\":\"load-failure\",\"detail\":%q}\n", prop, err.Error())), 0o644)
	return path
}

func dumpFunc(w *World, name string) {
	for _, f := range w.modFuncs {
		if fname(f) == name || f.Name() == name {
			f.WriteTo(os.Stdout)
		}
	}
}
