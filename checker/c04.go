package main

import (
	"strings"
	"fmt"
	"go/token"
	"go/types"

	"golang.org/x/tools/go/ssa"
)

func init() {
	register("C04", &propCheck{
		explain: "Decides the routing decision procedure's shape: (R04.1) the table is consulted with exactly three key classes - the host itself, \"*\"+host[firstDot:], \"\" - each later lookup reachable only on the not-found branch of the earlier, the wildcard guarded by dot-index>0; (R04.2) every bindings slice is sorted by descending len(pathPrefix) before the table is published and the matcher returns the first hit of a forward scan; (R04.3) the prefix test is HasPrefix(EnsureTrailingSlash(path), EnsureTrailingSlash(prefix)) and EnsureTrailingSlash only appends \"/\" when missing (segment-boundary lemma stated in DESIGN); (R04.4) the table is rebuilt from ServiceMap.services alone over all hosts x prefixes of every service, and options are normalised in NewService before they can reach the table; (R04.5) port stripping and the 404 branch.",
		notDecided: []string{"byte-level behaviour of net.SplitHostPort on exotic Host headers", "stability of the sort for equal-length prefixes (distinct equal-length prefixes cannot both match one path; relies on C05)"},
		run:        checkC04,
	})
}

func checkC04(c *Ctx) {
	r041(c)
	r042(c)
	r043(c)
	r044(c, "R04.4 table-is-function-of-services")
	r045(c)
	// at most one service per (host, prefix): otherwise which one answers depends on map iteration order (shared with C05)
	r053(c, "R04.6 one-owner-per-host-and-prefix")
	rPrefixNormalForm(c, "R04.7 prefix-normal-form")
	// "the choice depends only on the set of services": with two owners of one pair the answer follows map iteration
	// order - the ownership check guards every installation (shared with C05)
	r051(c, "R04.8 check-then-install-atomic")
}

// fullRangeElem: v is the element of a forward, complete range loop over a
// slice value (for _, x := range S). Returns S.
func fullRangeElem(v ssa.Value) (ssa.Value, bool) {
	u, ok := v.(*ssa.UnOp)
	if !ok || u.Op != token.MUL {
		return nil, false
	}
	ia, ok := u.X.(*ssa.IndexAddr)
	if !ok {
		return nil, false
	}
	inc, ok := reduceIndex(ia.Index).(*ssa.BinOp)
	if !ok || inc.Op != token.ADD {
		return nil, false
	}
	phi, ok := inc.X.(*ssa.Phi)
	if one, ok2 := constInt(inc.Y); !ok || !ok2 || one != 1 {
		return nil, false
	}
	startOK, backOK := false, false
	for _, e := range phi.Edges {
		if k, ok := constInt(e); ok && k == -1 {
			startOK = true
		} else if e == ssa.Value(inc) {
			backOK = true
		} else {
			return nil, false
		}
	}
	if !startOK || !backOK {
		return nil, false
	}
	// loop bound: inc < len(S)
	for _, r := range *inc.Referrers() {
		b, ok := r.(*ssa.BinOp)
		if !ok || b.Op != token.LSS || b.X != ssa.Value(inc) {
			continue
		}
		if call, ok := b.Y.(*ssa.Call); ok {
			if bi, ok := call.Call.Value.(*ssa.Builtin); ok && bi.Name() == "len" && (call.Call.Args[0] == ia.X || stripConv(resolve(call.Call.Args[0])) == stripConv(resolve(ia.X))) {
				return ia.X, true
			}
		}
	}
	return nil, false
}

// reduceIndex: an index that is the position found by a search merged with the "not found" -1 (`i := slices.IndexFunc(...)`
// expanded in place) is, wherever it is used as an index, the position found.
func reduceIndex(v ssa.Value) ssa.Value {
	phi, ok := v.(*ssa.Phi)
	if !ok {
		return v
	}
	var rest ssa.Value
	for _, e := range phi.Edges {
		if k, isK := constInt(e); isK && k < 0 {
			continue
		}
		if rest != nil && rest != e {
			return v
		}
		rest = e
	}
	if rest == nil {
		return v
	}
	return rest
}

// indexEdgeConds: for an element access whose index is such a merge, the conditions under which the position was found.
func indexEdgeConds(v ssa.Value) []condEdge {
	u, ok := v.(*ssa.UnOp)
	if !ok {
		return nil
	}
	ia, ok := u.X.(*ssa.IndexAddr)
	if !ok {
		return nil
	}
	phi, ok := ia.Index.(*ssa.Phi)
	if !ok {
		return nil
	}
	var out []condEdge
	for i, e := range phi.Edges {
		if k, isK := constInt(e); isK && k < 0 {
			continue
		}
		pred := phi.Block().Preds[i]
		out = append(out, dominatingConds(pred)...)
		out = append(out, edgeCond(pred, phi.Block())...)
	}
	return out
}

// sameElem: two loads of the same element of the same slice (the same position of a scan).
func sameElem(a, b ssa.Value) bool {
	if a == b {
		return true
	}
	ua, ok1 := resolve(a).(*ssa.UnOp)
	ub, ok2 := resolve(b).(*ssa.UnOp)
	if !ok1 || !ok2 {
		return false
	}
	ia, ok1 := ua.X.(*ssa.IndexAddr)
	ib, ok2 := ub.X.(*ssa.IndexAddr)
	if !ok1 || !ok2 {
		return false
	}
	return stripConv(resolve(ia.X)) == stripConv(resolve(ib.X)) && reduceIndex(ia.Index) == reduceIndex(ib.Index)
}

// R04.1 host resolution order.
func r041(c *Ctx) {
	const rule = "R04.1 host-resolution-order"
	c.floor(rule, 8)
	fn := c.method("ServiceMap", "bindingsForHost")
	rsm := c.field("ServiceMap", "requestServiceMap")
	host := ssa.Value(fn.Params[1])
	type lk struct {
		in    *ssa.Lookup
		class string
	}
	var lks []lk
	var dotIdx ssa.Value
	for _, b := range fn.Blocks {
		for _, in := range b.Instrs {
			l, ok := in.(*ssa.Lookup)
			if !ok || !isLoadOfField(l.X, rsm) {
				continue
			}
			class := "other"
			switch {
			case l.Index == host:
				class = "exact"
			case func() bool { s, ok := constString(l.Index); return ok && s == "" }():
				class = "default"
			default:
				if add, ok := l.Index.(*ssa.BinOp); ok && add.Op == token.ADD {
					if s, ok := constString(add.X); ok && s == "*" {
						if sl, ok := add.Y.(*ssa.Slice); ok && sl.X == host && sl.High == nil {
							if call, ok := sl.Low.(*ssa.Call); ok && calleeName(call.Common()) == "strings.Index" && call.Call.Args[0] == host {
								if d, ok := constString(call.Call.Args[1]); ok && d == "." {
									class = "wildcard"
									dotIdx = call
								}
							}
						}
					}
				}
			}
			lks = append(lks, lk{l, class})
		}
	}
	byClass := map[string]*ssa.Lookup{}
	for _, l := range lks {
		if l.class == "other" || byClass[l.class] != nil {
			c.ob(rule, "bindingsForHost/lookup-key-class", l.in.Pos(), false, true, "a routing-table lookup whose key is not one of {host, \"*\"+host[firstDot:], \"\"} or a duplicated class: "+l.class)
			continue
		}
		byClass[l.class] = l.in
		c.ob(rule, "bindingsForHost/lookup:"+l.class, l.in.Pos(), true, true, "key class recognised from the provenance of the key value")
	}
	ex, wc, df := byClass["exact"], byClass["wildcard"], byClass["default"]
	if !c.ob(rule, "bindingsForHost/three-classes", fn.Pos(), ex != nil && wc != nil && df != nil && len(lks) == 3, true, "exactly the three lookups exact, wildcard, default must occur") {
		return
	}
	okOf := func(l *ssa.Lookup) func(ssa.Value) bool {
		return func(v ssa.Value) bool {
			e, ok := v.(*ssa.Extract)
			return ok && e.Tuple == ssa.Value(l) && e.Index == 1
		}
	}
	_, exMissAtWc := boolFacts(wc, okOf(ex))
	c.ob(rule, "bindingsForHost/wildcard-only-after-exact-miss", wc.Pos(), ex.CommaOk && exMissAtWc, true, "the wildcard lookup must be reachable only when the exact host is not in the table")
	_, exMissAtDf := boolFacts(df, okOf(ex))
	wcHitAtDf, _ := boolFacts(df, okOf(wc))
	c.ob(rule, "bindingsForHost/default-only-after-exact-miss", df.Pos(), exMissAtDf && !wcHitAtDf, true, "the default (no-host) lookup must be reachable only when the exact host is not in the table")
	// a path from the wildcard lookup to the default must exist only via wildcard miss
	wcOK := wc.CommaOk
	if wcOK {
		// default reachable from wc only through the ok==false edge: the block of df must not be dominated by ok==true and
		// from the ok==true successor no path reaches df
		for _, r := range *wc.Referrers() {
			if e, ok := r.(*ssa.Extract); ok && e.Index == 1 {
				for _, rr := range *e.Referrers() {
					if ifi, ok := rr.(*ssa.If); ok {
						hit := ifi.Block().Succs[0]
						if _, reaches := reach(fn, hit.Instrs[0], func(in ssa.Instruction) bool { return in == ssa.Instruction(df) }, nil); reaches || hit.Instrs[0] == ssa.Instruction(df) {
							wcOK = false
						}
					}
				}
			}
		}
	}
	c.ob(rule, "bindingsForHost/default-not-after-wildcard-hit", df.Pos(), wcOK, true, "when the wildcard entry exists the default must not be consulted")
	// wildcard guarded by dot index > 0
	guard := false
	if dotIdx != nil {
		lo, _, _ := interval(intFacts(wc, sameAs(dotIdx)))
		guard = lo >= 1
	}
	c.ob(rule, "bindingsForHost/wildcard-needs-dot-after-first-char", wc.Pos(), guard, true, "the wildcard lookup must be guarded by strings.Index(host, \".\") > 0")
	// returns: value of each lookup returned only on its found branch
	for _, ret := range normalReturns(fn) {
		v := retVal(ret, 0)
		switch x := v.(type) {
		case *ssa.Extract:
			l, _ := x.Tuple.(*ssa.Lookup)
			hit, _ := boolFacts(ret, okOf(l))
			c.ob(rule, "bindingsForHost/returns-found-entry", ret.Pos(), l != nil && x.Index == 0 && hit, true, "a comma-ok lookup's value may be returned only on its found branch")
		case *ssa.Lookup:
			c.ob(rule, "bindingsForHost/returns-default-entry", ret.Pos(), x == df, true, "the unconditional return must be the default entry")
		default:
			c.ob(rule, "bindingsForHost/return-form", ret.Pos(), false, true, "unrecognised return value")
		}
	}
	// serviceFor uses bindingsForHost(host) on its host parameter
	sf := c.method("ServiceMap", "serviceFor")
	cs := callsTo(sf, fn)
	c.ob(rule, "serviceFor/uses-bindingsForHost(host)", sf.Pos(), len(cs) == 1 && cs[0].common().Args[1] == ssa.Value(sf.Params[1]), true, "")
}

// R04.2 longest prefix first.
func r042(c *Ctx) {
	const rule = "R04.2 longest-prefix-first"
	c.floor(rule, 5)
	upd := c.method("ServiceMap", "updateRequestServiceMap")
	rsm := c.field("ServiceMap", "requestServiceMap")
	pp := c.field("pathBinding", "pathPrefix")
	var store *ssa.Store
	for _, w := range c.writesOfField(rsm) {
		if w.fn == upd {
			store, _ = w.instr.(*ssa.Store)
		}
	}
	if !c.ob(rule, "updateRequestServiceMap/publishes-table", upd.Pos(), store != nil, false, "") {
		return
	}
	var sortCall *ssa.Call
	for _, cs := range callsIn(upd) {
		if o := calleeObj(cs.common()); o != nil && o.Pkg() != nil && o.Pkg().Path() == "slices" && (o.Name() == "SortFunc" || o.Name() == "SortStableFunc") {
			sortCall, _ = cs.instr.(*ssa.Call)
		}
	}
	if !c.ob(rule, "updateRequestServiceMap/sorts-bindings", upd.Pos(), sortCall != nil, true, "every bindings slice must be sorted with slices.SortFunc before publication") {
		return
	}
	// the sort is in a range over the map that is then stored, and that loop completes before the store
	n := loopNext(sortCall)
	rangedOK := false
	if n != nil {
		if r, ok := n.Iter.(*ssa.Range); ok && r.X == store.Val {
			if e, ok := sortCall.Call.Args[0].(*ssa.Extract); ok && e.Tuple == ssa.Value(n) && e.Index == 2 {
				rangedOK = len(dominatingCondsOtherThanLoop(sortCall)) == 0
			}
		}
	}
	c.ob(rule, "updateRequestServiceMap/sort-covers-every-host", sortCall.Pos(), rangedOK && n != nil && dominates(n, store), true, "the sort must be applied unconditionally to every value of the map being published, before it is stored")
	// comparator: descending length of pathPrefix
	cmpFn := closureFunc(sortCall.Call.Args[1])
	desc := false
	detail := "comparator must order by descending len(pathPrefix): len(b.pathPrefix)-len(a.pathPrefix) or cmp.Compare(len(b..), len(a..))"
	if cmpFn != nil && len(cmpFn.Params) == 2 {
		c.touched(cmpFn.String())
		lenOf := func(v ssa.Value) int { // which parameter's pathPrefix length is v: 0, 1 or -1
			call, ok := v.(*ssa.Call)
			if !ok {
				return -1
			}
			b, ok := call.Call.Value.(*ssa.Builtin)
			if !ok || b.Name() != "len" {
				return -1
			}
			f, base, ok := fieldLoad(call.Call.Args[0])
			if !ok || f != pp {
				return -1
			}
			for i, p := range cmpFn.Params {
				if base == ssa.Value(p) {
					return i
				}
			}
			return -1
		}
		rets := normalReturns(cmpFn)
		if len(rets) == 1 {
			switch x := retVal(rets[0], 0).(type) {
			case *ssa.BinOp:
				if x.Op == token.SUB && lenOf(x.X) == 1 && lenOf(x.Y) == 0 {
					desc = true
				}
			case *ssa.Call:
				if o := calleeObj(x.Common()); o != nil && o.Pkg() != nil && o.Pkg().Path() == "cmp" && o.Name() == "Compare" {
					if lenOf(x.Call.Args[0]) == 1 && lenOf(x.Call.Args[1]) == 0 {
						desc = true
					}
				}
			}
		}
	}
	c.ob(rule, "updateRequestServiceMap/comparator-descending-length", sortCall.Pos(), desc, true, detail)
	// serviceFor: forward scan, first match returns
	sf := c.method("ServiceMap", "serviceFor")
	bfh := c.method("ServiceMap", "bindingsForHost")
	svcF := c.field("pathBinding", "service")
	nHit := 0
	for _, ret := range normalReturns(sf) {
		v := retVal(ret, 0)
		if isNilConst(v) {
			continue
		}
		nHit++
		// (the scan may hand back the matching binding itself and leave it to its callers to take the service and the
		// prefix out of it: then every caller must take both from that one binding)
		if s, full := fullRangeElem(v); full {
			call, isCall := s.(*ssa.Call)
			okB := isCall && isCallTo(call.Common(), bfh)
			for _, g := range c.modFuncs {
				for _, cs := range callsTo(g, sf) {
					res, _ := cs.instr.(ssa.Value)
					for _, rc := range retCases(g) {
						for i, rv := range rc.vals {
							if isNilConst(rv) {
								continue
							}
							if sv, isS := constString(rv); isS && sv == "" {
								continue
							}
							f, base, ok := fieldLoad(rv)
							want := svcF
							if i == 1 {
								want = pp
							}
							if !ok || f != want || resolve(base) != res {
								okB = false
							}
						}
					}
				}
			}
			c.ob(rule, "serviceFor/first-match-of-forward-scan", ret.Pos(), okB, true, "the binding returned must be the element of a forward, complete range over bindingsForHost(host), returned from inside the loop at the first match, and its callers must take the service and the prefix from that one binding")
			continue
		}
		f, base, ok := fieldLoad(v)
		okAll := ok && f == svcF
		if okAll {
			s, full := fullRangeElem(base)
			call, isCall := s.(*ssa.Call)
			okAll = full && isCall && isCallTo(call.Common(), bfh)
		}
		// second result is the matched prefix of the same binding
		if okAll && len(ret.Results) == 2 {
			f2, base2, ok2 := fieldLoad(retVal(ret, 1))
			okAll = ok2 && f2 == pp && base2 == base
		}
		c.ob(rule, "serviceFor/first-match-of-forward-scan", ret.Pos(), okAll, true, "the service returned must be the element of a forward, complete range over bindingsForHost(host), returned from inside the loop at the first match, together with that binding's prefix")
	}
	c.ob(rule, "serviceFor/has-match-return", sf.Pos(), nHit >= 1, false, "")
}

// R04.3 segment-boundary match.
func r043(c *Ctx) {
	const rule = "R04.3 segment-boundary-match"
	c.floor(rule, 4)
	sf := c.method("ServiceMap", "serviceFor")
	ets := c.fn("EnsureTrailingSlash")
	pp := c.field("pathBinding", "pathPrefix")
	hps := callsToName(sf, "strings.HasPrefix")
	if len(hps) != 1 {
		c.undecided(rule, "serviceFor/prefix-test", sf.Pos(), fmt.Sprintf("expected one strings.HasPrefix, found %d", len(hps)))
		return
	}
	hp := hps[0].instr.(*ssa.Call)
	arg := func(i int) (ssa.Value, bool) {
		call, ok := hp.Call.Args[i].(*ssa.Call)
		if !ok || !isCallTo(call.Common(), ets) {
			return nil, false
		}
		return call.Call.Args[0], true
	}
	a0, ok0 := arg(0)
	a1, ok1 := arg(1)
	c.ob(rule, "serviceFor/path-side-normalised", hp.Pos(), ok0 && a0 == ssa.Value(sf.Params[2]), true, "HasPrefix's first operand must be EnsureTrailingSlash(request path)")
	c.ob(rule, "serviceFor/prefix-side-normalised", hp.Pos(), ok1 && isLoadOfField(a1, pp), true, "HasPrefix's second operand must be EnsureTrailingSlash(binding.pathPrefix)")
	// the match return is on HasPrefix==true, and no other string test gates it
	for _, ret := range normalReturns(sf) {
		if isNilConst(retVal(ret, 0)) {
			continue
		}
		t, _ := boolFacts(ret, sameAs(hp))
		extra := 0
		for _, ce := range dominatingCondsOtherThanLoop(ret) {
			if ce.cond != ssa.Value(hp) {
				if cm, ok := ce.asCmp(); ok && (isNilConst(cm.x) || isNilConst(cm.y)) {
					continue // nil check of the bindings slice
				}
				extra++
			}
		}
		c.ob(rule, "serviceFor/match-iff-HasPrefix", ret.Pos(), t && extra == 0, true, "the match must be taken exactly on HasPrefix(...)==true with no further condition")
	}
	// EnsureTrailingSlash: returns path, or path+"/" only when it lacks the suffix
	p := ssa.Value(ets.Params[0])
	okE := true
	nApp := 0
	for _, ret := range normalReturns(ets) {
		v := retVal(ret, 0)
		if v == p {
			continue
		}
		b, ok := v.(*ssa.BinOp)
		s, isS := func() (string, bool) {
			if !ok {
				return "", false
			}
			return constString(b.Y)
		}()
		if !ok || b.Op != token.ADD || b.X != p || !isS || s != "/" {
			okE = false
			continue
		}
		nApp++
		// on the HasSuffix(path,"/")==false branch
		guard := false
		for _, ce := range dominatingConds(ret.Block()) {
			if call, ok := ce.cond.(*ssa.Call); ok && calleeName(call.Common()) == "strings.HasSuffix" && call.Call.Args[0] == p && !ce.taken {
				if sfx, ok := constString(call.Call.Args[1]); ok && sfx == "/" {
					guard = true
				}
			}
		}
		if !guard {
			okE = false
		}
	}
	c.ob(rule, "EnsureTrailingSlash/identity-or-append-slash", ets.Pos(), okE && nApp == 1, true, "EnsureTrailingSlash must return its argument, or argument+\"/\" exactly when the argument does not end in \"/\"")
}

// R04.4 history independence.
func r044(c *Ctx, rule string) {
	c.floor(rule, 6)
	upd := c.method("ServiceMap", "updateRequestServiceMap")
	svcs := c.field("ServiceMap", "services")
	hostsF, prefF := c.field("ServiceOptions", "Hosts"), c.field("ServiceOptions", "PathPrefixes")
	optF := c.field("Service", "options")
	ppF, svcF := c.field("pathBinding", "pathPrefix"), c.field("pathBinding", "service")
	// the map published
	var table *ssa.MakeMap
	for _, w := range c.writesOfField(c.field("ServiceMap", "requestServiceMap")) {
		if w.fn == upd {
			table, _ = stripConv(w.val).(*ssa.MakeMap)
		}
	}
	if !c.ob(rule, "updateRequestServiceMap/builds-fresh-table", upd.Pos(), table != nil && table.Parent() == upd, true, "the table published must be built in this call (a pure function of the current services, independent of earlier tables)") {
		return
	}
	// every MapUpdate on the table: key is element of full range over service.options.Hosts; value appended binding {prefix elem, service}
	nUpd := 0
	for _, b := range upd.Blocks {
		for _, in := range b.Instrs {
			mu, ok := in.(*ssa.MapUpdate)
			if !ok || mu.Map != ssa.Value(table) {
				continue
			}
			nUpd++
			hs, full := fullRangeElem(mu.Key)
			okKey := full
			var svc ssa.Value
			if okKey {
				chain, base := fieldPath(hs)
				okKey = len(chain) == 2 && chain[0] == optF && chain[1] == hostsF
				svc = base
			}
			c.ob(rule, "updateRequestServiceMap/key-ranges-over-all-hosts", mu.Pos(), okKey, true, "table keys must be every element of service.options.Hosts")
			// the ranged service comes from a range over m.services
			okSvc := false
			if e, ok := svc.(*ssa.Extract); ok {
				if n, ok := e.Tuple.(*ssa.Next); ok {
					if r, ok := n.Iter.(*ssa.Range); ok && isLoadOfField(r.X, svcs) {
						okSvc = true
					}
				}
			}
			c.ob(rule, "updateRequestServiceMap/ranges-over-all-services", mu.Pos(), okSvc, true, "the services contributing bindings must be every entry of ServiceMap.services")
			// value: append(existing, &pathBinding{pathPrefix: elem of PathPrefixes(full range), service: svc})
			// (the value may be built up over the prefix loop in a local and stored once per host: every append in the chain
			// that leads to the stored value is examined; the chain starts from what the table held for that host, possibly
			// grown, or from the empty list)
			isBinding := func(e ssa.Value) bool {
				alloc, ok := e.(*ssa.Alloc)
				if !ok {
					return false
				}
				var gotP, gotS bool
				for _, r := range *alloc.Referrers() {
					fa, ok := r.(*ssa.FieldAddr)
					if !ok {
						continue
					}
					f, _, _ := fieldOfAddr(fa)
					for _, rr := range *fa.Referrers() {
						st, ok := rr.(*ssa.Store)
						if !ok {
							continue
						}
						if f == ppF {
							if ps, full := fullRangeElem(resolve(st.Val)); full {
								chain, base := fieldPath(resolve(ps))
								gotP = len(chain) == 2 && chain[0] == optF && chain[1] == prefF && base == svc
							}
						}
						if f == svcF {
							gotS = st.Val == svc
						}
					}
				}
				return gotP && gotS
			}
			nApp := 0
			seenV := map[ssa.Value]bool{}
			var chainOK func(v ssa.Value, d int) bool
			chainOK = func(v ssa.Value, d int) bool {
				v = resolve(v)
				if seenV[v] {
					return true
				}
				seenV[v] = true
				if d > 8 {
					return false
				}
				if isEmptySliceLit(v) || isNilConst(v) {
					return true
				}
				switch x := v.(type) {
				case *ssa.Lookup:
					return x.X == ssa.Value(table) && resolve(x.Index) == resolve(mu.Key)
				case *ssa.Phi:
					for _, e := range x.Edges {
						if !chainOK(e, d+1) {
							return false
						}
					}
					return true
				case *ssa.Call:
					if bi, ok := x.Call.Value.(*ssa.Builtin); ok && bi.Name() == "append" {
						els := appendedElems(x)
						if len(els) == 0 {
							return false
						}
						for _, e := range els {
							if !isBinding(e) {
								return false
							}
						}
						nApp++
						return chainOK(x.Call.Args[0], d+1)
					}
					if strings.HasPrefix(calleeName(x.Common()), "slices.Grow") || strings.HasPrefix(calleeName(x.Common()), "slices.Clip") {
						return chainOK(x.Call.Args[0], d+1)
					}
				}
				return false
			}
			okVal := chainOK(mu.Value, 0) && nApp >= 1
			c.ob(rule, "updateRequestServiceMap/binding-per-prefix-of-the-service", mu.Pos(), okVal, true, "each binding must pair every element of service.options.PathPrefixes with that same service")
			c.ob(rule, "updateRequestServiceMap/binding-unconditional", mu.Pos(), len(condsOtherThanEmptiness(dominatingCondsOtherThanLoop(mu))) == 0, true, "no condition may exclude a host x prefix pair from the table")
		}
	}
	c.ob(rule, "updateRequestServiceMap/fills-table", upd.Pos(), nUpd >= 1, false, "")
	c.servicesWriteRebuilds(rule)
	// normalisation in NewService precedes the options store; CopyWithOptions builds through NewService
	ns := c.fn("NewService")
	norm := c.methodIn(c.server, "ServiceOptions", "Normalize")
	// constructsNormalised: fn stores into the options of an object it allocates itself exactly the options it normalised
	constructsNormalised := func(fn *ssa.Function) bool {
		okNorm := false
		for _, w := range c.writesOfField(optF) {
			if w.fn != fn {
				continue
			}
			if _, fresh := w.base.(*ssa.Alloc); !fresh {
				return false
			}
			this := false
			for _, cs := range callsTo(fn, norm) {
				if u, ok := w.val.(*ssa.UnOp); ok && u.X == cs.common().Args[0] && dominates(cs.instr, w.instr) && dominates(cs.instr, u) {
					this = true
				}
			}
			if !this {
				return false
			}
			okNorm = true
		}
		return okNorm
	}
	c.ob(rule, "NewService/normalises-options-before-use", ns.Pos(), constructsNormalised(ns), true, "NewService must store the options it normalised (\"\" host for none, \"/\"+trimmed prefixes)")
	cwo := c.method("Service", "CopyWithOptions")
	c.ob(rule, "CopyWithOptions/builds-through-NewService", cwo.Pos(), len(callsTo(cwo, ns)) == 1 || constructsNormalised(cwo), true, "a redeploy's options must pass through NewService's normalisation (by calling it, or by the same construction: normalise, then store into a freshly allocated service)")
	nh, np := c.fn("NormalizeHosts"), c.fn("NormalizePathPrefixes")
	c.ob(rule, "Normalize/applies-both-normalisers", norm.Pos(), len(callsTo(norm, nh)) == 1 && len(callsTo(norm, np)) == 1, true, "")
	// writers of Service.options: constructor, restore; TLS sync writes only TLS fields (C16)
	for _, w := range c.writesOfField(optF) {
		o := fname(outer(w.fn))
		ok := o == "server.NewService" || o == "(*server.Service).UnmarshalJSON"
		if _, fresh := w.base.(*ssa.Alloc); fresh && constructsNormalised(w.fn) {
			ok = true // a construction with the constructor's own discipline
		}
		c.ob(rule, "write Service.options <- "+o, w.instr.Pos(), ok, false, "only the constructor and the restore path may assign a service's options")
	}
	for _, f := range []*types.Var{hostsF, prefF} {
		for _, w := range c.writesOfField(f) {
			// (setting the field of a function's own local copy - `options := *so; options.Hosts = hosts; return options` -
			// edits no service's bindings)
			if a, isLocal := w.base.(*ssa.Alloc); isLocal && !a.Heap {
				continue
			}
			o := fname(outer(w.fn))
			allowed := map[string]bool{"(*server.ServiceOptions).Normalize": true, "(*server.ServiceOptions).WithHosts": true, "(*server.ServiceOptions).WithPathPrefixes": true, "(*server.Service).UnmarshalJSON": true}
			c.ob(rule, "write ServiceOptions."+f.Name()+" <- "+o, w.instr.Pos(), allowed[o], false, "bindings of a service may not be edited after construction")
		}
	}
}

// R04.5 port stripping and 404.
func r045(c *Ctx) {
	const rule = "R04.5 port-strip-and-404"
	c.floor(rule, 4)
	sfr := c.method("ServiceMap", "ServiceForRequest")
	sf := c.method("ServiceMap", "serviceFor")
	cs := callsTo(sfr, sf)
	if len(cs) != 1 {
		c.undecided(rule, "ServiceForRequest/shape", sfr.Pos(), "expected one serviceFor call")
		return
	}
	call := cs[0].instr.(*ssa.Call)
	okHost := true
	sawRaw, sawSplit := false, false
	for _, src := range phiSources(call.Call.Args[1]) {
		chain, base := fieldPath(src)
		if len(chain) == 1 && chain[0].Name() == "Host" && base == ssa.Value(sfr.Params[1]) {
			sawRaw = true
			continue
		}
		if e, ok := src.(*ssa.Extract); ok && e.Index == 0 {
			if sc, ok := e.Tuple.(*ssa.Call); ok && calleeName(sc.Common()) == "net.SplitHostPort" {
				sawSplit = true
				continue
			}
		}
		okHost = false
	}
	c.ob(rule, "ServiceForRequest/host-is-Host-or-its-host-part", call.Pos(), okHost && sawRaw && sawSplit, true, "the routing host must be req.Host or the host part of net.SplitHostPort(req.Host)")
	chain, _ := fieldPath(call.Call.Args[2])
	c.ob(rule, "ServiceForRequest/path-is-URL.Path", call.Pos(), len(chain) == 2 && chain[0].Name() == "URL" && chain[1].Name() == "Path", true, "the routing path must be req.URL.Path")
	// Router.ServeHTTP: 404 iff service == nil, forward only on non-nil
	serve := c.method("Router", "ServeHTTP")
	sfrq := c.method("Router", "serviceForRequest")
	rcs := callsTo(serve, sfrq)
	if len(rcs) != 1 {
		c.undecided(rule, "Router.ServeHTTP/shape", serve.Pos(), "expected one serviceForRequest call")
		return
	}
	svc := resultOf(rcs[0].instr.(*ssa.Call), 0)
	for _, s := range c.errorSites() {
		if s.fn == serve {
			isNil, _ := nilKnowledge(s.instr, sameAs(svc))
			c.ob(rule, "Router.ServeHTTP/404-when-no-service", s.instr.Pos(), isNil && s.status == 404, true, "the router's only own response is 404 on service == nil")
		}
	}
	for _, cs := range callsTo(serve, c.method("Service", "ServeHTTP")) {
		_, nn := nilKnowledge(cs.instr, sameAs(svc))
		c.ob(rule, "Router.ServeHTTP/forwards-to-resolved-service", cs.pos(), nn && cs.common().Args[0] == svc, true, "the request must be handed to the service that routing resolved")
	}
	// the router's locked wrapper hands the request to ServiceForRequest unchanged and returns its answer
	okWrap := false
	for _, cs := range callsTo(sfrq, sfr) {
		call := cs.instr.(*ssa.Call)
		if call.Call.Args[1] == ssa.Value(sfrq.Params[1]) && len(dominatingConds(call.Block())) == 0 {
			okWrap = true
			for _, ret := range normalReturns(sfrq) {
				if retVal(ret, 0) != resultOf(call, 0) || retVal(ret, 1) != resultOf(call, 1) {
					okWrap = false
				}
			}
		}
	}
	c.ob(rule, "Router.serviceForRequest/is-ServiceForRequest-under-the-lock", sfrq.Pos(), okWrap, true, "routing must depend only on the request's Host and path as resolved by ServiceMap.ServiceForRequest (not on SNI, remote address, ...)")
	// ServiceForHost == serviceFor(host, "/")
	sfh := c.method("ServiceMap", "ServiceForHost")
	okH := false
	for _, cs := range callsTo(sfh, sf) {
		if p, ok := constString(cs.common().Args[2]); ok && p == "/" && cs.common().Args[1] == ssa.Value(sfh.Params[1]) {
			okH = true
		}
	}
	c.ob(rule, "ServiceForHost/root-path-of-host", sfh.Pos(), okH, true, "ServiceForHost must resolve (host, \"/\") through the same matcher")
}
