package main

import (
	"fmt"
	"go/token"
	"go/types"
	"sort"
	"strings"

	"golang.org/x/tools/go/ssa"
)

func init() {
	register("C13", &propCheck{
		explain: "Byte-for-byte transparency rests mostly on net/http and httputil.ReverseProxy (trusted); what this repository adds is WHERE it touches a request or response, and that set is enumerated completely: (R13.1) exhaustive inventory of every store to a field of http.Request/url.URL and every header write in the proxy, against a frozen table (request id/start only when absent, body replaced by the buffer, rewrite touching req.Out only - never req.In or the inbound request), and every ResponseWriter wrapper forwards WriteHeader/Write unconditionally with the same arguments; (R13.2) the ReverseProxy literal uses Rewrite (so the library strips hop-by-hop and client-supplied forwarding headers first), sets ErrorHandler, no Director/ModifyResponse; Out.Host<-In.Host; RawQuery copied verbatim after SetURL; targets have an empty path; prefix trimming only under a routing context that the router attaches only when stripping applies to a non-root prefix; (R13.3) Path and RawPath are trimmed together; (R13.4) client X-Forwarded-* flow into the outbound request only under ForwardHeaders, around an unconditional SetXForwarded; (R13.5) middleware nesting order.",
		notDecided: []string{"byte identity of bodies, headers and status for arbitrary inputs (library behaviour)", "uniqueness of generated request ids (uuid library)", "percent-encoding when the client did not spell the prefix literally"},
		run:        checkC13,
	})
}

func checkC13(c *Ctx) {
	r131(c, "R13.1 who-may-touch-request-and-response")
	r132(c)
	r133(c)
	r134(c)
	r135(c, "R13.5 middleware-nesting-order")
	// buffered bodies are delivered in order and within the limits (shared with C14)
	r144(c, "R13.6 buffered-bodies-keep-order")
	rStatusKept(c, "R13.7 buffered-status-kept")
	// the only clock on a proxied exchange is the wait for the response HEADERS: a deadline on the whole exchange would
	// cut a slow body short (shared with C15)
	r151(c, "R13.8 proxy-configuration")
	// the request the rest of the chain sees carries the client's URL: no library wrapper rewrites it on the way in
	rNoURLRewritingWrappers(c, "R13.9 no-url-rewriting-wrappers")
}

type touch struct {
	fn   *ssa.Function
	in   ssa.Instruction
	what string // e.g. "Request.Host", "URL.Path", "reqheader:set", "respheader:set"
	side string // "Out", "In", "inbound", "own", "response"
	hdr  string
}

func namedOf(t types.Type) string {
	if p, ok := t.Underlying().(*types.Pointer); ok {
		t = p.Elem()
	}
	if n, ok := t.(*types.Named); ok && n.Obj().Pkg() != nil {
		return n.Obj().Pkg().Path() + "." + n.Obj().Name()
	}
	return ""
}

// sideOf classifies which request a value (a *http.Request, *url.URL or Header) belongs to.
func sideOf(v ssa.Value) string {
	chain, base := fieldPath(v)
	for _, f := range chain {
		if f.Pkg() != nil && f.Pkg().Path() == "net/http/httputil" {
			return f.Name() // Out / In
		}
	}
	switch b := base.(type) {
	case *ssa.Parameter:
		return "inbound"
	case *ssa.Extract:
		return "own"
	case *ssa.Call:
		if b.Call.IsInvoke() && b.Call.Method.Name() == "Header" {
			return "response"
		}
		return "own"
	case *ssa.Phi:
		return "inbound"
	}
	return "inbound"
}

func (c *Ctx) requestTouches() []touch {
	var out []touch
	for _, fn := range c.proxyFuncs() {
		for _, b := range fn.Blocks {
			for _, in := range b.Instrs {
				switch x := in.(type) {
				case *ssa.Store:
					f, base, ok := fieldOfAddr(x.Addr)
					if !ok {
						continue
					}
					owner := namedOf(base.Type())
					if owner != "net/http.Request" && owner != "net/url.URL" {
						continue
					}
					// a Request/URL being built in a local literal is the function's own object
					side := sideOf(base)
					if _, isAlloc := base.(*ssa.Alloc); isAlloc {
						side = "own"
					}
					out = append(out, touch{fn, in, owner[strings.LastIndex(owner, ".")+1:] + "." + f.Name(), side, ""})
				case *ssa.MapUpdate:
					if namedOf(x.Map.Type()) == "net/http.Header" {
						h, _ := constString(x.Key)
						out = append(out, touch{fn, in, "header:set", sideOf(x.Map), h})
					}
				case ssa.CallInstruction:
					n := calleeName(x.Common())
					switch n {
					case "(net/http.Header).Set", "(net/http.Header).Add", "(net/http.Header).Del":
						h, _ := constString(x.Common().Args[1])
						out = append(out, touch{fn, in, "header:" + strings.ToLower(n[strings.LastIndex(n, ".")+1:]), sideOf(x.Common().Args[0]), h})
					default:
						if b, ok := x.Common().Value.(*ssa.Builtin); ok && b.Name() == "delete" && namedOf(x.Common().Args[0].Type()) == "net/http.Header" {
							h, _ := constString(x.Common().Args[1])
							out = append(out, touch{fn, in, "header:del", sideOf(x.Common().Args[0]), h})
						}
					}
				}
			}
		}
	}
	return out
}

// touchTable: function -> allowed "side what[ header]" entries
var touchTable = map[string]map[string]string{
	"(*server.RequestIDMiddleware).ServeHTTP":     {"inbound header:set X-Request-ID": "added only when the client sent none"},
	"(*server.RequestStartMiddleware).ServeHTTP":  {"inbound header:set X-Request-Start": "added only when the client sent none"},
	"(*server.RequestBufferMiddleware).ServeHTTP": {"inbound Request.Body": "body replaced by the fully buffered copy"},
	"(*server.Target).rewrite": {"Out Request.Host": "original Host kept", "Out URL.Path": "matched prefix stripped", "Out URL.RawPath": "matched prefix stripped (same as Path)",
		"Out URL.RawQuery": "raw query copied verbatim"},
	"(*server.Target).forwardHeaders": {"Out header:set X-Forwarded-For": "client chain kept when header forwarding is on", "Out header:set X-Forwarded-Proto": "override when forwarding is on",
		"Out header:set X-Forwarded-Host": "override when forwarding is on"},
	"(*server.HealthCheck).check":                        {"own header:set User-Agent": "the probe's own request"},
	"(*server.ErrorPageMiddleware).respondWithErrorPage": {"response header:set Content-Type": "proxy-generated page"},
	"(*server.Service).redirectToHTTPS":                  {"response header:set Connection": "redirect response"},
	"(*server.Service).serviceRequestWithTarget":         {"response header:set Connection": "redirect response"},
}

func r131(c *Ctx, rule string) {
	c.floor(rule, 18)
	r131touches(c, rule)
	r131rest(c, rule)
}

// r131touches: the frozen table of places where the proxy may alter a request, URL or header.
func r131touches(c *Ctx, rule string) {
	ts := c.requestTouches()
	sort.SliceStable(ts, func(i, j int) bool { return fname(ts[i].fn) < fname(ts[j].fn) })
	for _, t := range ts {
		key := t.side + " " + t.what
		if t.hdr != "" {
			key += " " + t.hdr
		}
		row := touchTable[fname(outer(t.fn))]
		reason, ok := row[key]
		c.ob(rule, fname(outer(t.fn))+" touches "+key, t.in.Pos(), ok, false, func() string {
			if ok {
				return "allowed: " + reason
			}
			return "a write to a request / URL / header that is not in the frozen table of places where the proxy may alter a message"
		}())
	}
}

func r131rest(c *Ctx, rule string) {
	// request id / start only when absent
	for _, name := range []struct{ typ, hdr string }{{"RequestIDMiddleware", "X-Request-ID"}, {"RequestStartMiddleware", "X-Request-Start"}} {
		fn := c.method(name.typ, "ServeHTTP")
		for _, cs := range callsToName(fn, "(net/http.Header).Set") {
			absent := false
			for _, ce := range dominatingConds(cs.instr.Block()) {
				cm, ok := ce.asCmp()
				if !ok || cm.op != token.EQL {
					continue
				}
				g, isCall := cm.x.(*ssa.Call)
				if s, isS := constString(cm.y); isCall && isS && s == "" && calleeName(g.Common()) == "(net/http.Header).Get" {
					if h, _ := constString(g.Call.Args[1]); h == name.hdr && sideOf(g.Call.Args[0]) == "inbound" {
						absent = true
					}
				}
			}
			c.ob(rule, name.typ+"/sets-"+name.hdr+"-only-when-absent", cs.pos(), absent, true, "a client-supplied value must be preserved")
		}
		// next handler always invoked, with the same request
		ok := false
		for _, cs := range callsIn(fn) {
			if cs.common().IsInvoke() && cs.common().Method.Name() == "ServeHTTP" && cs.common().Args[1] == ssa.Value(fn.Params[2]) && cs.common().Args[0] == ssa.Value(fn.Params[1]) {
				_, skip := reach(fn, nil, isReturn, func(in ssa.Instruction) bool { return in == cs.instr })
				ok = !skip
			}
		}
		c.ob(rule, name.typ+"/always-forwards-same-request-and-writer", fn.Pos(), ok, true, "")
	}
	// request id value is a fresh uuid
	// the value set is produced by a uuid constructor called for this request (the helper of the reference tree,
	// generateID, is de-anchored: always expanded into ServeHTTP)
	gid := c.method("RequestIDMiddleware", "ServeHTTP")
	okU := false
	isUUIDCall := func(v ssa.Value) bool {
		call, ok := v.(*ssa.Call)
		if !ok {
			return false
		}
		switch calleeName(call.Common()) {
		case "github.com/google/uuid.NewString":
			return true
		case "(github.com/google/uuid.UUID).String":
			inner, ok := call.Call.Args[0].(*ssa.Call)
			if !ok {
				return false
			}
			switch calleeName(inner.Common()) {
			case "github.com/google/uuid.New", "github.com/google/uuid.NewRandom", "github.com/google/uuid.NewV7", "github.com/google/uuid.Must":
				return true
			}
		}
		return false
	}
	for _, cs := range callsToName(gid, "(net/http.Header).Set") {
		if h, _ := constString(cs.common().Args[1]); h == "X-Request-ID" {
			okU = isUUIDCall(resolve(cs.common().Args[2])) && cs.instr.Parent() == gid
		}
	}
	c.ob(rule, "RequestIDMiddleware/fresh-uuid", gid.Pos(), okU, true, "")
	// the copy buffers handed to ReverseProxy are distinct objects: the pool's New allocates inside the closure (a buffer
	// created once outside it would be shared by all concurrent responses of the target, mixing their bytes)
	nbp := c.fn("NewBufferPool")
	okPool, nNew := true, 0
	for _, cl := range nbp.AnonFuncs {
		for _, ret := range normalReturns(cl) {
			if len(ret.Results) != 1 {
				continue
			}
			nNew++
			v := stripConv(ret.Results[0])
			a, isAlloc := v.(*ssa.Alloc)
			if !isAlloc || a.Parent() != cl {
				okPool = false
				continue
			}
			for _, r := range *a.Referrers() {
				if st, ok := r.(*ssa.Store); ok && st.Addr == ssa.Value(a) {
					if mk, ok := st.Val.(*ssa.MakeSlice); !ok || mk.Parent() != cl {
						okPool = false
					}
				}
			}
		}
	}
	c.ob(rule, "BufferPool/New-allocates-a-fresh-buffer", nbp.Pos(), okPool && nNew >= 1, true, "sync.Pool.New must return a buffer allocated by that very call")
	// response writer wrappers forward WriteHeader / Write unconditionally with the same arguments
	c.writerForwards(rule, "loggerResponseWriter", true)
	// targetResponseWriter only embeds (no WriteHeader/Write override)
	for _, m := range []string{"WriteHeader", "Write", "Header"} {
		f := c.methodOpt(c.server, "targetResponseWriter", m)
		c.ob(rule, "targetResponseWriter/does-not-override-"+m, c.named("targetResponseWriter").Obj().Pos(), f == nil, true, "the in-flight tracking writer must pass status, headers and body through untouched (embedded ResponseWriter)")
	}
}

// writerForwards: typ.WriteHeader(code) calls inner.WriteHeader(code) on every path; typ.Write(b) returns inner.Write(b)'s results.
func (c *Ctx) writerForwards(rule, typ string, strict bool) {
	wh := c.method(typ, "WriteHeader")
	okWH := false
	for _, cs := range callsIn(wh) {
		if cs.common().IsInvoke() && cs.common().Method.Name() == "WriteHeader" && cs.common().Args[0] == ssa.Value(wh.Params[1]) {
			_, skip := reach(wh, nil, isReturn, func(in ssa.Instruction) bool { return in == cs.instr })
			okWH = !skip
		}
	}
	c.ob(rule, typ+".WriteHeader/forwards-status-unconditionally", wh.Pos(), okWH, true, "the wrapper must hand every status to the wrapped writer unchanged, on every path (a 'first call wins' guard loses the real status after a 1xx)")
	w := c.method(typ, "Write")
	okW := false
	for _, cs := range callsIn(w) {
		if cs.common().IsInvoke() && cs.common().Method.Name() == "Write" && cs.common().Args[0] == ssa.Value(w.Params[1]) {
			call := cs.instr.(*ssa.Call)
			_, skip := reach(w, nil, isReturn, func(in ssa.Instruction) bool { return in == cs.instr })
			okRet := true
			for _, ret := range normalReturns(w) {
				if retVal(ret, 0) != resultOf(call, 0) || retVal(ret, 1) != resultOf(call, 1) {
					okRet = false
				}
			}
			okW = !skip && okRet
		}
	}
	c.ob(rule, typ+".Write/forwards-bytes-and-result", w.Pos(), okW, true, "the wrapper must pass the same byte slice on and return the wrapped writer's (n, err)")
}

func r132(c *Ctx) {
	const rule = "R13.2 rewrite-contract"
	c.floor(rule, 10)
	cph := c.method("Target", "createProxyHandler")
	rew := c.method("Target", "rewrite")
	hpe := c.method("Target", "handleProxyError")
	// ReverseProxy literal
	var lit *ssa.Alloc
	for _, b := range cph.Blocks {
		for _, in := range b.Instrs {
			if a, ok := in.(*ssa.Alloc); ok && namedOf(a.Type()) == "net/http/httputil.ReverseProxy" {
				lit = a
			}
		}
	}
	if !c.ob(rule, "createProxyHandler/ReverseProxy-literal", cph.Pos(), lit != nil, true, "") {
		return
	}
	set := map[string]ssa.Value{}
	for _, r := range *lit.Referrers() {
		if fa, ok := r.(*ssa.FieldAddr); ok {
			f, _, _ := fieldOfAddr(fa)
			for _, rr := range *fa.Referrers() {
				if st, ok := rr.(*ssa.Store); ok {
					set[f.Name()] = st.Val
				}
			}
		}
	}
	c.ob(rule, "ReverseProxy/Rewrite=t.rewrite", lit.Pos(), set["Rewrite"] != nil && isFuncValueOf(set["Rewrite"], rew), true, "Rewrite (not Director) makes the library strip hop-by-hop and client-supplied Forwarded/X-Forwarded-* before our hook")
	c.ob(rule, "ReverseProxy/ErrorHandler=t.handleProxyError", lit.Pos(), set["ErrorHandler"] != nil && isFuncValueOf(set["ErrorHandler"], hpe), true, "")
	c.ob(rule, "ReverseProxy/no-Director", lit.Pos(), set["Director"] == nil, true, "")
	c.ob(rule, "ReverseProxy/no-ModifyResponse", lit.Pos(), set["ModifyResponse"] == nil, true, "responses are returned unmodified")
	// the handler returned is that literal
	okRet := false
	for _, ret := range normalReturns(cph) {
		if stripConv(retVal(ret, 0)) == ssa.Value(lit) {
			okRet = true
		}
	}
	c.ob(rule, "createProxyHandler/returns-the-literal", cph.Pos(), okRet, true, "")
	// rewrite body
	var setURL *ssa.Call
	for _, cs := range callsToName(rew, "(*net/http/httputil.ProxyRequest).SetURL") {
		call := cs.instr.(*ssa.Call)
		if isLoadOfField(call.Call.Args[1], c.field("Target", "targetURL")) && call.Call.Args[0] == ssa.Value(rew.Params[1]) {
			setURL = call
		}
	}
	c.ob(rule, "rewrite/SetURL(t.targetURL)", rew.Pos(), setURL != nil, true, "")
	for _, t := range c.requestTouches() {
		if t.fn != rew {
			continue
		}
		st, ok := t.in.(*ssa.Store)
		if !ok {
			continue
		}
		switch t.what {
		case "Request.Host":
			ch, _ := fieldPath(st.Val)
			okH := len(ch) == 2 && ch[0].Name() == "In" && ch[1].Name() == "Host"
			c.ob(rule, "rewrite/Out.Host=In.Host", st.Pos(), okH && setURL != nil && dominates(setURL, st) && len(dominatingConds(st.Block())) == 0, true, "the original Host must be restored after SetURL (which clears it), unconditionally")
		case "URL.RawQuery":
			ch, _ := fieldPath(st.Val)
			okQ := len(ch) == 3 && ch[0].Name() == "In" && ch[1].Name() == "URL" && ch[2].Name() == "RawQuery"
			last := true
			_, again := reach(rew, st, func(in ssa.Instruction) bool {
				s2, ok := in.(*ssa.Store)
				if !ok {
					return false
				}
				f, _, ok := fieldOfAddr(s2.Addr)
				return ok && f.Name() == "RawQuery"
			}, nil)
			_, thenSetURL := reach(rew, st, func(in ssa.Instruction) bool { return setURL != nil && in == ssa.Instruction(setURL) }, nil)
			last = !again && !thenSetURL
			c.ob(rule, "rewrite/RawQuery-verbatim-and-last", st.Pos(), okQ && last && len(dominatingConds(st.Block())) == 0, true, "Out.URL.RawQuery must be assigned In.URL.RawQuery verbatim, unconditionally, after SetURL (which re-encodes it)")
		}
	}
	// parseTargetURL: "http://" + name only
	ptu := c.fn("parseTargetURL")
	okP := false
	for _, cs := range callsToName(ptu, "net/url.Parse") {
		if bo, ok := cs.common().Args[0].(*ssa.BinOp); ok && bo.Op == token.ADD {
			if s, ok := constString(bo.X); ok && s == "http://" && bo.Y == ssa.Value(ptu.Params[0]) {
				okP = true
			}
		}
	}
	c.ob(rule, "parseTargetURL/target-has-no-path", ptu.Pos(), okP, true, "targets are host[:port] only, so SetURL joins an empty base path")
	// prefix trimming only under a routing context; the router attaches one only when stripping a non-root prefix
	rc := c.fn("RoutingContext")
	for _, cs := range callsToName(rew, "strings.TrimPrefix") {
		var rcVal ssa.Value
		for _, r := range callsTo(rew, rc) {
			rcVal = r.instr.(*ssa.Call)
		}
		// what is trimmed is the matched prefix of the routing context when there is one - or nothing ("" trims nothing)
		okTrim, nReal := rcVal != nil, 0
		for _, vc := range valueCases(cs.common().Args[1], cs.instr.Block()) {
			if sv, isConst := constString(vc.val); isConst && sv == "" {
				continue
			}
			pfx, _, ok := fieldLoad(vc.val)
			_, nn := nilKnowledgeOf(vc.conds, sameAs(rcVal))
			if ok && pfx.Name() == "MatchedPrefix" && nn {
				nReal++
			} else {
				okTrim = false
			}
		}
		c.ob(rule, "rewrite/trim-only-with-routing-context", cs.pos(), okTrim && nReal >= 1, true, "")
	}
	serve := c.method("Router", "ServeHTTP")
	okCtx := false
	for _, cs := range callsToName(serve, "context.WithValue") {
		var strip, nonRoot bool
		for _, ce := range dominatingConds(cs.instr.Block()) {
			if f, _, ok := fieldLoad(ce.cond); ok && f.Name() == "StripPrefix" && ce.taken {
				strip = true
			}
			if cm, ok := ce.asCmp(); ok && cm.op == token.NEQ {
				if s, ok := constString(cm.y); ok && s == "/" {
					nonRoot = true
				}
			}
		}
		okCtx = strip && nonRoot
	}
	c.ob(rule, "Router.ServeHTTP/routing-context-only-when-stripping-non-root-prefix", serve.Pos(), okCtx, true, "")
	// the routing context carries the matched prefix returned by routing
	okMP := false
	for _, w := range c.writesOfField(c.field("routingContext", "MatchedPrefix")) {
		if w.fn == serve {
			if e, ok := w.val.(*ssa.Extract); ok && e.Index == 1 {
				okMP = true
			}
		}
	}
	c.ob(rule, "Router.ServeHTTP/context-carries-matched-prefix", serve.Pos(), okMP, true, "")
}

func r133(c *Ctx) {
	const rule = "R13.3 path-and-rawpath-move-together"
	c.floor(rule, 1)
	n := 0
	for _, t := range c.requestTouches() {
		if t.what != "URL.Path" {
			continue
		}
		n++
		st := t.in.(*ssa.Store)
		// a sibling store to RawPath of the same URL side, in the same block, with the same transformation
		ok := false
		descr := func(v ssa.Value) (string, ssa.Value) {
			call, isCall := v.(*ssa.Call)
			if !isCall {
				return "", nil
			}
			return calleeName(call.Common()), call
		}
		fnName, pcall := descr(st.Val)
		for _, t2 := range c.requestTouches() {
			if t2.fn != t.fn || t2.what != "URL.RawPath" || t2.side != t.side || t2.in.Block() != t.in.Block() {
				continue
			}
			st2 := t2.in.(*ssa.Store)
			fn2, rcall := descr(st2.Val)
			if fnName == "" || fn2 != fnName {
				continue
			}
			pc, rcl := pcall.(*ssa.Call), rcall.(*ssa.Call)
			// same second argument (the prefix), first argument is the old Path / RawPath of the same URL
			a, _, okA := fieldLoad(pc.Call.Args[0])
			b, _, okB := fieldLoad(rcl.Call.Args[0])
			sameArg := len(pc.Call.Args) == 2 && len(rcl.Call.Args) == 2 && sameFieldLoad(pc.Call.Args[1], rcl.Call.Args[1])
			if okA && okB && a.Name() == "Path" && b.Name() == "RawPath" && sameArg {
				ok = true
			}
		}
		c.ob(rule, fname(t.fn)+"/"+t.side+".URL.Path rewritten with RawPath", st.Pos(), ok, true,
			"a function that rewrites url.URL.Path must rewrite RawPath the same way; otherwise EscapedPath() finds them inconsistent and silently re-encodes Path, discarding the client's percent-encoding (/app/a%2Fb forwarded as /a/b)")
	}
	c.ob(rule, "path-rewrites-found", c.method("Target", "rewrite").Pos(), n >= 1, false, "")
}

func sameFieldLoad(a, b ssa.Value) bool {
	fa, ba, ok1 := fieldLoad(a)
	fb, bb, ok2 := fieldLoad(b)
	return a == b || (ok1 && ok2 && fa == fb && ba == bb)
}

func r134(c *Ctx) {
	const rule = "R13.4 forwarding-header-trust"
	c.floor(rule, 5)
	fh := c.method("Target", "forwardHeaders")
	fwdF := c.field("TargetOptions", "ForwardHeaders")
	// (one call on every path: a single unconditional one, or one per branch)
	var sxfs []ssa.Instruction
	for _, cs := range callsToName(fh, "(*net/http/httputil.ProxyRequest).SetXForwarded") {
		sxfs = append(sxfs, cs.instr)
	}
	if !c.ob(rule, "forwardHeaders/SetXForwarded-called", fh.Pos(), len(sxfs) > 0, true, "") {
		return
	}
	isSXF := func(in ssa.Instruction) bool {
		for _, x := range sxfs {
			if x == in {
				return true
			}
		}
		return false
	}
	sxf := sxfs[0]
	_, skip := reach(fh, nil, isReturn, isSXF)
	// ... and exactly one: no path runs it twice (the second would append the client address again)
	twice := false
	for _, x := range sxfs {
		if _, again := reach(fh, x, isSXF, nil); again {
			twice = true
		}
	}
	c.ob(rule, "forwardHeaders/SetXForwarded-on-every-path", sxf.Pos(), !skip && !twice, true, "X-Forwarded-For/-Proto/-Host must always be (re)computed from the actual client connection, once")
	for _, t := range c.requestTouches() {
		if t.fn != fh {
			continue
		}
		on, _ := boolFacts(t.in, matchFieldLoad(fwdF))
		c.ob(rule, "forwardHeaders/"+t.hdr+"-client-value-only-when-forwarding", t.in.Pos(), on && t.side == "Out", true, "client-supplied forwarding headers may reach the outbound request only under options.ForwardHeaders")
		switch t.hdr {
		case "X-Forwarded-For":
			// every way on from the copy runs SetXForwarded, and none has run before it
			_, missed := reach(fh, t.in, isReturn, isSXF)
			_, before := reach(fh, nil, func(in ssa.Instruction) bool { return in == t.in }, func(in ssa.Instruction) bool { return false })
			ranBefore := false
			for _, x := range sxfs {
				if _, then := reach(fh, x, func(in ssa.Instruction) bool { return in == t.in }, nil); then {
					ranBefore = true
				}
			}
			c.ob(rule, "forwardHeaders/X-Forwarded-For-copied-before-SetXForwarded", t.in.Pos(), before && !missed && !ranBefore, true, "the client chain must be in place before SetXForwarded so that the client address is appended to it")
		default:
			domd := false
			for _, x := range sxfs {
				if dominates(x, t.in) {
					domd = true
				}
			}
			c.ob(rule, "forwardHeaders/"+t.hdr+"-override-after-SetXForwarded", t.in.Pos(), domd, true, "")
		}
		// value comes from the inbound (In) request's header of the same name
		srcOK := false
		switch x := t.in.(type) {
		case *ssa.MapUpdate:
			if l, ok := x.Value.(*ssa.Lookup); ok {
				if h, _ := constString(l.Index); h == t.hdr && sideOf(l.X) == "In" {
					srcOK = true
				}
			}
		case *ssa.Call:
			if g, ok := x.Call.Args[2].(*ssa.Call); ok && calleeName(g.Common()) == "(net/http.Header).Get" {
				if h, _ := constString(g.Call.Args[1]); h == t.hdr && sideOf(g.Call.Args[0]) == "In" {
					srcOK = true
				}
			}
		}
		c.ob(rule, "forwardHeaders/"+t.hdr+"-taken-from-same-inbound-header", t.in.Pos(), srcOK, true, "")
		if t.hdr == "X-Forwarded-For" {
			// the chain may span several header lines: it is handed on as the whole value list, and unconditionally (an
			// absent header must also be absent outbound, so that SetXForwarded starts a fresh chain)
			_, whole := t.in.(*ssa.MapUpdate)
			extra := 0
			for _, ce := range dominatingConds(t.in.Block()) {
				if f, _, ok := fieldLoad(ce.cond); ok && f == fwdF {
					continue
				}
				extra++
			}
			c.ob(rule, "forwardHeaders/X-Forwarded-For-handed-on-whole", t.in.Pos(), whole && srcOK && extra == 0, true, "every X-Forwarded-For line the client sent must reach the target (Header.Get / Set keep only the first), under no other condition than options.ForwardHeaders")
		}
	}
	rew := c.method("Target", "rewrite")
	okCall := false
	for _, cs := range callsTo(rew, fh) {
		_, skip := reach(rew, nil, isReturn, func(in ssa.Instruction) bool { return in == cs.instr })
		okCall = !skip && cs.common().Args[1] == ssa.Value(rew.Params[1])
	}
	c.ob(rule, "rewrite/always-applies-forwardHeaders", rew.Pos(), okCall, true, "")
}

// chainOf returns the constructor names wrapping the base handler, outermost first.
func (c *Ctx) handlerChain(fn *ssa.Function) ([]string, ssa.Value) {
	var names []string
	rets := normalReturns(fn)
	if len(rets) != 1 {
		return nil, nil
	}
	v := retVal(rets[0], 0)
	for i := 0; i < 10; i++ {
		v = stripConv(v)
		if e, ok := v.(*ssa.Extract); ok {
			v = e.Tuple
		}
		call, ok := v.(*ssa.Call)
		if !ok || call.Call.StaticCallee() == nil {
			return names, v
		}
		names = append(names, call.Call.StaticCallee().Name())
		// the wrapped handler is the last argument of type http.Handler
		var next ssa.Value
		for _, a := range call.Call.Args {
			if typeString(a.Type()) == "net/http.Handler" {
				next = a
			}
		}
		if next == nil {
			return names, nil
		}
		v = next
	}
	return names, v
}

func r135(c *Ctx, rule string) {
	c.floor(rule, 2)
	bh := c.method("Server", "buildHandler")
	names, base := c.handlerChain(bh)
	want := []string{"WithRequestStartMiddleware", "WithRequestIDMiddleware", "WithLoggingMiddleware", "WithErrorPageMiddleware"}
	c.ob(rule, "buildHandler/nesting", bh.Pos(), fmt.Sprint(names) == fmt.Sprint(want), true, fmt.Sprintf("outermost-first chain %v, want %v (request start/id outside logging so the id logged is the id forwarded; logging outside the root error pages so proxy-generated pages are counted)", names, want))
	okBase := false
	if base != nil {
		if f, _, ok := fieldLoad(stripConv(base)); ok && f.Name() == "router" {
			okBase = true
		}
	}
	c.ob(rule, "buildHandler/innermost-is-router", bh.Pos(), okBase, true, "")
	// both servers use this handler
	shs := c.method("Server", "startHTTPServers")
	cnt := 0
	var h ssa.Value
	for _, cs := range callsTo(shs, bh) {
		h = cs.instr.(*ssa.Call)
	}
	for _, b := range shs.Blocks {
		for _, in := range b.Instrs {
			if st, ok := in.(*ssa.Store); ok {
				if f, base, ok := fieldOfAddr(st.Addr); ok && f.Name() == "Handler" && namedOf(base.Type()) == "net/http.Server" && st.Val == h {
					cnt++
				}
			}
		}
	}
	c.ob(rule, "startHTTPServers/both-listeners-serve-the-chain", shs.Pos(), cnt == 2, true, "")
}

// rNoURLRewritingWrappers: http.StripPrefix (and friends) hand the next handler a COPY of the request with a rewritten
// URL - invisible to the who-may-touch table, which follows stores. Everything downstream (TLS redirect target, health
// check path test, access log, what the target receives) would be computed from the rewritten URL (shared by C13, C16).
func rNoURLRewritingWrappers(c *Ctx, rule string) {
	c.floor(rule, 1)
	n := 0
	for _, fn := range c.proxyFuncs() {
		for _, cs := range callsIn(fn) {
			switch calleeName(cs.common()) {
			case "net/http.StripPrefix", "net/http.RedirectHandler", "net/http.NewServeMux", "(*net/http.ServeMux).Handle", "(*net/http.ServeMux).HandleFunc":
				n++
				c.ob(rule, "url-rewriting-wrapper in "+fname(fn), cs.pos(), false, true, calleeName(cs.common())+" routes or rewrites by URL inside the library: the chain below would no longer see the client's URL")
			}
		}
	}
	c.ob(rule, "no-library-routing-or-prefix-stripping", c.method("Router", "ServeHTTP").Pos(), n == 0, true, "")
}
