package main

import (
	"fmt"
	"go/token"
	"go/types"
	"sort"

	"golang.org/x/tools/go/ssa"
)

func init() {
	register("C02", &propCheck{
		explain: "Decides the program-order skeleton every interleaving of a redeploy relies on: (R02.1) deploy steps are ordered gate < slot update < table install (nil-error branch) < drain of the REPLACED balancer < its disposal, and neither drain nor dispose ever touches the new balancer on the success path; (R02.2) in the probe callback the rotation refresh is never sequenced after the release of the deploy's waiters (otherwise a deploy can return while the new rotation is empty -> 503); (R02.3) the routing table is read and swapped under Router.serviceLock (lockset analysis of every access of Router.services / ServiceMap.services / requestServiceMap), and the request table is replaced wholesale by a freshly built map, never edited in place; (R02.4) complete inventory of proxy-generated error responses (status x function) against a frozen table, plus the ErrorDraining->503 conversion in LoadBalancer.ServeHTTP (known finding K1).",
		notDecided: []string{"arbitrary interleavings of >=2 requests with deploy steps and successive redeploys (only program order, lock atomicity and hand-off ordering are decided)", "unmodified response bytes (C13)", "the drain-timeout premise"},
		run:        checkC02,
	})
}

func checkC02(c *Ctx) {
	r021(c, "R02.1 deploy-step-order")
	r022(c)
	r023(c)
	r024(c, "R02.4 proxy-error-inventory")
	// in-flight requests are only cut off by the drain protocol's deadline (shared with C03)
	r031(c, "R02.5 in-flight-requests-survive-until-drain-deadline")
	// a redeploy keeps serving from the healthy balancers it already has (shared with C07/C01)
	r074(c, "R02.6 redeploy-carries-over-healthy-balancers")
	r012(c)
	r171b(c)
	// a rollout deploy works on the live service: its slot may be overwritten only with a balancer that passed the gate,
	// or requests of the rollout group are answered 503 while the new targets are still being probed (shared with C01)
	r011(c, "R02.7 slot-overwritten-only-after-health-gate")
	// what the deploy drains and disposes is the balancer that was replaced
	rSlotSwap(c, "R02.8 replaced-balancer-is-the-slot's-previous-occupant")
	// probe results are applied in the order the probes were made: a stalled early probe must not demote a target that
	// later probes found healthy and the deploy has put in service (shared with C09)
	r096(c, "R02.9 probing-discipline")
}

// R02.1 deploy step order.
func r021(c *Ctx, rule string) {
	c.floor(rule, 6)
	d := c.deployShape(rule)
	if d == nil {
		return
	}
	lb := ssa.Value(d.newLB)
	c.ob(rule, "deploy/slot-update-before-install", d.install.Pos(), dominates(d.update, d.install), true, "UpdateLoadBalancer(lb) must precede installService on every path")
	c.ob(rule, "deploy/install-installs-the-updated-service", d.install.Pos(), d.install.Call.Args[1] == d.update.Call.Args[0], true, "installService must be given the service whose slot was updated")
	drainAll := c.method("LoadBalancer", "DrainAll")
	dispose := c.method("LoadBalancer", "Dispose")
	var drains, disposes []callSite
	for _, cs := range callsTo(d.fn, drainAll) {
		drains = append(drains, cs)
	}
	for _, cs := range callsTo(d.fn, dispose) {
		disposes = append(disposes, cs)
	}
	nDrainReplaced := 0
	for _, cs := range drains {
		recv := resolve(cs.common().Args[0])
		isNil, _ := nilKnowledge(cs.instr, sameAs(d.instErr))
		if recv == d.replaced {
			nDrainReplaced++
			c.ob(rule, "deploy/drain-replaced-after-successful-install", cs.pos(), isNil && dominates(d.install, cs.instr), true, "the replaced balancer may be drained only after installService returned nil")
			_, nn := nilKnowledge(cs.instr, sameAs(d.replaced))
			c.ob(rule, "deploy/drain-replaced-nil-guard", cs.pos(), nn, true, "DrainAll on the replaced balancer must be guarded by replaced != nil")
		} else {
			c.ob(rule, "deploy/drain-only-the-replaced-balancer", cs.pos(), false, true, "DrainAll is applied to something other than the balancer returned by UpdateLoadBalancer")
		}
	}
	c.ob(rule, "deploy/replaced-balancer-is-drained", d.fn.Pos(), nDrainReplaced >= 1, true, "the replaced balancer must be drained")
	nDisposeReplaced := 0
	for _, cs := range disposes {
		recv := resolve(cs.common().Args[0])
		if sameBalancer(recv, d.newLB) {
			recv = lb
		}
		switch recv {
		case d.replaced:
			nDisposeReplaced++
			drained := false
			for _, dr := range drains {
				if resolve(dr.common().Args[0]) == d.replaced && dominates(dr.instr, cs.instr) {
					drained = true
				}
			}
			c.ob(rule, "deploy/dispose-replaced-after-drain", cs.pos(), drained, true, "Dispose of the replaced balancer must come after its DrainAll")
		case lb:
			_, waitFailed := nilKnowledge(cs.instr, sameAs(d.waitErr))
			_, instFailed := nilKnowledge(cs.instr, sameAs(d.instErr))
			c.ob(rule, "deploy/new-balancer-disposed-only-on-failure", cs.pos(), waitFailed || instFailed, true, "the new balancer may be disposed only on a failing branch (wait or install error)")
		default:
			c.ob(rule, "deploy/dispose-unknown-balancer", cs.pos(), false, true, "Dispose applied to an unrecognised balancer value")
		}
	}
	c.ob(rule, "deploy/replaced-balancer-is-disposed", d.fn.Pos(), nDisposeReplaced >= 1, true, "the replaced balancer must be disposed")
	// when replaced != nil no path to return skips drain+dispose
	for _, b := range d.fn.Blocks {
		if len(b.Instrs) == 0 {
			continue
		}
		_, nn := nilKnowledge(b.Instrs[0], sameAs(d.replaced))
		instNil, _ := nilKnowledge(b.Instrs[0], sameAs(d.instErr))
		if !nn || !instNil {
			continue
		}
		if b.Idom() != nil {
			if _, nn2 := nilKnowledge(b.Idom().Instrs[0], sameAs(d.replaced)); nn2 {
				continue
			}
		}
		isDrain := func(in ssa.Instruction) bool {
			ci, ok := in.(*ssa.Call)
			return ok && isCallTo(ci.Common(), drainAll) && ci.Call.Args[0] == d.replaced
		}
		isDisp := func(in ssa.Instruction) bool {
			ci, ok := in.(*ssa.Call)
			return ok && isCallTo(ci.Common(), dispose) && ci.Call.Args[0] == d.replaced
		}
		skipDrain, skipDisp := false, false
		if !isDrain(b.Instrs[0]) {
			_, skipDrain = reach(d.fn, b.Instrs[0], isReturn, isDrain)
		}
		if !isDisp(b.Instrs[0]) {
			_, skipDisp = reach(d.fn, b.Instrs[0], isReturn, isDisp)
		}
		c.ob(rule, "deploy/success-return-after-drain-and-dispose", b.Instrs[0].Pos(), !skipDrain && !skipDisp, true, "once a balancer was replaced, every path to return must pass DrainAll and Dispose on it (the command returns only when the old targets are quiescent and unprobed)")
	}
}

// containsInstr: does fn (or, through static module calls and closure
// arguments, anything it synchronously runs) contain an instruction matching pred?
func (c *Ctx) transitivelyContains(fn *ssa.Function, pred func(ssa.Instruction) bool, seen map[*ssa.Function]bool) bool {
	if fn == nil || seen[fn] || fn.Blocks == nil || !c.inModule(fn) {
		return false
	}
	seen[fn] = true
	for _, b := range fn.Blocks {
		for _, in := range b.Instrs {
			if pred(in) {
				return true
			}
			ci, ok := in.(ssa.CallInstruction)
			if !ok {
				continue
			}
			if _, isGo := in.(*ssa.Go); isGo {
				continue
			}
			cc := ci.Common()
			if cc.IsInvoke() {
				for _, t := range c.implementers(cc) {
					if c.transitivelyContains(t, pred, seen) {
						return true
					}
				}
			} else if sc := cc.StaticCallee(); sc != nil {
				if c.transitivelyContains(sc, pred, seen) {
					return true
				}
			}
			for _, a := range cc.Args {
				if cl := closureFunc(a); cl != nil && c.transitivelyContains(cl, pred, seen) {
					return true
				}
			}
		}
	}
	return false
}

// instrRuns: instruction in either matches pred itself or synchronously runs code that does.
func (c *Ctx) instrRuns(in ssa.Instruction, pred func(ssa.Instruction) bool) bool {
	if pred(in) {
		return true
	}
	ci, ok := in.(ssa.CallInstruction)
	if !ok {
		return false
	}
	if _, isGo := in.(*ssa.Go); isGo {
		return false
	}
	cc := ci.Common()
	seen := map[*ssa.Function]bool{}
	if cc.IsInvoke() {
		for _, t := range c.implementers(cc) {
			if c.transitivelyContains(t, pred, seen) {
				return true
			}
		}
	} else if sc := cc.StaticCallee(); sc != nil && c.transitivelyContains(sc, pred, seen) {
		return true
	}
	for _, a := range cc.Args {
		if cl := closureFunc(a); cl != nil && c.transitivelyContains(cl, pred, seen) {
			return true
		}
	}
	return false
}

func (c *Ctx) isCloseOf(field *types.Var) func(ssa.Instruction) bool {
	return func(in ssa.Instruction) bool {
		ci, ok := in.(ssa.CallInstruction)
		if !ok {
			return false
		}
		b, ok := ci.Common().Value.(*ssa.Builtin)
		return ok && b.Name() == "close" && isLoadOfField(ci.Common().Args[0], field)
	}
}

// R02.2 signal-after-rotation.
func r022(c *Ctx) {
	const rule = "R02.2 rotation-refresh-not-after-release"
	c.floor(rule, 2)
	hcc := c.method("Target", "HealthCheckCompleted")
	isRelease := c.isCloseOf(c.field("Target", "becameHealthy"))
	healthyF := c.field("LoadBalancer", "healthy")
	isRefresh := func(in ssa.Instruction) bool {
		st, ok := in.(*ssa.Store)
		if !ok {
			return false
		}
		f, _, ok := fieldOfAddr(st.Addr)
		return ok && f == healthyF
	}
	var releases, refreshes []ssa.Instruction
	for _, b := range hcc.Blocks {
		for _, in := range b.Instrs {
			if c.instrRuns(in, isRelease) {
				releases = append(releases, in)
			}
			if c.instrRuns(in, isRefresh) {
				refreshes = append(refreshes, in)
			}
		}
	}
	c.ob(rule, "HealthCheckCompleted/has-release", hcc.Pos(), len(releases) >= 1, false, "the probe callback must release becameHealthy waiters somewhere")
	c.ob(rule, "HealthCheckCompleted/has-refresh", hcc.Pos(), len(refreshes) >= 1, false, "the probe callback must (through the state consumer) rebuild LoadBalancer.healthy")
	for _, rel := range releases {
		later, found := reach(hcc, rel, func(in ssa.Instruction) bool {
			for _, r := range refreshes {
				if r == in {
					return true
				}
			}
			return false
		}, nil)
		detail := "no rotation refresh is sequenced after the release of becameHealthy waiters"
		if found {
			detail = fmt.Sprintf("a waiter released here can publish the balancer before the rotation refresh at %s has run: deploy returns while the new rotation is empty and requests get 503", c.pos(later.Pos()))
		}
		c.ob(rule, "HealthCheckCompleted/release-then-refresh", rel.Pos(), !found, true, detail)
	}
}

// guardedBy checks that every access of field f outside constructors holds lock
// (read mode for reads, write mode for writes).
func (c *Ctx) guardedBy(rule string, owner string, f *types.Var, lock *types.Var, exempt map[string]string) {
	li := c.lockInfo()
	type agg struct {
		ok     bool
		pos    ssa.Instruction
		detail string
	}
	seen := map[string]*agg{}
	var keys []string
	for _, a := range c.accessesOf(f) {
		fnn := fname(a.fn)
		kind := "read"
		need := modeR
		if a.write {
			kind = "write"
			need = modeW
		}
		key := fmt.Sprintf("%s %s.%s in %s", kind, owner, f.Name(), fnn)
		var ok bool
		var detail string
		if reason, ex := exempt[fname(outer(a.fn))]; ex {
			ok, detail = true, "exempt: "+reason
		} else if _, isAlloc := a.base.(*ssa.Alloc); isAlloc {
			ok, detail = true, "constructor phase: object freshly allocated in this function"
		} else {
			held := li.before(a.instr)
			ok = held[lock] >= need
			detail = fmt.Sprintf("requires %s (%s); must-hold lockset here: %s", lockName(lock), map[lockMode]string{modeR: "read", modeW: "write"}[need], held)
			if ok {
				if at := c.lockOnOtherObject(li, a, lock, need); at != "" {
					ok = false
					detail = fmt.Sprintf("%s is held here, but it was taken (at %s) on a different object than the one whose field is accessed", lockName(lock), at)
				}
			}
		}
		if prev, dup := seen[key]; dup {
			if prev.ok && !ok {
				prev.ok, prev.pos, prev.detail = false, a.instr, detail
			}
			continue
		}
		seen[key] = &agg{ok, a.instr, detail}
		keys = append(keys, key)
	}
	sort.Strings(keys)
	for _, k := range keys {
		a := seen[k]
		c.ob(rule, k, a.pos.Pos(), a.ok, true, a.detail)
	}
}

// R02.3 swap is atomic and total.
func r023(c *Ctx) {
	const rule = "R02.3 table-swap-under-router-lock"
	c.floor(rule, 12)
	lock := c.field("Router", "serviceLock")
	li := c.lockInfo()
	lockOwner[lock] = "Router"
	c.guardedBy(rule, "Router", c.field("Router", "services"), lock, map[string]string{"server.NewRouter": "constructor"})
	ctor := map[string]string{"server.NewServiceMap": "constructor"}
	c.guardedBy(rule, "ServiceMap", c.field("ServiceMap", "services"), lock, ctor)
	c.guardedBy(rule, "ServiceMap", c.field("ServiceMap", "requestServiceMap"), lock, ctor)
	for _, m := range []string{"Set", "Remove"} {
		fn := c.method("ServiceMap", m)
		c.ob(rule, "ServiceMap."+m+"/entered-with-write-lock", fn.Pos(), li.entryOf(fn)[lock] == modeW, true,
			fmt.Sprintf("every call path into ServiceMap.%s must hold Router.serviceLock for writing; entry lockset: %s", m, li.entryOf(fn)))
	}
	// (an in-place edit of the request table under the write lock would be race-free, so
	// "replaced wholesale" is deliberately not a rule; the lockset obligations above cover it)
	c.servicesWriteRebuilds(rule)
}

// servicesWriteRebuilds: both writers of ServiceMap.services rebuild the request table on every path (shared by C02, C04, C05, C16).
func (c *Ctx) servicesWriteRebuilds(rule string) {
	upd := c.method("ServiceMap", "updateRequestServiceMap")
	svc := c.field("ServiceMap", "services")
	for _, a := range c.accessesOf(svc) {
		if !a.write || fname(outer(a.fn)) == "server.NewServiceMap" {
			continue
		}
		isUpd := func(in ssa.Instruction) bool {
			ci, ok := in.(*ssa.Call)
			return ok && isCallTo(ci.Common(), upd)
		}
		_, skips := reach(a.fn, a.instr, isReturn, isUpd)
		c.ob(rule, "ServiceMap.services-write-rebuilds-table in "+fname(a.fn), a.instr.Pos(), !skips, true, "after changing ServiceMap.services every path must call updateRequestServiceMap before returning")
	}
}

// ---- R02.4: inventory of proxy-generated error responses ----

type errSite struct {
	fn     *ssa.Function
	instr  ssa.Instruction
	via    string // SetErrorResponse | http.Error | WriteHeader | http.Redirect
	status int64
	known  bool
}

func (c *Ctx) errorSites() []errSite {
	ser := c.fn("SetErrorResponse")
	var out []errSite
	for _, fn := range c.proxyFuncs() {
		for _, cs := range callsIn(fn) {
			cc := cs.common()
			name := calleeName(cc)
			var via string
			var arg ssa.Value
			switch {
			case isCallTo(cc, ser):
				via, arg = "SetErrorResponse", cc.Args[2]
			case name == "net/http.Error":
				via, arg = "http.Error", cc.Args[2]
			case name == "net/http.Redirect":
				via, arg = "http.Redirect", cc.Args[3]
			case name == "(net/http.ResponseWriter).WriteHeader":
				via, arg = "WriteHeader", cc.Args[0]
			default:
				continue
			}
			k, ok := constInt(arg)
			out = append(out, errSite{fn, cs.instr, via, k, ok})
		}
	}
	return out
}

// errorTable is the frozen cause table: function -> statuses it may emit.
var errorTable = map[string]map[int64]string{
	"(*server.Router).ServeHTTP":                              {404: "no service bound to host/path"},
	"(*server.Service).serviceRequestWithTarget":              {503: "TLS request for a service without TLS", 301: "TLS redirect"},
	"(*server.Service).handlePausedAndStoppedRequests":        {200: "health-check path while paused/stopped", 503: "stopped (operator message)", 504: "held longer than max-pause"},
	"(*server.Service).redirectToHTTPS":                       {301: "TLS redirect"},
	"(*server.LoadBalancer).ServeHTTP":                        {503: "no healthy target / target refused the claim"},
	"(*server.Target).handleProxyError":                       {413: "MaxBytesError", 504: "timeout or drained", 499: "client cancelled", 502: "any other target error"},
	"(*server.RequestBufferMiddleware).ServeHTTP":             {413: "request body over limit", 500: "buffering failed"},
	"(*server.ResponseBufferMiddleware).ServeHTTP":            {500: "response over limit / send failed"},
	"(*server.loggerResponseWriter).Hijack":                   {},
	"server.SetErrorResponse":                                 {-1: "fallback http.Error with the caller's status"},
	"(*server.ErrorPageMiddleware).respondWithErrorPage":      {-1: "writes the recorded status"},
	"(*server.loggerResponseWriter).WriteHeader":              {-1: "forwards the status"},
	"(*server.bufferedResponseWriter).Send":                   {-1: "forwards the buffered status"},
	"(*server.bufferedResponseWriter).WriteHeader":            {},
}

func r024(c *Ctx, rule string) {
	c.floor(rule, 15)
	for _, s := range c.errorSites() {
		fnn := fname(outer(s.fn))
		row, ok := errorTable[fnn]
		key := fmt.Sprintf("%s emits %s via %s", fnn, func() string {
			if s.known {
				return fmt.Sprint(s.status)
			}
			return "<dynamic>"
		}(), s.via)
		if !ok {
			c.ob(rule, key, s.instr.Pos(), false, false, "a response-status site in a function that is not in the frozen table of proxy-generated responses")
			continue
		}
		st := s.status
		if !s.known {
			st = -1
		}
		cause, ok := row[st]
		c.ob(rule, key, s.instr.Pos(), ok, false, func() string {
			if ok {
				return "cause: " + cause
			}
			return "this function is not expected to emit this status"
		}())
	}
	// K1: ErrorDraining must not be converted into an error response by the balancer
	serve := c.method("LoadBalancer", "ServeHTTP")
	claim := c.method("LoadBalancer", "claimTarget")
	start := c.method("Target", "StartRequest")
	drainingG := c.global(c.server, "ErrorDraining")
	returnsDraining := false
	for _, ret := range normalReturns(start) {
		for _, src := range phiSources(lastRet(ret)) {
			if u, ok := src.(*ssa.UnOp); ok && u.X == ssa.Value(drainingG) {
				returnsDraining = true
			}
		}
	}
	claimForwards := false
	for _, cs := range callsTo(claim, start) {
		call := cs.instr.(*ssa.Call)
		e := errResultOf(call)
		for _, ret := range normalReturns(claim) {
			if e != nil && lastRet(ret) == e {
				claimForwards = true
			}
		}
	}
	for _, cs := range callsTo(serve, claim) {
		call, ok := cs.instr.(*ssa.Call)
		if !ok {
			continue
		}
		e := errResultOf(call)
		for _, s := range c.errorSites() {
			if s.fn != serve {
				continue
			}
			_, onErr := nilKnowledge(s.instr, sameAs(e))
			if !onErr {
				continue
			}
			// is the site guarded by a test that excludes ErrorDraining?
			excluded := false
			for _, ce := range dominatingConds(s.instr.Block()) {
				if call, ok := ce.cond.(*ssa.Call); ok && calleeName(call.Common()) == "errors.Is" && !ce.taken {
					if u, ok := call.Call.Args[1].(*ssa.UnOp); ok && u.X == ssa.Value(drainingG) {
						excluded = true
					}
				}
			}
			bad := returnsDraining && claimForwards && !excluded
			c.ob(rule, "LoadBalancer.ServeHTTP/ErrorDraining-becomes-error-response", s.instr.Pos(), !bad, true,
				"a request that resolved its service before the swap (or passed the pause gate) and claims a target while Drain holds it in 'draining' gets StartRequest's ErrorDraining, which the balancer answers with a proxy error instead of re-resolving/retrying")
		}
	}
}

// rSlotSwap: UpdateLoadBalancer stores the new balancer into the slot its argument names and returns what that slot held
// just before - the caller drains and disposes the returned balancer, so returning the other slot's occupant takes the
// live balancer out of service and leaks the replaced one (shared by C02, C09).
func rSlotSwap(c *Ctx, rule string) {
	c.floor(rule, 4)
	fn := c.method("Service", "UpdateLoadBalancer")
	recv, lbP, slotP := ssa.Value(fn.Params[0]), ssa.Value(fn.Params[1]), ssa.Value(fn.Params[2])
	activeF, rolloutF := c.field("Service", "active"), c.field("Service", "rollout")
	rolloutK := c.enumVal(c.server, "TargetSlotRollout")
	slotOf := func(conds []condEdge) *types.Var {
		var out *types.Var
		for _, f := range intFactsOf(conds, func(v ssa.Value) bool { return resolve(v) == slotP || v == slotP }) {
			switch {
			case f.op == token.EQL && f.k == rolloutK:
				out = rolloutF
			case f.op == token.NEQ && f.k == rolloutK:
				out = activeF
			case f.op == token.EQL:
				out = activeF
			}
		}
		return out
	}
	name := func(f *types.Var) string {
		if f == nil {
			return "?"
		}
		return f.Name()
	}
	type storeEv struct {
		in    *ssa.Store
		field *types.Var
	}
	var stores []storeEv
	seenSlot := map[*types.Var]bool{}
	for _, b := range fn.Blocks {
		for _, in := range b.Instrs {
			st, ok := in.(*ssa.Store)
			if !ok {
				continue
			}
			for _, vc := range valueCases(st.Addr, st.Block()) {
				f, base, ok := fieldOfAddr(vc.val)
				if !ok || (f != activeF && f != rolloutF) || base != recv {
					continue
				}
				want := slotOf(vc.conds)
				stores = append(stores, storeEv{st, f})
				seenSlot[f] = true
				c.ob(rule, "UpdateLoadBalancer/stores-into-the-named-slot ("+f.Name()+")", st.Pos(), want == f && resolve(st.Val) == lbP, true,
					fmt.Sprintf("the slot written must be the one the slot argument names (argument says %s) and the value the balancer passed in", name(want)))
			}
		}
	}
	c.ob(rule, "UpdateLoadBalancer/writes-both-slots", fn.Pos(), seenSlot[activeF] && seenSlot[rolloutF], true, "")
	for _, rc := range retCases(fn) {
		v := rc.vals[0]
		u, ok := v.(*ssa.UnOp)
		if !ok || u.Op != token.MUL {
			c.ob(rule, "UpdateLoadBalancer/returns-previous-occupant", rc.pos, false, true, "the result is not a value read from a slot")
			continue
		}
		for _, ac := range valueCases(u.X, u.Block()) {
			f, base, ok := fieldOfAddr(ac.val)
			want := slotOf(append(append([]condEdge{}, ac.conds...), rc.conds...))
			before := true
			for _, st := range stores {
				if st.field == f && !dominates(u, st.in) {
					before = false // read after (or beside) the store: that is the new balancer, or not on the path at all
				}
			}
			c.ob(rule, "UpdateLoadBalancer/returns-previous-occupant", rc.pos, ok && base == recv && want != nil && f == want && before, true,
				fmt.Sprintf("the balancer returned (which the deploy then drains and disposes) must be what the named slot held before the store: returns s.%s where the argument names %s", name(f), name(want)))
		}
	}
}

// lockOnOtherObject: the lock is a field of the same struct type as the accessed field, it is not already held when the
// accessing function is entered, and every acquisition in that function that covers the access is made on another object
// than the one whose field is accessed (`copy.lock.Lock(); ... = live.field`): the position of such an acquisition, else "".
func (c *Ctx) lockOnOtherObject(li *LockInfo, a fieldAccess, lock *types.Var, need lockMode) string {
	if li.entryOf(a.fn)[lock] >= need || a.base == nil {
		return ""
	}
	sameObj, otherObj := false, ""
	for _, cs := range callsIn(a.fn) {
		op, isOp := lockOpOf(cs.common())
		if !isOp || !op.acquire || op.field != lock {
			continue
		}
		_, lbase, _ := fieldOfAddr(cs.common().Args[0])
		if lbase == nil || !types.Identical(lbase.Type(), a.base.Type()) {
			return "" // the lock lives in another kind of object (a table guarded by its owner's lock): not instance-paired
		}
		if _, isDefer := cs.instr.(*ssa.Defer); isDefer {
			continue
		}
		if !dominates(cs.instr, a.instr) {
			continue
		}
		if resolve(lbase) == resolve(a.base) {
			sameObj = true
		} else {
			otherObj = c.pos(cs.pos())
		}
	}
	if !sameObj {
		return otherObj
	}
	return ""
}
