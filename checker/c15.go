package main

import (
	"fmt"
	"go/token"
	"go/types"
	"net/http"
	"os"
	"path/filepath"
	"sort"
	"strings"

	"golang.org/x/tools/go/ssa"
)

func init() {
	register("C15", &propCheck{
		explain: "Decides the classification and cleanup structure for target failures: (R15.1) each target's ReverseProxy gets its own http.Transport literal whose ResponseHeaderTimeout is that target's options.ResponseTimeout, and ErrorHandler is handleProxyError; (R15.2) handleProxyError is total and ordered: MaxBytesError->413, net.Error.Timeout()->504, context.Canceled->499, ErrorDraining->504, otherwise 502, every path answering exactly once; the predicates test what their names say; (R15.3) every status the proxy can put into an error response has a built-in page embedded in internal/pages, the outermost page layer is the root; (R15.4) no residue: after a successful claim the request is sent; SendRequest DEFERS endInflightRequest (so it runs on ReverseProxy's abort panic) keyed by the request StartRequest registered; endInflightRequest deletes under the lock and releases the context; nothing in the proxy recovers from panics (the abort must reach net/http so a response cut mid-body is never presented as complete).",
		notDecided: []string{"promptness", "mid-body truncation visibility is the library's (ReverseProxy aborts the handler): trusted", "behaviour of real sockets"},
		run:        checkC15,
	})
}

func checkC15(c *Ctx) {
	r151(c, "R15.1 proxy-configuration")
	r152(c, "R15.2 error-classification")
	r153(c)
	r154(c, "R15.4 failed-request-leaves-nothing-behind")
	r155(c, "R15.5 late-failure-stays-visible")
	// a response buffer's spill file is released on every way out of the middleware, a target dying mid-body included
	// (shared with C14)
	r141(c, "R15.7 spill-file-pairing")
	// an error page for a target that failed before sending anything must not find the status already committed
	rSendNoEmptyWrite(c, "R15.8 nothing-written-when-nothing-buffered")
	// the target timeout (what turns a silent target into a 504) is a per-service setting that outlives the process
	persistedFields(c, "R15.6 target-settings-survive-restart", "TargetOptions", nil)
}

func r151(c *Ctx, rule string) {
	c.floor(rule, 4)
	cph := c.method("Target", "createProxyHandler")
	hpe := c.method("Target", "handleProxyError")
	var lit, tr *ssa.Alloc
	for _, b := range cph.Blocks {
		for _, in := range b.Instrs {
			if a, ok := in.(*ssa.Alloc); ok {
				switch namedOf(a.Type()) {
				case "net/http/httputil.ReverseProxy":
					lit = a
				case "net/http.Transport":
					tr = a
				}
			}
		}
	}
	if !c.ob(rule, "createProxyHandler/own-ReverseProxy-and-Transport-literals", cph.Pos(), lit != nil && tr != nil, true, "each target must build its own proxy and transport (a shared/cached transport keeps another deployment's timeout)") {
		return
	}
	fieldsOf := func(a *ssa.Alloc) map[string]ssa.Value {
		m := map[string]ssa.Value{}
		for _, r := range *a.Referrers() {
			if fa, ok := r.(*ssa.FieldAddr); ok {
				f, _, _ := fieldOfAddr(fa)
				for _, rr := range *fa.Referrers() {
					if st, ok := rr.(*ssa.Store); ok {
						m[f.Name()] = st.Val
					}
				}
			}
		}
		return m
	}
	pf, tf := fieldsOf(lit), fieldsOf(tr)
	c.ob(rule, "ReverseProxy/Transport-is-the-fresh-literal", lit.Pos(), pf["Transport"] != nil && stripConv(pf["Transport"]) == ssa.Value(tr), true, "")
	ch, base := fieldPath(tf["ResponseHeaderTimeout"])
	c.ob(rule, "Transport/ResponseHeaderTimeout=options.ResponseTimeout", tr.Pos(), len(ch) == 2 && ch[0].Name() == "options" && ch[1].Name() == "ResponseTimeout" && base == ssa.Value(cph.Params[0]), true, "a target that sends no response headers within --target-timeout must fail the round trip with a timeout error (-> 504)")
	c.ob(rule, "ReverseProxy/ErrorHandler=handleProxyError", lit.Pos(), pf["ErrorHandler"] != nil && isFuncValueOf(pf["ErrorHandler"], hpe), true, "without it the library answers a bare 502 with no page and no log context")
	// NewTarget uses createProxyHandler on the new target, options stored before
	nt := c.fn("NewTarget")
	okNT := false
	for _, cs := range callsTo(nt, cph) {
		for _, w := range c.writesOfField(c.field("Target", "options")) {
			if w.fn == nt && w.val == ssa.Value(nt.Params[1]) || (w.fn == nt && resolve(w.val) == ssa.Value(nt.Params[1])) {
				if dominates(w.instr, cs.instr) {
					okNT = true
				}
			}
		}
	}
	c.ob(rule, "NewTarget/proxy-built-from-this-target's-options", nt.Pos(), okNT, true, "")
}

func r152(c *Ctx, rule string) {
	c.floor(rule, 12)
	hpe := c.method("Target", "handleProxyError")
	// the four classifying tests, found by what they test (the predicate helpers of the reference tree - isDraining & co -
	// are de-anchored: always expanded into handleProxyError)
	want := map[string]int64{"too-large": 413, "timeout": 504, "client-cancel": 499, "draining": 504, "default": 502}
	predCalls := c.proxyErrorPredicates(hpe)
	for _, k := range []string{"too-large", "timeout", "client-cancel", "draining"} {
		c.ob(rule, "handleProxyError/tests-"+k, hpe.Pos(), predCalls[k] != nil, true, "the error passed to the handler must be classified ("+k+")")
	}
	seen := map[string]bool{}
	for _, s := range c.errorSites() {
		if s.fn != hpe {
			continue
		}
		// which predicate is known true here; which are known false
		cause := "default"
		falses := 0
		for k, call := range predCalls {
			t, f := boolFacts(s.instr, sameAs(call))
			if call == nil {
				continue
			}
			if t {
				cause = k
			}
			if f {
				falses++
			}
		}
		seen[cause] = true
		ok := s.known && s.status == want[cause]
		if cause == "default" {
			ok = ok && falses == len(predCalls)
		}
		c.ob(rule, fmt.Sprintf("handleProxyError/%s=>%d", cause, want[cause]), s.instr.Pos(), ok, true, fmt.Sprintf("cause %q must be answered %d (502 only when no specific cause matched)", cause, want[cause]))
		// after answering, return without another response
		_, again := reach(hpe, s.instr, func(in ssa.Instruction) bool {
			for _, s2 := range c.errorSites() {
				if s2.fn == hpe && s2.instr == in {
					return true
				}
			}
			return false
		}, nil)
		c.ob(rule, fmt.Sprintf("handleProxyError/%s-answers-once", cause), s.instr.Pos(), !again, true, "")
	}
	for k := range want {
		c.ob(rule, "handleProxyError/covers-"+k, hpe.Pos(), seen[k], true, "")
	}
	// every return is preceded by a response
	for _, ret := range normalReturns(hpe) {
		// no path from the entry reaches this return without passing a response site
		sites := map[ssa.Instruction]bool{}
		for _, s := range c.errorSites() {
			if s.fn == hpe {
				sites[s.instr] = true
			}
		}
		_, silent := reach(hpe, nil, func(in ssa.Instruction) bool { return in == ssa.Instruction(ret) }, func(in ssa.Instruction) bool { return sites[in] })
		answered := len(sites) > 0 && !silent
		c.ob(rule, "handleProxyError/no-silent-return", ret.Pos(), answered, true, "every path must write a response")
	}
	// order: timeout classified before draining / default; too-large first irrelevant. Require timeout test dominates the draining test
	if predCalls["timeout"] != nil && predCalls["draining"] != nil {
		ti, ok1 := predCalls["timeout"].(ssa.Instruction)
		di, ok2 := predCalls["draining"].(ssa.Instruction)
		c.ob(rule, "handleProxyError/timeout-before-draining", hpe.Pos(), ok1 && ok2 && dominates(ti, di), true, "")
	}
	// what each test tests is part of how it was found (proxyErrorPredicates): errors.Is(err, context.Canceled),
	// errors.Is(err, ErrorDraining), errors.As(err, *http.MaxBytesError), errors.As(err, &net.Error) && .Timeout()
	for _, k := range []string{"isClientCancellation/is-errors.Is(err, context.Canceled)", "isDraining/is-errors.Is(err, ErrorDraining)", "isGatewayTimeout/net.Error.Timeout()", "isRequestEntityTooLarge/*http.MaxBytesError"} {
		key := map[string]string{"isClientCancellation/is-errors.Is(err, context.Canceled)": "client-cancel", "isDraining/is-errors.Is(err, ErrorDraining)": "draining", "isGatewayTimeout/net.Error.Timeout()": "timeout", "isRequestEntityTooLarge/*http.MaxBytesError": "too-large"}[k]
		c.ob(rule, k, hpe.Pos(), predCalls[key] != nil, true, "")
	}
}

// proxyErrorPredicates: the values handleProxyError branches on to classify its error argument, keyed by cause. A
// value counts when everything it can be other than constant false is the classifying call itself.
func (c *Ctx) proxyErrorPredicates(hpe *ssa.Function) map[string]ssa.Value {
	errParam := ssa.Value(hpe.Params[3])
	isErr := func(v ssa.Value) bool { return resolve(v) == errParam }
	classify := func(v ssa.Value) string {
		call, ok := v.(*ssa.Call)
		if !ok {
			return ""
		}
		switch {
		case calleeName(call.Common()) == "errors.Is" && isErr(call.Call.Args[0]):
			if u, isU := call.Call.Args[1].(*ssa.UnOp); isU {
				if g, isG := u.X.(*ssa.Global); isG {
					switch g.Pkg.Pkg.Path() + "." + g.Name() {
					case "context.Canceled":
						return "client-cancel"
					case modulePath + "/internal/server.ErrorDraining":
						return "draining"
					}
				}
			}
		case calleeName(call.Common()) == "errors.As" && isErr(call.Call.Args[0]):
			if mi, ok := call.Call.Args[1].(*ssa.MakeInterface); ok && strings.Contains(typeString(mi.X.Type()), "net/http.MaxBytesError") {
				return "too-large"
			}
		case call.Call.IsInvoke() && call.Call.Method.Name() == "Timeout" && typeString(call.Call.Value.Type()) == "net.Error":
			// the net.Error examined is the one errors.As(err, &netErr) filled in, on its true branch
			if u, isU := call.Call.Value.(*ssa.UnOp); isU {
				for _, cs := range callsToName(hpe, "errors.As") {
					as := cs.instr.(*ssa.Call)
					if !isErr(as.Call.Args[0]) {
						continue
					}
					if mi, ok := as.Call.Args[1].(*ssa.MakeInterface); ok && mi.X == u.X {
						if t, _ := boolFacts(call, sameAs(as)); t {
							return "timeout"
						}
					}
				}
			}
		}
		return ""
	}
	out := map[string]ssa.Value{}
	for _, b := range hpe.Blocks {
		if len(b.Instrs) == 0 {
			continue
		}
		ifi, ok := b.Instrs[len(b.Instrs)-1].(*ssa.If)
		if !ok {
			continue
		}
		v := ifi.Cond
		for {
			u, isU := v.(*ssa.UnOp)
			if !isU || u.Op != token.NOT {
				break
			}
			v = u.X
		}
		var nonFalse []ssa.Value
		for _, src := range phiSources(v) {
			if bl, isC := constBool(src); isC && !bl {
				continue
			}
			nonFalse = append(nonFalse, src)
		}
		if len(nonFalse) != 1 {
			continue
		}
		if k := classify(nonFalse[0]); k != "" {
			out[k] = v
		}
	}
	return out
}

func r153(c *Ctx) {
	const rule = "R15.3 every-status-has-a-built-in-page"
	c.floor(rule, 5)
	ents, err := os.ReadDir(filepath.Join(c.repo, "internal", "pages"))
	pages := map[string]bool{}
	for _, e := range ents {
		if strings.HasSuffix(e.Name(), ".html") {
			pages[strings.TrimSuffix(e.Name(), ".html")] = true
		}
	}
	c.ob(rule, "internal/pages/readable", c.fn("SetErrorResponse").Pos(), err == nil && len(pages) > 0, false, fmt.Sprintf("%d embedded pages", len(pages)))
	statuses := map[int64]ssa.Instruction{}
	for _, s := range c.errorSites() {
		if s.via == "SetErrorResponse" {
			if !s.known {
				c.ob(rule, "SetErrorResponse/dynamic-status in "+fname(s.fn), s.instr.Pos(), false, true, "a non-constant status cannot be matched against the embedded pages")
				continue
			}
			statuses[s.status] = s.instr
		}
	}
	var keys []int64
	for k := range statuses {
		keys = append(keys, k)
	}
	sort.Slice(keys, func(i, j int) bool { return keys[i] < keys[j] })
	for _, k := range keys {
		c.ob(rule, fmt.Sprintf("status %d/has-embedded-page", k), statuses[k].Pos(), pages[fmt.Sprint(k)], true, fmt.Sprintf("internal/pages/%d.html must exist for every status passed to SetErrorResponse", k))
	}
	// embed directive covers *.html
	src, _ := os.ReadFile(filepath.Join(c.repo, "internal", "pages", "embed.go"))
	c.ob(rule, "internal/pages/embeds-all-html", c.fn("SetErrorResponse").Pos(), strings.Contains(string(src), "//go:embed *.html"), true, "")
	r084(c, "R15.3b page-nesting-root-layer")
}

func r154(c *Ctx, rule string) {
	c.floor(rule, 7)
	serve := c.method("LoadBalancer", "ServeHTTP")
	claim := c.method("LoadBalancer", "claimTarget")
	send := c.method("Target", "SendRequest")
	end := c.method("Target", "endInflightRequest")
	start := c.method("Target", "StartRequest")
	// after a successful claim, the request is sent on the claimed target with the registered request
	okSend := false
	for _, cs := range callsTo(serve, claim) {
		call := cs.instr.(*ssa.Call)
		for _, sc := range callsTo(serve, send) {
			isNil, _ := nilKnowledge(sc.instr, sameAs(errResultOf(call)))
			if isNil && sc.common().Args[0] == resultOf(call, 0) && sc.common().Args[2] == resultOf(call, 1) {
				_, skip := reach(serve, call, isReturn, func(in ssa.Instruction) bool {
					return in == sc.instr || func() bool {
						for _, s := range c.errorSites() {
							if s.instr == in {
								return true
							}
						}
						return false
					}()
				})
				okSend = !skip
			}
		}
	}
	c.ob(rule, "LoadBalancer.ServeHTTP/claimed-request-is-sent", serve.Pos(), okSend, true, "after a successful claim every path must SendRequest(claimed target, registered request) - otherwise the registration is never removed")
	// claimTarget returns StartRequest's request
	okReg := false
	for _, cs := range callsTo(claim, start) {
		call := cs.instr.(*ssa.Call)
		for _, ret := range normalReturns(claim) {
			if retVal(ret, 1) == resultOf(call, 0) {
				okReg = true
			}
		}
	}
	c.ob(rule, "claimTarget/returns-the-registered-request", claim.Pos(), okReg, true, "")
	// SendRequest: deferred endInflightRequest(req) before the proxy handler runs
	var handler ssa.Instruction
	for _, cs := range callsIn(send) {
		if cs.common().IsInvoke() && cs.common().Method.Name() == "ServeHTTP" {
			handler = cs.instr
		}
	}
	okDefer := false
	for _, cs := range callsTo(send, end) {
		if d, ok := cs.instr.(*ssa.Defer); ok && handler != nil && dominates(d, handler) && d.Call.Args[1] == ssa.Value(send.Params[2]) && d.Call.Args[0] == ssa.Value(send.Params[0]) {
			okDefer = true
		}
	}
	c.ob(rule, "SendRequest/end-of-request-is-deferred", send.Pos(), okDefer, true, "endInflightRequest(req) must be DEFERRED before the proxy handler runs: ReverseProxy ends a request whose target died mid-body with panic(http.ErrAbortHandler), which skips a plain call")
	if handler != nil {
		c.ob(rule, "SendRequest/handler-gets-the-registered-request", handler.Pos(), handler.(*ssa.Call).Call.Args[1] == ssa.Value(send.Params[2]), true, "")
	}
	// endInflightRequest: under the lock: delete + cancel
	li := c.lockInfo()
	lock := c.field("Target", "inflightLock")
	inflightF := c.field("Target", "inflight")
	var del, cancel bool
	for _, cs := range callsIn(end) {
		if b, ok := cs.common().Value.(*ssa.Builtin); ok && b.Name() == "delete" && isLoadOfField(cs.common().Args[0], inflightF) && cs.common().Args[1] == ssa.Value(end.Params[1]) && li.holds(cs.instr, lock, modeW) {
			del = true
		}
		if isLoadOfField(cs.common().Value, c.field("inflightRequest", "cancel")) {
			cancel = true
		}
	}
	c.ob(rule, "endInflightRequest/removes-registration-under-lock", end.Pos(), del, true, "")
	c.ob(rule, "endInflightRequest/releases-context", end.Pos(), cancel, true, "")
	// StartRequest registers under the request it returns
	okKey := false
	for _, b := range start.Blocks {
		for _, in := range b.Instrs {
			if mu, ok := in.(*ssa.MapUpdate); ok && isLoadOfField(mu.Map, inflightF) {
				for _, ret := range normalReturns(start) {
					if retVal(ret, 0) == mu.Key {
						okKey = true
					}
				}
			}
		}
	}
	c.ob(rule, "StartRequest/registered-under-the-returned-request", start.Pos(), okKey, true, "the key in Target.inflight must be the very *http.Request handed on (lookup and removal use it)")
	// nothing recovers from panics
	n := 0
	for _, fn := range c.proxyFuncs() {
		for _, cs := range callsIn(fn) {
			if b, ok := cs.common().Value.(*ssa.Builtin); ok && b.Name() == "recover" {
				n++
				c.ob(rule, "recover() in "+fname(fn), cs.pos(), false, true, "the proxy must not swallow panics on the request path: ReverseProxy signals a response cut mid-body with panic(http.ErrAbortHandler), and net/http must see it to abort the connection instead of completing the response")
			}
		}
	}
	c.ob(rule, "no-recover-in-proxy", send.Pos(), n == 0, true, "whole internal/server scanned")
}

// mayWriteResponse: module functions that can write to the client's http.ResponseWriter (directly, through a wrapper,
// through the next handler, or by handing the writer to an io.Writer consumer), transitively over static callees and
// closures created in them.
func (c *Ctx) mayWriteResponse() map[*ssa.Function]bool {
	isRW := func(t types.Type) bool { return namedOf(t) == "net/http.ResponseWriter" }
	strip := func(v ssa.Value) ssa.Value {
		for {
			switch x := v.(type) {
			case *ssa.ChangeInterface:
				v = x.X
			case *ssa.MakeInterface:
				v = x.X
			default:
				return v
			}
		}
	}
	prim := func(cc *ssa.CallCommon) bool {
		if cc.IsInvoke() {
			switch cc.Method.Name() {
			case "WriteHeader", "ServeHTTP":
				return true
			case "Write", "WriteString", "ReadFrom", "Flush":
				return isRW(cc.Value.Type())
			}
			return false
		}
		switch calleeName(cc) {
		case "net/http.Error", "net/http.Redirect", "net/http.NotFound", "net/http.ServeContent", "net/http.ServeFile":
			return true
		}
		// the writer handed on as a plain io.Writer (io.Copy, Buffer.Send, template execution, ...)
		for _, a := range cc.Args {
			if u := strip(a); u != a && isRW(u.Type()) && !isRW(a.Type()) {
				return true
			}
		}
		return false
	}
	funcs := c.proxyFuncs()
	out := map[*ssa.Function]bool{}
	for changed := true; changed; {
		changed = false
		for _, fn := range funcs {
			if out[fn] {
				continue
			}
			hit := false
			for _, cs := range callsIn(fn) {
				cc := cs.common()
				if prim(cc) {
					hit = true
				} else if callee := cc.StaticCallee(); callee != nil && (out[callee] || (callee.Origin() != nil && out[callee.Origin()])) {
					hit = true
				} else if mc, ok := cc.Value.(*ssa.MakeClosure); ok && out[mc.Fn.(*ssa.Function)] {
					hit = true
				}
			}
			for _, a := range fn.AnonFuncs {
				if out[a] {
					hit = true
				}
			}
			if hit {
				out[fn] = true
				changed = true
			}
		}
	}
	return out
}

// R15.5 A target that fails after its header block was relayed makes ReverseProxy panic(http.ErrAbortHandler); the
// client sees the failure only if that panic reaches net/http with the response still incomplete. Two things in the
// proxy's own code can hide it: code that runs DURING the unwinding (deferred) and completes the response, and a
// framing header (Content-Length / Transfer-Encoding) computed by the proxy from what it happened to receive.
func r155(c *Ctx, rule string) {
	c.floor(rule, 8)
	writes := c.mayWriteResponse()
	n := 0
	for _, fn := range c.proxyFuncs() {
		for _, b := range fn.Blocks {
			for _, in := range b.Instrs {
				d, ok := in.(*ssa.Defer)
				if !ok {
					continue
				}
				n++
				var callee *ssa.Function
				if mc, isMC := d.Call.Value.(*ssa.MakeClosure); isMC {
					callee = mc.Fn.(*ssa.Function)
				} else {
					callee = d.Call.StaticCallee()
				}
				name := calleeName(&d.Call)
				if callee != nil {
					name = fname(callee)
				} else if name == "" {
					name = "func value " + typeString(d.Call.Value.Type())
				}
				bad := false
				switch {
				case callee != nil:
					bad = writes[callee] || (callee.Origin() != nil && writes[callee.Origin()])
				case d.Call.IsInvoke():
					bad = d.Call.Method.Name() == "ServeHTTP" || d.Call.Method.Name() == "WriteHeader" || d.Call.Method.Name() == "Write"
				}
				c.ob(rule, "defer "+name+" in "+fname(fn)+" writes no response", d.Pos(), !bad, true, "deferred code also runs while a mid-body abort (panic(http.ErrAbortHandler)) unwinds: if it can write to the client it can turn a truncated response into one that looks complete")
			}
		}
	}
	c.ob(rule, "deferred-calls-inventoried", token.NoPos, n >= 8, false, fmt.Sprintf("%d deferred calls in the module", n))
	// the proxy computes no framing header for a response
	for _, t := range c.requestTouches() {
		if t.side != "response" && t.side != "own" {
			continue
		}
		if !strings.HasPrefix(t.what, "header:") || t.what == "header:del" {
			continue
		}
		h := http.CanonicalHeaderKey(t.hdr)
		if t.side == "own" && h != "Content-Length" && h != "Transfer-Encoding" {
			continue
		}
		okH := h != "Content-Length" && h != "Transfer-Encoding" && h != "Trailer" && h != ""
		c.ob(rule, fname(outer(t.fn))+" sets response header "+t.hdr, t.in.Pos(), okH, true, "Content-Length / Transfer-Encoding of a relayed response must stay the target's: a length derived from the bytes received so far makes a cut-off body self-consistent")
	}
}
