package main

import (
	"go/token"
	"go/types"
	"sort"
	"strings"

	"golang.org/x/tools/go/ssa"
)

// Lockset engine (E3/E4).  Locks are identified by the struct field that
// holds the mutex (object-insensitive: all Targets share "Target.inflightLock").
// The analysis computes, for every instruction of every module function, the
// set of locks that MUST be held there:
//   - intraprocedurally by a forward must-dataflow over the SSA CFG
//     (Lock/RLock add, Unlock/RUnlock remove, a deferred Unlock keeps the lock
//     to the end of the function);
//   - interprocedurally by a fixpoint on function entry locksets: the entry
//     lockset of f is the intersection, over all places f is entered from
//     module code, of the lockset held there.  A closure passed as an argument
//     is entered wherever the callee invokes that parameter (this is how the
//     with*Lock(fn) wrappers are understood, with no name matching); a closure
//     passed to a non-module or dynamic callee is assumed to be invoked
//     synchronously at the call (sync.Once.Do, slices.SortFunc, range-over-func
//     iterators); a `go` statement and a `defer` enter with the empty set.
type lockMode int

const (
	modeNone lockMode = 0
	modeR    lockMode = 1
	modeW    lockMode = 2
)

type lockset map[*types.Var]lockMode

func (l lockset) clone() lockset {
	o := lockset{}
	for k, v := range l {
		o[k] = v
	}
	return o
}

func meet(a, b lockset) lockset {
	o := lockset{}
	for k, v := range a {
		if w, ok := b[k]; ok {
			if w < v {
				v = w
			}
			o[k] = v
		}
	}
	return o
}

func union(a, b lockset) lockset {
	o := a.clone()
	for k, v := range b {
		if v > o[k] {
			o[k] = v
		}
	}
	return o
}

func equalLS(a, b lockset) bool {
	if len(a) != len(b) {
		return false
	}
	for k, v := range a {
		if b[k] != v {
			return false
		}
	}
	return true
}

func (l lockset) String() string {
	var s []string
	for k, v := range l {
		m := "R"
		if v == modeW {
			m = "W"
		}
		s = append(s, lockName(k)+":"+m)
	}
	sort.Strings(s)
	return "{" + strings.Join(s, ",") + "}"
}

var lockOwner = map[*types.Var]string{}

func lockName(f *types.Var) string {
	if n, ok := lockOwner[f]; ok {
		return n + "." + f.Name()
	}
	return f.Name()
}

type lockOp struct {
	field   *types.Var
	mode    lockMode
	acquire bool
}

// lockOpOf recognises sync.Mutex / sync.RWMutex operations on a struct field.
func lockOpOf(cc *ssa.CallCommon) (lockOp, bool) {
	name := calleeName(cc)
	var op lockOp
	switch name {
	case "(*sync.Mutex).Lock", "(*sync.RWMutex).Lock":
		op = lockOp{mode: modeW, acquire: true}
	case "(*sync.RWMutex).RLock":
		op = lockOp{mode: modeR, acquire: true}
	case "(*sync.Mutex).Unlock", "(*sync.RWMutex).Unlock":
		op = lockOp{mode: modeW}
	case "(*sync.RWMutex).RUnlock":
		op = lockOp{mode: modeR}
	default:
		return op, false
	}
	if len(cc.Args) == 0 {
		return op, false
	}
	f, base, ok := fieldOfAddr(cc.Args[0])
	if !ok {
		return op, false
	}
	op.field = f
	if st := derefNamed(base.Type()); st != nil {
		lockOwner[f] = st.Obj().Name()
	}
	return op, true
}

func derefNamedNoPtr(t types.Type) *types.Named {
	n, _ := t.(*types.Named)
	return n
}

func derefNamed(t types.Type) *types.Named {
	if p, ok := t.Underlying().(*types.Pointer); ok {
		t = p.Elem()
	}
	n, _ := t.(*types.Named)
	return n
}

type entryEdge struct {
	from  *ssa.Function
	site  ssa.Instruction // lockset taken just before this instruction
	kind  string
	outer ssa.Instruction // for closures entered through a wrapper: the call that passed the closure (its lockset is added)
}

type LockInfo struct {
	may     bool // may-hold (union) instead of must-hold (intersection)
	w       *World
	entry   map[*ssa.Function]lockset
	hasEdge map[*ssa.Function]bool
	edges   map[*ssa.Function][]entryEdge // callee -> entries
	blockIn map[*ssa.BasicBlock]lockset
	allLock lockset // top element
	// paramCalls[g][i] = instructions in g that invoke parameter i
	paramCalls map[*ssa.Function]map[int][]ssa.Instruction
	acq        map[*ssa.Function][]acqSite // direct acquisitions per function
}

type acqSite struct {
	instr ssa.Instruction
	op    lockOp
}

func (w *World) lockInfo() *LockInfo { return w.lockInfoMode(false) }

// mayLockInfo: locks that MAY be held (union over callers and paths); used for lock-order and blocking-under-lock.
func (w *World) mayLockInfo() *LockInfo { return w.lockInfoMode(true) }

func (w *World) lockInfoMode(may bool) *LockInfo {
	if !may && w.locks != nil {
		return w.locks
	}
	if may && w.mayLocks != nil {
		return w.mayLocks
	}
	li := &LockInfo{may: may, w: w, entry: map[*ssa.Function]lockset{}, hasEdge: map[*ssa.Function]bool{}, edges: map[*ssa.Function][]entryEdge{},
		blockIn: map[*ssa.BasicBlock]lockset{}, allLock: lockset{}, paramCalls: map[*ssa.Function]map[int][]ssa.Instruction{}, acq: map[*ssa.Function][]acqSite{}}
	if may {
		w.mayLocks = li
	} else {
		w.locks = li
	}
	inMod := map[*ssa.Function]bool{}
	for _, f := range w.modFuncs {
		inMod[f] = true
	}
	// discover locks and param calls
	for _, f := range w.modFuncs {
		for _, b := range f.Blocks {
			for _, in := range b.Instrs {
				ci, ok := in.(ssa.CallInstruction)
				if !ok {
					continue
				}
				if op, ok := lockOpOf(ci.Common()); ok {
					li.allLock[op.field] = modeW
					if _, isDefer := in.(*ssa.Defer); !isDefer && op.acquire {
						li.acq[f] = append(li.acq[f], acqSite{in, op})
					}
				}
				if i, ok := paramIndex(f, ci.Common().Value); ok && !ci.Common().IsInvoke() {
					if li.paramCalls[f] == nil {
						li.paramCalls[f] = map[int][]ssa.Instruction{}
					}
					li.paramCalls[f][i] = append(li.paramCalls[f][i], in)
				}
			}
		}
	}
	// entry edges
	add := func(callee *ssa.Function, e entryEdge) {
		if callee == nil || !inMod[callee] {
			return
		}
		li.edges[callee] = append(li.edges[callee], e)
		li.hasEdge[callee] = true
	}
	for _, f := range w.modFuncs {
		for _, b := range f.Blocks {
			for _, in := range b.Instrs {
				ci, ok := in.(ssa.CallInstruction)
				if !ok {
					continue
				}
				cc := ci.Common()
				kind := "call"
				switch in.(type) {
				case *ssa.Go:
					kind = "go"
				case *ssa.Defer:
					kind = "defer"
				}
				var targets []*ssa.Function
				if cc.IsInvoke() {
					targets = w.implementers(cc)
				} else if sc := cc.StaticCallee(); sc != nil {
					targets = []*ssa.Function{sc}
				}
				if sc := cc.StaticCallee(); sc != nil && !cc.IsInvoke() && kind == "call" && sc.Signature.Recv() != nil && len(cc.Args) > 0 && inMod[sc] && freshUnpublishedAt(w, cc.Args[0], in) {
					continue // a method run on an object nobody else can see yet: not a place the method is entered from with shared state
				}
				for _, t := range targets {
					add(t, entryEdge{from: f, site: in, kind: kind})
				}
				// calling the closure a module function returned (iterator pattern: m.All()(yield))
				if len(targets) == 0 && !cc.IsInvoke() {
					if rc, ok := cc.Value.(*ssa.Call); ok {
						if g := rc.Call.StaticCallee(); g != nil && inMod[g] {
							for _, cl := range returnedClosures(g) {
								add(cl, entryEdge{from: f, site: in, kind: kind})
								targets = append(targets, cl)
							}
						}
					}
				}
				// closures / function values passed as arguments
				for ai, a := range cc.Args {
					cl := closureFunc(a)
					if cl == nil {
						continue
					}
					handled := false
					for _, t := range targets {
						if !inMod[t] {
							continue
						}
						// index among callee params (receiver is param 0 for methods in SSA)
						if sites := li.paramCalls[t][ai]; len(sites) > 0 {
							for _, s := range sites {
								add(cl, entryEdge{from: t, site: s, kind: "param-call", outer: in})
							}
							handled = true
						} else if t != nil {
							// callee stores or forwards the function: unknown entry
							add(cl, entryEdge{from: nil, site: nil, kind: "escapes"})
							handled = true
						}
					}
					if !handled {
						if kind == "call" {
							add(cl, entryEdge{from: f, site: in, kind: "sync-callback"})
						} else {
							add(cl, entryEdge{from: nil, site: nil, kind: kind})
						}
					}
				}
			}
		}
	}
	// functions used as values elsewhere (method values, handler funcs): unknown entry
	for _, f := range w.modFuncs {
		for _, b := range f.Blocks {
			for _, in := range b.Instrs {
				if _, isCall := in.(ssa.CallInstruction); isCall {
					continue
				}
				for _, op := range in.Operands(nil) {
					if op == nil || *op == nil {
						continue
					}
					if mc, ok := (*op).(*ssa.MakeClosure); ok {
						_ = mc
						continue // MakeClosure value itself: its use decides
					}
					if fn, ok := (*op).(*ssa.Function); ok && inMod[fn] {
						if _, isMC := in.(*ssa.MakeClosure); isMC {
							continue
						}
						add(fn, entryEdge{from: nil, site: nil, kind: "value"})
					}
				}
			}
		}
	}
	// closures whose MakeClosure result is used other than as call value/arg: unknown entry
	for _, f := range w.modFuncs {
		for _, b := range f.Blocks {
			for _, in := range b.Instrs {
				mc, ok := in.(*ssa.MakeClosure)
				if !ok {
					continue
				}
				cl, _ := mc.Fn.(*ssa.Function)
				if cl == nil || !inMod[cl] {
					// bound method value of a module method: unknown entry
					if cl != nil && cl.Synthetic != "" && cl.Object() != nil {
						if target := w.prog.FuncValue(cl.Object().(*types.Func)); target != nil && inMod[target] {
							add(target, entryEdge{from: nil, site: nil, kind: "bound-method-value"})
						}
					}
					continue
				}
				for _, r := range *mc.Referrers() {
					if onlyReturned(r) && resultOnlyCalled(w, f) {
						continue // entered where the caller invokes the returned closure (handled above)
					}
					ci, isCall := r.(ssa.CallInstruction)
					if isCall && (ci.Common().Value == mc || containsValue(ci.Common().Args, mc)) {
						if ci.Common().Value == mc {
							k := "call"
							switch r.(type) {
							case *ssa.Go:
								k = "go"
							case *ssa.Defer:
								k = "defer"
							}
							add(cl, entryEdge{from: f, site: r, kind: k})
						}
						continue
					}
					add(cl, entryEdge{from: nil, site: nil, kind: "escapes"})
				}
			}
		}
	}
	// dynamic entry from outside the module: a module type converted to a
	// non-module interface (http.Handler, http.ResponseWriter, io.ReadCloser,
	// any, ...) can have its exported methods invoked by foreign code; JSON
	// (un)marshalling methods are invoked by reflection.
	for _, f := range w.modFuncs {
		for _, b := range f.Blocks {
			for _, in := range b.Instrs {
				mi, ok := in.(*ssa.MakeInterface)
				if !ok {
					continue
				}
				nt := derefNamed(mi.X.Type())
				if nt == nil || nt.Obj().Pkg() == nil || !strings.HasPrefix(nt.Obj().Pkg().Path(), modulePath) {
					continue
				}
				if it := derefNamedNoPtr(mi.Type()); it != nil && it.Obj().Pkg() != nil && strings.HasPrefix(it.Obj().Pkg().Path(), modulePath) {
					continue // module interface: only module code invokes it (invoke edges above)
				}
				ms := w.prog.MethodSets.MethodSet(mi.X.Type())
				for i := 0; i < ms.Len(); i++ {
					if !ms.At(i).Obj().Exported() {
						continue
					}
					if m := w.prog.MethodValue(ms.At(i)); m != nil {
						if m.Synthetic != "" {
							if fo, ok := ms.At(i).Obj().(*types.Func); ok {
								m = w.prog.FuncValue(fo)
							}
						}
						add(m, entryEdge{from: nil, site: nil, kind: "foreign-interface"})
					}
				}
			}
		}
	}
	for _, f := range w.modFuncs {
		if f.Parent() == nil && (f.Name() == "MarshalJSON" || f.Name() == "UnmarshalJSON") {
			add(f, entryEdge{from: nil, site: nil, kind: "reflection"})
		}
	}
	// fixpoint
	for _, f := range w.modFuncs {
		if li.hasEdge[f] && !li.may {
			li.entry[f] = li.allLock.clone()
		} else {
			li.entry[f] = lockset{}
		}
	}
	for iter := 0; iter < 50; iter++ {
		changed := false
		li.blockIn = map[*ssa.BasicBlock]lockset{}
		for _, f := range w.modFuncs {
			li.solve(f)
		}
		for _, f := range w.modFuncs {
			if !li.hasEdge[f] {
				continue
			}
			var acc lockset
			for _, e := range li.edges[f] {
				var ls lockset
				if e.site == nil || e.kind == "go" || e.kind == "defer" {
					ls = lockset{}
				} else {
					ls = li.before(e.site)
					if e.outer != nil {
						if _, isGo := e.outer.(*ssa.Go); !isGo {
							if _, isDefer := e.outer.(*ssa.Defer); !isDefer {
								ls = union(ls, li.before(e.outer))
							}
						}
					}
				}
				if acc == nil {
					acc = ls.clone()
				} else {
					acc = li.join(acc, ls)
				}
			}
			if acc == nil {
				acc = lockset{}
			}
			if !equalLS(acc, li.entry[f]) {
				li.entry[f] = acc
				changed = true
			}
		}
		if !changed {
			break
		}
	}
	li.blockIn = map[*ssa.BasicBlock]lockset{}
	for _, f := range w.modFuncs {
		li.solve(f)
	}
	return li
}

func containsValue(vs []ssa.Value, v ssa.Value) bool {
	for _, x := range vs {
		if x == v {
			return true
		}
	}
	return false
}

// closureFunc: the module function denoted by a function-typed argument
// (closure literal or plain function); nil otherwise.
func closureFunc(v ssa.Value) *ssa.Function {
	switch x := v.(type) {
	case *ssa.MakeClosure:
		f, _ := x.Fn.(*ssa.Function)
		if f != nil && f.Synthetic != "" && !strings.Contains(f.Synthetic, "range-over-func") {
			return nil // bound method wrappers handled as values
		}
		return f
	case *ssa.Function:
		if x.Signature.Recv() == nil && x.Blocks != nil {
			return x
		}
	case *ssa.ChangeType:
		return closureFunc(x.X)
	}
	return nil
}

// paramIndex: v denotes parameter i of f (directly, or via its cell).
func paramIndex(f *ssa.Function, v ssa.Value) (int, bool) {
	v = resolve(v)
	for i, p := range f.Params {
		if v == ssa.Value(p) {
			return i, true
		}
	}
	return 0, false
}

// implementers resolves an interface method call to the module methods that can implement it.
func (w *World) implementers(cc *ssa.CallCommon) []*ssa.Function {
	iface, ok := cc.Value.Type().Underlying().(*types.Interface)
	if !ok {
		return nil
	}
	var out []*ssa.Function
	seen := map[*ssa.Function]bool{}
	for _, f := range w.modFuncs {
		nt := recvNamed(f)
		if nt == nil || f.Name() != cc.Method.Name() || f.Parent() != nil {
			continue
		}
		for _, t := range []types.Type{nt, types.NewPointer(nt)} {
			if types.Implements(t, iface) {
				if !seen[f] {
					seen[f] = true
					out = append(out, f)
				}
			}
		}
	}
	return out
}

func (li *LockInfo) transfer(ls lockset, in ssa.Instruction) lockset {
	ci, ok := in.(ssa.CallInstruction)
	if !ok {
		return ls
	}
	if _, isDefer := in.(*ssa.Defer); isDefer {
		return ls
	}
	if _, isGo := in.(*ssa.Go); isGo {
		return ls
	}
	op, ok := lockOpOf(ci.Common())
	if !ok {
		return ls
	}
	o := ls.clone()
	if op.acquire {
		if op.mode > o[op.field] {
			o[op.field] = op.mode
		}
	} else {
		delete(o, op.field)
	}
	return o
}

func (li *LockInfo) solve(f *ssa.Function) {
	if len(f.Blocks) == 0 {
		return
	}
	top := li.allLock
	if li.may {
		top = lockset{}
	}
	in := map[*ssa.BasicBlock]lockset{}
	out := map[*ssa.BasicBlock]lockset{}
	for _, b := range f.Blocks {
		in[b] = top.clone()
		out[b] = top.clone()
	}
	in[f.Blocks[0]] = li.entry[f].clone()
	for changed := true; changed; {
		changed = false
		for _, b := range f.Blocks {
			var cur lockset
			if b == f.Blocks[0] {
				cur = li.entry[f].clone()
			} else if len(b.Preds) == 0 {
				cur = lockset{} // recover block etc.
			} else {
				for i, p := range b.Preds {
					if i == 0 {
						cur = out[p].clone()
					} else {
						cur = li.join(cur, out[p])
					}
				}
			}
			if !equalLS(cur, in[b]) {
				in[b] = cur
				changed = true
			}
			for _, ins := range b.Instrs {
				cur = li.transfer(cur, ins)
			}
			if !equalLS(cur, out[b]) {
				out[b] = cur
				changed = true
			}
		}
	}
	for b, ls := range in {
		li.blockIn[b] = ls
	}
}

// before returns the must-hold lockset just before instruction in.
func (li *LockInfo) before(in ssa.Instruction) lockset {
	b := in.Block()
	cur, ok := li.blockIn[b]
	if !ok {
		li.solve(b.Parent())
		cur = li.blockIn[b]
	}
	cur = cur.clone()
	for _, x := range b.Instrs {
		if x == in {
			break
		}
		cur = li.transfer(cur, x)
	}
	return cur
}

func (li *LockInfo) entryOf(f *ssa.Function) lockset { return li.entry[f] }

func (li *LockInfo) holds(in ssa.Instruction, lock *types.Var, mode lockMode) bool {
	return li.before(in)[lock] >= mode
}

// fieldAccess is one read or write of a struct field.
type fieldAccess struct {
	fn    *ssa.Function
	instr ssa.Instruction
	field *types.Var
	write bool
	base  ssa.Value
}

// accessesOf enumerates all reads and writes of field f in module code.
// A FieldAddr whose address is only used as the receiver of mutex operations
// is not an access.  A FieldAddr that escapes otherwise (passed to a call) is
// reported as a write (conservative).
func (w *World) accessesOf(f *types.Var) []fieldAccess {
	var out []fieldAccess
	for _, fn := range w.modFuncs {
		for _, b := range fn.Blocks {
			for _, in := range b.Instrs {
				switch x := in.(type) {
				case *ssa.FieldAddr:
					fv, base, ok := fieldOfAddr(x)
					if !ok || fv != f {
						continue
					}
					for _, r := range *x.Referrers() {
						switch u := r.(type) {
						case *ssa.Store:
							if u.Addr == x {
								out = append(out, fieldAccess{fn, u, f, true, base})
							} else {
								out = append(out, fieldAccess{fn, u, f, true, base}) // address stored elsewhere: escapes
							}
						case *ssa.UnOp:
							if u.Op == token.MUL {
								// a load of a map/slice-typed field followed by MapUpdate/IndexAddr-store is a write to the structure
								out = append(out, fieldAccess{fn, u, f, loadedValueIsMutated(u), base})
							}
						case ssa.CallInstruction:
							// the field's address is passed to a call: a write unless the callee is a module function that only reads through that parameter
							out = append(out, fieldAccess{fn, r, f, addrArgMayBeWritten(w, u, x), base})
						case *ssa.Phi:
							// the field's address is one of several a pointer may hold: what is done through the pointer
							wr := false
							if u.Referrers() != nil {
								for _, pr := range *u.Referrers() {
									if st, isSt := pr.(*ssa.Store); isSt && st.Addr == ssa.Value(u) {
										wr = true
										out = append(out, fieldAccess{fn, st, f, true, base})
									} else if ld, isLd := pr.(*ssa.UnOp); isLd && ld.Op == token.MUL {
										out = append(out, fieldAccess{fn, ld, f, false, base})
									}
								}
							}
							_ = wr
						case *ssa.FieldAddr:
							// nested struct field: the inner field is analysed on its own; for the outer field this is a read
							out = append(out, fieldAccess{fn, r, f, false, base})
						case *ssa.IndexAddr:
							// array element
							out = append(out, fieldAccess{fn, r, f, addrIsStoredThrough(r.(ssa.Value)), base})
						default:
							out = append(out, fieldAccess{fn, r, f, false, base})
						}
					}
				case *ssa.Field:
					st, _ := x.X.Type().Underlying().(*types.Struct)
					if st != nil && st.Field(x.Field) == f {
						out = append(out, fieldAccess{fn, in, f, false, x.X})
					}
				}
			}
		}
	}
	return out
}

func loadedValueIsMutated(u *ssa.UnOp) bool {
	for _, r := range *u.Referrers() {
		switch x := r.(type) {
		case *ssa.MapUpdate:
			if x.Map == u {
				return true
			}
		case *ssa.IndexAddr:
			if x.X == u && addrIsStoredThrough(x) {
				return true
			}
		case ssa.CallInstruction:
			if b, ok := x.Common().Value.(*ssa.Builtin); ok && b.Name() == "delete" && len(x.Common().Args) > 0 && x.Common().Args[0] == u {
				return true
			}
		}
	}
	return false
}

func addrIsStoredThrough(v ssa.Value) bool {
	refs := v.Referrers()
	if refs == nil {
		return false
	}
	for _, r := range *refs {
		switch x := r.(type) {
		case *ssa.Store:
			if x.Addr == v {
				return true
			}
		case *ssa.FieldAddr:
			if addrIsStoredThrough(x) {
				return true
			}
		case *ssa.IndexAddr:
			if addrIsStoredThrough(x) {
				return true
			}
		}
	}
	return false
}

// returnedClosures: closures that function g returns directly.
func returnedClosures(g *ssa.Function) []*ssa.Function {
	var out []*ssa.Function
	for _, ret := range returnsOf(g) {
		for _, r := range ret.Results {
			if mc, ok := stripConv(r).(*ssa.MakeClosure); ok {
				if cl, ok := mc.Fn.(*ssa.Function); ok {
					out = append(out, cl)
				}
			}
		}
	}
	return out
}

// resultOnlyCalled: every use of g's result in the module is an immediate call of it.
func resultOnlyCalled(w *World, g *ssa.Function) bool {
	for _, u := range w.usesOfFunc(g) {
		call, ok := u.instr.(*ssa.Call)
		if !ok || u.kind != "call" {
			return false
		}
		for _, r := range *call.Referrers() {
			ci, ok := r.(ssa.CallInstruction)
			if !ok || ci.Common().Value != ssa.Value(call) {
				return false
			}
			if _, isGo := r.(*ssa.Go); isGo {
				return false
			}
		}
	}
	return true
}

// onlyReturned: instruction r is a Return, or a conversion whose only uses are Returns.
func onlyReturned(r ssa.Instruction) bool {
	switch x := r.(type) {
	case *ssa.Return:
		return true
	case *ssa.ChangeType:
		for _, rr := range *x.Referrers() {
			if !onlyReturned(rr) {
				return false
			}
		}
		return true
	}
	return false
}

func (li *LockInfo) join(a, b lockset) lockset {
	if li.may {
		return union(a, b)
	}
	return meet(a, b)
}

// addrArgMayBeWritten: addr is passed to call; false only when the callee is a module function with a body
// that never stores through (or re-exports) the corresponding parameter.
func addrArgMayBeWritten(w *World, call ssa.CallInstruction, addr ssa.Value) bool {
	cc := call.Common()
	sc := cc.StaticCallee()
	if sc == nil || sc.Blocks == nil || !w.inModule(sc) {
		return true
	}
	for i, a := range cc.Args {
		if a != addr || i >= len(sc.Params) {
			continue
		}
		if paramMayBeWritten(w, sc.Params[i], 0) {
			return true
		}
	}
	return false
}

func paramMayBeWritten(w *World, p ssa.Value, depth int) bool {
	if depth > 4 || p.Referrers() == nil {
		return depth > 4
	}
	for _, r := range *p.Referrers() {
		switch x := r.(type) {
		case *ssa.Store:
			return true // stored through, or the pointer itself stored somewhere
		case *ssa.FieldAddr:
			if paramMayBeWritten(w, x, depth+1) {
				return true
			}
		case *ssa.IndexAddr:
			if paramMayBeWritten(w, x, depth+1) {
				return true
			}
		case *ssa.UnOp, *ssa.DebugRef:
		case ssa.CallInstruction:
			if _, isLock := lockOpOf(x.Common()); isLock {
				continue
			}
			if addrArgMayBeWritten(w, x, p) {
				return true
			}
		case *ssa.MakeInterface, *ssa.MakeClosure, *ssa.Phi, *ssa.Return:
			return true
		}
	}
	return false
}

// freshUnpublishedAt: the receiver v of the method call at `site` is an object this function created itself (a heap
// allocation, or the result of a module constructor that returns one) and has not handed to anyone by the time the call
// is made: up to there it was only kept in a local variable and used as the receiver of its own methods. Such an object
// is not shared yet, and a method run on it needs none of the locks that guard the published instance
// (`m := NewServiceMap(); m.Set(s); ...; lock(); r.services = m`).
func freshUnpublishedAt(w *World, v ssa.Value, site ssa.Instruction) bool {
	fn := site.Parent()
	mayPrecede := func(in ssa.Instruction) bool {
		if in == site {
			return false
		}
		if in.Block() == site.Block() && instrIdx(in) < instrIdx(site) {
			return true
		}
		// reachable through at least one edge
		seen := map[*ssa.BasicBlock]bool{}
		stack := append([]*ssa.BasicBlock{}, in.Block().Succs...)
		for len(stack) > 0 {
			b := stack[len(stack)-1]
			stack = stack[:len(stack)-1]
			if seen[b] {
				continue
			}
			seen[b] = true
			if b == site.Block() {
				return true
			}
			stack = append(stack, b.Succs...)
		}
		return false
	}
	var isFresh func(x ssa.Value, depth int) bool
	isFresh = func(x ssa.Value, depth int) bool {
		switch y := x.(type) {
		case *ssa.Alloc:
			return y.Heap
		case *ssa.Call:
			g := y.Call.StaticCallee()
			if g == nil || depth > 2 || len(g.Blocks) == 0 || g.Signature.Results().Len() != 1 {
				return false
			}
			inMod := false
			for _, f := range w.modFuncs {
				if f == g {
					inMod = true
					break
				}
			}
			if !inMod {
				return false
			}
			n := 0
			for _, b := range g.Blocks {
				for _, in := range b.Instrs {
					ret, ok := in.(*ssa.Return)
					if !ok {
						continue
					}
					n++
					a, ok := ret.Results[0].(*ssa.Alloc)
					if !ok || !a.Heap {
						return false
					}
					// inside the constructor the object is only filled in
					for _, r := range *a.Referrers() {
						switch z := r.(type) {
						case *ssa.Return, *ssa.DebugRef:
						case *ssa.FieldAddr:
							for _, rr := range *z.Referrers() {
								if st, ok := rr.(*ssa.Store); !ok || st.Addr != ssa.Value(z) {
									return false
								}
							}
						default:
							return false
						}
					}
				}
			}
			return n > 0
		}
		return false
	}
	// uses of the object itself before the site: receiver of its own methods, field reads
	usesOK := func(obj ssa.Value) bool {
		if obj.Referrers() == nil {
			return false
		}
		for _, r := range *obj.Referrers() {
			if !mayPrecede(r) {
				continue
			}
			switch z := r.(type) {
			case *ssa.DebugRef:
			case *ssa.FieldAddr:
				for _, rr := range *z.Referrers() {
					switch q := rr.(type) {
					case *ssa.UnOp:
					case *ssa.Store:
						if q.Addr != ssa.Value(z) {
							return false
						}
					case *ssa.DebugRef:
					default:
						return false
					}
				}
			case *ssa.Call:
				g := z.Call.StaticCallee()
				if g == nil || g.Signature.Recv() == nil || len(z.Call.Args) == 0 || z.Call.Args[0] != obj {
					return false
				}
				for _, a := range z.Call.Args[1:] {
					if a == obj {
						return false
					}
				}
			case *ssa.Store:
				// kept in a local variable of this function (checked by the caller for the cell case)
				if z.Val == obj {
					return false
				}
			default:
				return false
			}
		}
		return true
	}
	_ = fn
	if u, ok := v.(*ssa.UnOp); ok && u.Op == token.MUL {
		cell, ok := u.X.(*ssa.Alloc)
		if !ok || cell.Referrers() == nil {
			return false
		}
		for _, r := range *cell.Referrers() {
			switch z := r.(type) {
			case *ssa.DebugRef:
			case *ssa.Store:
				if z.Addr != ssa.Value(cell) || !isFresh(z.Val, 0) {
					return false
				}
				// the fresh value itself goes nowhere else
				for _, rr := range *z.Val.Referrers() {
					if rr != ssa.Instruction(z) {
						if _, dbg := rr.(*ssa.DebugRef); !dbg {
							return false
						}
					}
				}
			case *ssa.UnOp:
				if mayPrecede(z) || z == u {
					if !usesOK(z) {
						return false
					}
				}
			default:
				// captured by a closure, address taken, ...: fine only after the site
				if mayPrecede(r) {
					return false
				}
			}
		}
		return true
	}
	return isFresh(v, 0) && usesOK(v)
}
