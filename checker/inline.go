package main

import (
	"go/parser"
	"golang.org/x/tools/go/ast/astutil"
	"bytes"
	_ "embed"
	"fmt"
	"go/ast"
	"go/printer"
	"go/token"
	"go/types"
	"os"
	"reflect"
	"sort"
	"strings"

	"golang.org/x/tools/go/packages"
)

// Transparent-helper inlining.
//
// The rules are keyed to the functions of the reference tree (the anchors).
// A behaviour-preserving refactoring very often moves a few statements of an
// anchored function into a NEW helper function or method; analysed as is, the
// anchored function then no longer shows the ordering / guard / pairing the
// rule looks for, and the check would raise a false alarm.  To see through
// such refactorings the analyzer flattens them away before building SSA:
// every function declared in the module that does not exist in the reference
// tree (baseline_funcs.txt) and that is simple enough is inlined at its call
// sites by a source-to-source rewrite, and the rewritten files are handed to
// go/packages as an overlay.  On the reference tree nothing is inlined.
//
// A call  x, err := h(a, b)  becomes
//
//	var _inl1_r0 T0; var _inl1_r1 T1
//	_inl1: for {
//	    p, q := (P)(a), (Q)(b)        // parameters (and receiver)
//	    <body of h, with `return e0, e1` => `_inl1_r0, _inl1_r1 = e0, e1; break _inl1`>
//	    break _inl1
//	}
//	x, err := _inl1_r0, _inl1_r1
//
// (the one-trip labelled loop has no back edge in the CFG).  If anything goes
// wrong (the rewritten program does not type-check) the analyzer falls back to
// the program as written and says so in the evidence notes.

//go:embed baseline_funcs.txt
var baselineFuncsTxt string

var baselineSig = map[string]string{}

func sigString(f *types.Func) string {
	// (parameter and result names left out: renaming a parameter does not make it another function)
	sig := f.Type().(*types.Signature)
	anon := func(t *types.Tuple) *types.Tuple {
		var vs []*types.Var
		for i := 0; i < t.Len(); i++ {
			vs = append(vs, types.NewVar(token.NoPos, nil, "", t.At(i).Type()))
		}
		return types.NewTuple(vs...)
	}
	return types.TypeString(types.NewSignatureType(nil, nil, nil, anon(sig.Params()), anon(sig.Results()), sig.Variadic()), nil)
}

// sameParams: the parameter lists of two signature strings ("func(a T) R") agree (results may differ: a result that was
// never used may have been dropped).
func sameParams(a, b string) bool {
	cut := func(s string) string {
		depth := 0
		for i, r := range s {
			switch r {
			case '(':
				depth++
			case ')':
				depth--
				if depth == 0 {
					return s[:i+1]
				}
			}
		}
		return s
	}
	return cut(a) == cut(b)
}

var baselineFuncs = func() map[string]bool {
	m := map[string]bool{}
	for _, l := range strings.Split(baselineFuncsTxt, "\n") {
		l = strings.TrimSpace(l)
		if l != "" && !strings.HasPrefix(l, "#") {
			name, sig, _ := strings.Cut(l, "\t")
			m[name] = true
			baselineSig[name] = sig
		}
	}
	for _, d := range deanchored {
		delete(m, d)
	}
	return m
}()

func isDeanchored(full string) bool {
	for _, d := range deanchored {
		if d == full {
			return true
		}
	}
	return false
}

// deanchored: small helpers of the reference tree that the rules do NOT anchor on. They are expanded into their callers
// like any new helper, on the reference tree too, so that the rules see one normal form whether such a helper exists,
// was renamed, reshaped (other parameters) or folded into its caller.
var deanchored = []string{
	"(*" + modulePath + "/internal/server.HealthCheck).reportResult",
	"(*" + modulePath + "/internal/server.LoadBalancer).nextTarget",
	"(*" + modulePath + "/internal/server.LoadBalancer).beginHealthChecks",
	"(*" + modulePath + "/internal/server.Service).shouldRedirectToHTTPS",
	"(*" + modulePath + "/internal/server.Service).redirectToHTTPS",
	"(*" + modulePath + "/internal/server.ErrorPageMiddleware).getTemplate",
	"(*" + modulePath + "/internal/server.ErrorPageMiddleware).writeErrorWithoutTemplate",
	"(*" + modulePath + "/internal/server.RequestIDMiddleware).generateID",
	"(*" + modulePath + "/internal/server.LoggingMiddleware).retrieveCustomHeaders",
	"(*" + modulePath + "/internal/server.Target).isRequestEntityTooLarge",
	"(*" + modulePath + "/internal/server.Target).isGatewayTimeout",
	"(*" + modulePath + "/internal/server.Target).isClientCancellation",
	"(*" + modulePath + "/internal/server.Target).isDraining",
	"(*" + modulePath + "/internal/server.Buffer).discardSpill",
	"(*" + modulePath + "/internal/server.Router).findOrCreateService",
	"(*" + modulePath + "/internal/cmd.listCommand).displayResponse",
	"(*" + modulePath + "/internal/server.Router).writeStateFile",
	"(*" + modulePath + "/internal/server.Buffer).writeToMemory",
	"(*" + modulePath + "/internal/server.Buffer).writeToDisk",
	"(*" + modulePath + "/internal/server.TargetOptions).canonicalizeLogHeaders",
	"(*" + modulePath + "/internal/server.RolloutController).splitValue",
	"(*" + modulePath + "/internal/server.RolloutController).valueInAllowlist",
	"(*" + modulePath + "/internal/server.RolloutController).valueInRolloutPercentage",
	"(*" + modulePath + "/internal/server.RolloutController).hashForValue",
}

// inlineSeq numbers expansions across all rounds of one run (labels and temporaries must stay unique when a later round
// expands inside the output of an earlier one).
var inlineSeq int

//go:embed baseline_fields.txt
var baselineFieldsTxt string

var baselineFieldType = map[string]string{}

var baselineFields = func() map[string]bool {
	m := map[string]bool{}
	for _, l := range strings.Split(baselineFieldsTxt, "\n") {
		l = strings.TrimSpace(l)
		if l != "" && !strings.HasPrefix(l, "#") {
			key, typ, _ := strings.Cut(l, "\t")
			m[key] = true
			baselineFieldType[key] = typ
		}
	}
	return m
}()

// inlineMinimal: second attempt after a failed rewrite - expand only the de-anchored helpers of the reference tree (the
// rules assume those are expanded) and leave everything else as written.
var inlineMinimal bool

// renamedAnchors: old full name -> new full name of a function of the reference tree that was (only) renamed.
var renamedAnchors = map[string]string{}

type inliner struct {
	fset    *token.FileSet
	pkgs    []*packages.Package
	decls   map[*types.Func]*ast.FuncDecl
	declPkg map[*types.Func]*packages.Package
	declFil map[*types.Func]*ast.File
	helpers map[*types.Func]bool
	n       int
	inlined map[string]int
	inlinedObj map[*types.Func]int
	skipped map[string]string
	changed map[string]*ast.File // filename -> rewritten file
	// function literals bound once to a local by an earlier expansion (`fn := (func(T))(func(t T) {...})`): calls of
	// the local are expanded too, so that a helper taking a callback is as transparent as one that does not
	litVars map[*types.Var]*litVar
	// helpers that use defer: always inlinable in tail position (`return h()`: the deferred calls run at the same point
	// either way); elsewhere only when the defers are simple and come first (they are then run after the expansion)
	hasDefer    map[*types.Func]bool
	simpleDefer map[*types.Func]bool
	guardedDefer map[*types.Func]bool // simple top-level defers, some after a possible return
	// calls of helpers that were duplicated into a caller by copying a body that still contained them
	extraUses map[*types.Func]int
}

type litVar struct {
	alias    *types.Var // kind "alias": the local this one stands for
	v        *types.Var
	file     *ast.File
	kind     string   // "lit": function literal; "mexpr": method expression (*T).M; "func": declared function; "nil": no callback
	expr     ast.Expr // for mexpr / func
	lit      *ast.FuncLit
	p        *packages.Package
	assign   *ast.AssignStmt
	idx      int
	uses     int // identifiers referring to the variable
	expanded int // call sites expanded
	blanks   []*ast.AssignStmt // `_ = fn` statements
}

// calleeShape is what expand needs to know about the function being inlined: a declared helper or a bound literal.
type calleeShape struct {
	model bool // body comes from libraryModels, not from the module
	name string
	fn   *types.Func // nil for a literal
	lv   *litVar
	typ  *ast.FuncType
	body *ast.BlockStmt
	recv *ast.FieldList
	sig  *types.Signature
}

// flattenHelpers returns an overlay (filename -> new content) for the loaded
// module packages, or nil when there is nothing to inline.
func flattenHelpers(pkgs []*packages.Package) (map[string][]byte, []string) {
	in := &inliner{pkgs: pkgs, decls: map[*types.Func]*ast.FuncDecl{}, declPkg: map[*types.Func]*packages.Package{}, declFil: map[*types.Func]*ast.File{},
		helpers: map[*types.Func]bool{}, inlined: map[string]int{}, inlinedObj: map[*types.Func]int{}, skipped: map[string]string{}, changed: map[string]*ast.File{}, litVars: map[*types.Var]*litVar{}, extraUses: map[*types.Func]int{}, hasDefer: map[*types.Func]bool{}, simpleDefer: map[*types.Func]bool{}, guardedDefer: map[*types.Func]bool{}}
	if len(pkgs) == 0 {
		return nil, nil
	}
	in.fset = pkgs[0].Fset
	for _, p := range pkgs {
		if !strings.HasPrefix(p.PkgPath, modulePath) {
			continue
		}
		for _, f := range p.Syntax {
			for _, d := range f.Decls {
				fd, ok := d.(*ast.FuncDecl)
				if !ok || fd.Body == nil {
					continue
				}
				obj, _ := p.TypesInfo.Defs[fd.Name].(*types.Func)
				if obj == nil {
					continue
				}
				in.decls[obj] = fd
				in.declPkg[obj] = p
				in.declFil[obj] = f
			}
		}
	}
	// renames: when exactly one function of the reference tree is missing from a receiver type (or from a package's
	// free functions) and exactly one new function appeared there, the new one is the old one under a new name: it stays
	// a function in its own right (the rules' anchors are redirected to it) instead of being expanded away
	{
		group := func(full string) string {
			if i := strings.LastIndex(full, "."); i >= 0 {
				return full[:i]
			}
			return full
		}
		present := map[string]bool{}
		freshBy := map[string][]*types.Func{}
		for obj := range in.decls {
			present[obj.FullName()] = true
			if !baselineFuncs[obj.FullName()] && !isDeanchored(obj.FullName()) {
				freshBy[group(obj.FullName())] = append(freshBy[group(obj.FullName())], obj)
			}
		}
		missingBy := map[string][]string{}
		for full := range baselineFuncs {
			if !present[full] && strings.HasPrefix(strings.TrimLeft(full, "(*"), modulePath) {
				missingBy[group(full)] = append(missingBy[group(full)], full)
			}
		}
		for g, miss := range missingBy {
			// same signature required: a function with other parameters / results is a replacement, not a rename
			// (the rules index parameters by position)
			if len(miss) == 1 && len(freshBy[g]) == 1 && (baselineSig[miss[0]] == "" || sameParams(baselineSig[miss[0]], sigString(freshBy[g][0]))) {
				renamedAnchors[miss[0]] = freshBy[g][0].FullName()
				baselineFuncs[freshBy[g][0].FullName()] = true
				continue
			}
			// several at once: pair those whose signature is unique on both sides
			for _, m := range miss {
				want := baselineSig[m]
				if want == "" {
					continue
				}
				nm := 0
				for _, m2 := range miss {
					if baselineSig[m2] == want {
						nm++
					}
				}
				var cands []*types.Func
				for _, f := range freshBy[g] {
					if sigString(f) == want {
						cands = append(cands, f)
					}
				}
				if nm == 1 && len(cands) == 1 {
					renamedAnchors[m] = cands[0].FullName()
					baselineFuncs[cands[0].FullName()] = true
				}
			}
		}
	}
	// a method of the reference tree that became a free function (it never used its receiver): the only missing method of
	// its name / parameter list and the only new free function with them. It is given its receiver back, so that the
	// rules find it where they look for it; nothing else is rewritten in that round.
	if !inlineMinimal && in.remethodise() {
		return in.printOverlay(nil)
	}
	if !inlineMinimal && in.ungroupFields() {
		return in.printOverlay(nil)
	}
	if !inlineMinimal && in.lowerResultDefers() {
		return in.printOverlay(nil)
	}
	for obj, fd := range in.decls {
		if baselineFuncs[obj.FullName()] {
			continue
		}
		if inlineMinimal && !isDeanchored(obj.FullName()) {
			continue
		}
		if why := in.notInlinable(obj, fd); why != "" {
			in.skipped[obj.FullName()] = why
			continue
		}
		in.helpers[obj] = true
	}
	if !inlineMinimal {
		in.propagateInjectedFields()
		in.restoreConcreteFieldTypes()
		in.collectLitVars()
		for _, p := range pkgs {
			if strings.HasPrefix(p.PkgPath, modulePath) {
				for _, f := range p.Syntax {
					in.unrollLiteralRanges(p, f)
				}
			}
		}
	}
	// (no early exit when there is no new helper: library models and switch/loop normalisations apply regardless; on
	// the reference tree nothing below changes anything)
	for _, p := range pkgs {
		if !strings.HasPrefix(p.PkgPath, modulePath) {
			continue
		}
		for _, f := range p.Syntax {
			in.rewriteFile(p, f)
		}
	}
	in.foldCallbackNilTests()
	in.rewriteFuncValueCalls()
	in.dropBoundLiterals()
	// a helper all of whose uses were inlined is dropped from the analysed program (it would otherwise still
	// show up in whole-module inventories as a dead copy of the code it was extracted from)
	uses := map[*types.Func]int{}
	for _, p := range pkgs {
		for _, o := range p.TypesInfo.Uses {
			if fn, ok := o.(*types.Func); ok && in.helpers[fn] {
				uses[fn]++
			}
		}
	}
	for fn := range in.helpers {
		if in.inlinedObj[fn] > 0 && in.inlinedObj[fn] == uses[fn] && in.extraUses[fn] == 0 {
			f := in.declFil[fn]
			for i, d := range f.Decls {
				if d == ast.Decl(in.decls[fn]) {
					f.Decls = append(f.Decls[:i:i], f.Decls[i+1:]...)
					in.changed[in.fset.Position(f.Pos()).Filename] = f
					break
				}
			}
		}
	}
	var notes []string
	for n, k := range in.inlined {
		notes = append(notes, fmt.Sprintf("new helper %s inlined at %d call site(s) before analysis", n, k))
	}
	for n, w := range in.skipped {
		notes = append(notes, fmt.Sprintf("new function %s not inlined: %s", n, w))
	}
	sort.Strings(notes)
	return in.printOverlay(notes)
}

// printOverlay renders the rewritten files.
func (in *inliner) printOverlay(notes []string) (map[string][]byte, []string) {
	pkgs := in.pkgs
	if len(in.changed) == 0 {
		return nil, notes
	}
	pkgNames := map[string]string{}
	for _, p := range pkgs {
		for path, ip := range p.Imports {
			pkgNames[path] = ip.Name
		}
	}
	overlay := map[string][]byte{}
	for name, f := range in.changed {
		pruneImports(f, pkgNames)
		var buf bytes.Buffer
		f.Comments = nil
		cfg := &printer.Config{Mode: printer.UseSpaces | printer.TabIndent, Tabwidth: 8}
		fmt.Fprintf(&buf, "package %s\n\n", f.Name.Name)
		empty := token.NewFileSet()
		for _, d := range f.Decls {
			// re-synchronise reported positions at the start of every original declaration
			if d.Pos().IsValid() {
				if pos := in.fset.Position(d.Pos()); pos.IsValid() {
					if gd, ok := d.(*ast.GenDecl); !ok || gd.Tok != token.IMPORT {
						fmt.Fprintf(&buf, "//line %s:%d\n", pos.Filename, pos.Line)
					}
				}
			}
			if err := cfg.Fprint(&buf, empty, stripPos(d)); err != nil {
				return nil, append(notes, "inlining abandoned: cannot print "+name+": "+err.Error())
			}
			buf.WriteString("\n\n")
		}
		overlay[name] = buf.Bytes()
	}
	return overlay, notes
}

// stripPos returns a copy of the declaration without positions (the printer then lays it out afresh).
func stripPos(d ast.Decl) ast.Decl { return copyNode(d).(ast.Decl) }

func (in *inliner) notInlinable(obj *types.Func, fd *ast.FuncDecl) string {
	sig := obj.Type().(*types.Signature)
	if sig.RecvTypeParams().Len() > 0 {
		return "method of a generic type"
	}
	if sig.TypeParams().Len() > 0 {
		// a type parameter's name must not also name something else inside the function (substitution is by name)
		names := map[string]bool{}
		for i := 0; i < sig.TypeParams().Len(); i++ {
			names[sig.TypeParams().At(i).Obj().Name()] = true
		}
		clash := false
		ast.Inspect(fd, func(n ast.Node) bool {
			if id, ok := n.(*ast.Ident); ok && names[id.Name] {
				if def := in.declPkg[obj].TypesInfo.Defs[id]; def != nil {
					if _, isTN := def.(*types.TypeName); !isTN {
						clash = true
					}
				}
			}
			return true
		})
		if clash {
			return "generic, with a type parameter name reused for something else"
		}
	}
	why := ""
	var inspect func(n ast.Node) bool
	inspect = func(n ast.Node) bool {
		switch x := n.(type) {
		case *ast.FuncLit:
			return false
		case *ast.DeferStmt:
			in.hasDefer[obj] = true
		case *ast.LabeledStmt:
			if !strings.HasPrefix(x.Label.Name, "_inl") {
				why = "has labels"
			}
		case *ast.BranchStmt:
			if x.Tok == token.GOTO {
				why = "uses goto"
			}
		case *ast.CallExpr:
			if id, ok := x.Fun.(*ast.Ident); ok && id.Name == "recover" {
				why = "calls recover"
			}
			// direct recursion
			if in.calleeOf(in.declPkg[obj], x) == obj {
				why = "recursive"
			}
		}
		return why == ""
	}
	ast.Inspect(fd.Body, inspect)
	if why != "" {
		return why
	}
	if in.hasDefer[obj] {
		in.simpleDefer[obj] = simpleDefers(fd.Body)
		if !in.simpleDefer[obj] && simpleDefersEarlyReturn {
			in.simpleDefer[obj] = true
			in.guardedDefer[obj] = true
		}
	}
	// results must be nameable: fine (type expressions are copied). Named results shadowed inside closures are not handled specially.
	return ""
}

func (in *inliner) calleeOf(p *packages.Package, call *ast.CallExpr) *types.Func {
	var id *ast.Ident
	switch f := ast.Unparen(call.Fun).(type) {
	case *ast.Ident:
		id = f
	case *ast.SelectorExpr:
		id = f.Sel
	default:
		return nil
	}
	fn, _ := p.TypesInfo.Uses[id].(*types.Func)
	return fn
}

var libModels map[string]*ast.FuncDecl

// libraryModels: source models of slices.ContainsFunc / IndexFunc (type parameter names as in the library).
func libraryModels() map[string]*ast.FuncDecl {
	if libModels != nil {
		return libModels
	}
	libModels = map[string]*ast.FuncDecl{}
	src := `package m
func ContainsFunc[S ~[]E, E any](s S, f func(E) bool) bool {
	for _inl_i := range s {
		if f(s[_inl_i]) {
			return true
		}
	}
	return false
}
func IndexFunc[S ~[]E, E any](s S, f func(E) bool) int {
	for _inl_i := range s {
		if f(s[_inl_i]) {
			return _inl_i
		}
	}
	return -1
}
`
	f, err := parser.ParseFile(token.NewFileSet(), "models.go", src, 0)
	if err != nil {
		return libModels
	}
	for _, d := range f.Decls {
		if fd, ok := d.(*ast.FuncDecl); ok {
			libModels[fd.Name.Name] = stripPos(fd).(*ast.FuncDecl)
		}
	}
	return libModels
}

// simpleDefers: every defer of the body is a top-level statement, no return can happen before the last of them, and
// the deferred calls have nothing to evaluate but names (so running them after the expansion is the same thing).
func simpleDefers(body *ast.BlockStmt) bool {
	last := -1
	for i, st := range body.List {
		if _, ok := st.(*ast.DeferStmt); ok {
			last = i
		}
	}
	ok := true
	ok0 := false // everything fine except for returns before the last defer
	n := 0
	ast.Inspect(body, func(m ast.Node) bool {
		switch m.(type) {
		case *ast.FuncLit:
			return false
		case *ast.DeferStmt:
			n++
		}
		return true
	})
	top := 0
	for i, st := range body.List {
		d, isDefer := st.(*ast.DeferStmt)
		if isDefer {
			top++
			var simple func(e ast.Expr) bool
			simple = func(e ast.Expr) bool {
				switch x := e.(type) {
				case *ast.Ident, *ast.BasicLit:
					return true
				case *ast.SelectorExpr:
					return simple(x.X)
				case *ast.ParenExpr:
					return simple(x.X)
				case *ast.StarExpr:
					return simple(x.X)
				case *ast.UnaryExpr:
					return x.Op == token.AND && simple(x.X)
				}
				return false
			}
			if !simple(d.Call.Fun) {
				ok = false
			}
			for _, a := range d.Call.Args {
				if !simple(a) {
					ok = false
				}
			}
			continue
		}
		if i < last {
			ast.Inspect(st, func(m ast.Node) bool {
				switch m.(type) {
				case *ast.FuncLit:
					return false
				case *ast.ReturnStmt:
					if ok {
						ok0 = true
					}
					ok = false
				}
				return true
			})
		}
	}
	if ok {
		ok0 = false
	}
	simpleDefersEarlyReturn = ok0 && top == n
	return ok && top == n
}

// simpleDefersEarlyReturn: set by simpleDefers - the defers are top-level statements with nothing to evaluate but names,
// though a return may come before one of them (such a defer is expanded as "if reached, run after the expansion").
var simpleDefersEarlyReturn bool

// shapeOf: the inlinable callee of a call, if any.
func (in *inliner) shapeOf(p *packages.Package, call *ast.CallExpr) *calleeShape {
	if fn := in.calleeOf(p, call); fn != nil {
		if !in.helpers[fn] {
			// a few library functions taking a callback are expanded from a model of their documented behaviour when the
			// callback is a literal (so that `slices.ContainsFunc(xs, func...)` reads like the loop it replaces)
			if !inlineMinimal && fn.Pkg() != nil && fn.Pkg().Path() == "slices" && len(call.Args) == 2 {
				_, isLit := call.Args[1].(*ast.FuncLit)
				if id, isId := call.Args[1].(*ast.Ident); isId && !isLit {
					if av, ok := p.TypesInfo.Uses[id].(*types.Var); ok && in.litVars[av] != nil && in.litVars[av].kind == "lit" {
						isLit = true
					}
					// a declared function of the module used as the predicate
					if fo, ok := p.TypesInfo.Uses[id].(*types.Func); ok && fo.Pkg() == p.Types && fo.Type().(*types.Signature).Recv() == nil {
						isLit = true
					}
				}
				if isLit {
					if fd := libraryModels()[fn.Name()]; fd != nil {
						return &calleeShape{name: "library model slices." + fn.Name(), fn: fn, model: true, typ: fd.Type, body: fd.Body, sig: fn.Type().(*types.Signature)}
					}
				}
			}
			return nil
		}
		fd := in.decls[fn]
		return &calleeShape{name: fn.FullName(), fn: fn, typ: fd.Type, body: fd.Body, recv: fd.Recv, sig: fn.Type().(*types.Signature)}
	}
	id, ok := ast.Unparen(call.Fun).(*ast.Ident)
	if !ok {
		return nil
	}
	v, _ := p.TypesInfo.Uses[id].(*types.Var)
	lv := in.litVars[v]
	if lv == nil || lv.p != p || lv.kind != "lit" {
		return nil
	}
	// the literal must not be expanded inside itself, and what it refers to must mean the same at the call site
	if call.Pos() >= lv.lit.Pos() && call.End() <= lv.lit.End() {
		return nil
	}
	scope := p.Types.Scope().Innermost(call.Pos())
	okScope := scope != nil
	ast.Inspect(lv.lit.Body, func(n ast.Node) bool {
		x, isId := n.(*ast.Ident)
		if !isId || !okScope {
			return okScope
		}
		obj := p.TypesInfo.Uses[x]
		if obj == nil {
			return true
		}
		// fields and methods are not looked up by scope
		if v, isVar := obj.(*types.Var); isVar && v.IsField() {
			return true
		}
		if fo, isFn := obj.(*types.Func); isFn && fo.Type().(*types.Signature).Recv() != nil {
			return true
		}
		if obj.Pkg() != nil && obj.Pkg() != p.Types {
			return true // a qualified identifier's selector
		}
		if _, isPkg := obj.(*types.PkgName); isPkg || obj.Parent() == p.Types.Scope() || obj.Parent() == types.Universe || obj.Parent() == nil {
			if _, found := scope.LookupParent(x.Name, call.Pos()); found != nil && found != obj {
				okScope = false
			}
			return true
		}
		if obj.Pos() >= lv.lit.Pos() && obj.Pos() <= lv.lit.End() {
			return true // the literal's own parameter or local
		}
		if _, found := scope.LookupParent(x.Name, call.Pos()); found != obj {
			okScope = false
		}
		return true
	})
	if !okScope {
		return nil
	}
	sig, _ := v.Type().Underlying().(*types.Signature)
	if sig == nil {
		return nil
	}
	return &calleeShape{name: "func literal bound to " + v.Name(), lv: lv, typ: lv.lit.Type, body: lv.lit.Body, sig: sig}
}

// collectLitVars finds `v := (func(...)...)(func(...) {...})` bindings (the form expand produces for a parameter whose
// argument is a function literal) whose variable is never reassigned or address-taken.
func (in *inliner) collectLitVars() {
	for _, p := range in.pkgs {
		if !strings.HasPrefix(p.PkgPath, modulePath) {
			continue
		}
		for _, f := range p.Syntax {
			// the extent of earlier expansions: blocks that start with the marker constant
			type span struct{ lo, hi token.Pos }
			var expansions []span
			ast.Inspect(f, func(n ast.Node) bool {
				if b, ok := n.(*ast.BlockStmt); ok && len(b.List) > 0 {
					if ds, ok := b.List[0].(*ast.DeclStmt); ok {
						if gd, ok := ds.Decl.(*ast.GenDecl); ok && gd.Tok == token.CONST && len(gd.Specs) == 1 {
							if vs, ok := gd.Specs[0].(*ast.ValueSpec); ok && len(vs.Names) == 1 && strings.HasPrefix(vs.Names[0].Name, "_inl") && strings.HasSuffix(vs.Names[0].Name, "_m") {
								expansions = append(expansions, span{b.Pos(), b.End()})
							}
						}
					}
				}
				return true
			})
			inExpansion := func(pos token.Pos) bool {
				for _, sp := range expansions {
					if pos >= sp.lo && pos <= sp.hi {
						return true
					}
				}
				return false
			}
			ast.Inspect(f, func(n ast.Node) bool {
				as, ok := n.(*ast.AssignStmt)
				if !ok || as.Tok != token.DEFINE || len(as.Lhs) != len(as.Rhs) {
					return true
				}
				for i, r := range as.Rhs {
					// a local closure defined by the code of an inlined helper (`abandon := func(...) {...}`) is as transparent
					// as the helper itself
					// (the reference tree has no directly called local closure, so this applies to new code only)
					_ = inExpansion
					if plain, isLit := r.(*ast.FuncLit); isLit {
						r = &ast.CallExpr{Fun: &ast.ParenExpr{X: plain.Type}, Args: []ast.Expr{plain}}
					}
					conv, ok := r.(*ast.CallExpr)
					if !ok || len(conv.Args) != 1 {
						continue
					}
					par, ok := conv.Fun.(*ast.ParenExpr)
					if !ok {
						continue
					}
					if _, isFT := par.X.(*ast.FuncType); !isFT {
						// a named function type (`type middlewareFunc func(http.Handler) http.Handler`)
						tv, known := p.TypesInfo.Types[par.X]
						if !known || !tv.IsType() {
							continue
						}
						if _, isSig := tv.Type.Underlying().(*types.Signature); !isSig {
							continue
						}
					}
					id, ok := as.Lhs[i].(*ast.Ident)
					if !ok {
						continue
					}
					v, _ := p.TypesInfo.Defs[id].(*types.Var)
					if v == nil {
						continue
					}
					lit, ok := conv.Args[0].(*ast.FuncLit)
					if !ok {
						// a method expression or a declared function handed over as the callback
						switch x := ast.Unparen(conv.Args[0]).(type) {
						case *ast.SelectorExpr:
							if sel, isSel := p.TypesInfo.Selections[x]; isSel {
								if sel.Kind() == types.MethodExpr {
									in.litVars[v] = &litVar{v: v, file: f, kind: "mexpr", expr: x, p: p, assign: as, idx: i}
								}
								// a method value of a plain variable (`h.generateID`): the call is written out again; the
								// receiver variable must not change in between (checked: never assigned in the function)
								if sel.Kind() == types.MethodVal && len(sel.Index()) == 1 {
									if rid, isId := x.X.(*ast.Ident); isId {
										if rv, isVar := p.TypesInfo.Uses[rid].(*types.Var); isVar && !rv.IsField() {
											in.litVars[v] = &litVar{v: v, file: f, kind: "mval", expr: x, alias: rv, p: p, assign: as, idx: i}
										}
									}
								}
							} else if fo, isFn := p.TypesInfo.Uses[x.Sel].(*types.Func); isFn && fo.Type().(*types.Signature).Recv() == nil {
								in.litVars[v] = &litVar{v: v, file: f, kind: "func", expr: x, p: p, assign: as, idx: i}
							}
						case *ast.Ident:
							// another local that is itself a bound literal (`f := (func(T) bool)(isWildcard)`)
							if tv, isVar := p.TypesInfo.Uses[x].(*types.Var); isVar && !tv.IsField() && tv.Parent() != p.Types.Scope() {
								in.litVars[v] = &litVar{v: v, file: f, kind: "alias", expr: x, alias: tv, p: p, assign: as, idx: i}
							}
							if _, isNil := p.TypesInfo.Uses[x].(*types.Nil); isNil {
								in.litVars[v] = &litVar{v: v, file: f, kind: "nil", p: p, assign: as, idx: i}
							}
							if fo, isFn := p.TypesInfo.Uses[x].(*types.Func); isFn && fo.Type().(*types.Signature).Recv() == nil && fo.Parent() == p.Types.Scope() {
								in.litVars[v] = &litVar{v: v, file: f, kind: "func", expr: x, p: p, assign: as, idx: i}
							}
						}
						continue
					}
					// the literal itself must be safe to splice in
					bad := false
					ast.Inspect(lit.Body, func(m ast.Node) bool {
						switch y := m.(type) {
						case *ast.FuncLit:
							return false
						case *ast.DeferStmt, *ast.LabeledStmt:
							bad = true
						case *ast.BranchStmt:
							if y.Tok == token.GOTO {
								bad = true
							}
						case *ast.CallExpr:
							if cid, ok := y.Fun.(*ast.Ident); ok && cid.Name == "recover" {
								bad = true
							}
						}
						return !bad
					})
					if !bad {
						in.litVars[v] = &litVar{v: v, file: f, kind: "lit", lit: lit, p: p, assign: as, idx: i}
					}
				}
				return true
			})
			// uses; reassignment or & disqualifies
			ast.Inspect(f, func(n ast.Node) bool {
				switch x := n.(type) {
				case *ast.Ident:
					if v, ok := p.TypesInfo.Uses[x].(*types.Var); ok && in.litVars[v] != nil {
						in.litVars[v].uses++
					}
				case *ast.AssignStmt:
					for i, l := range x.Lhs {
						if id, ok := l.(*ast.Ident); ok && x.Tok == token.ASSIGN {
							if v, ok := p.TypesInfo.Uses[id].(*types.Var); ok && in.litVars[v] != nil {
								delete(in.litVars, v)
							}
							// a receiver that is reassigned invalidates method values taken of it
							if rv, ok := p.TypesInfo.Uses[id].(*types.Var); ok {
								for k, lv := range in.litVars {
									if lv.kind == "mval" && lv.alias == rv {
										delete(in.litVars, k)
									}
								}
							}
							if id.Name == "_" && len(x.Lhs) == 1 && i == 0 {
								if rid, ok := x.Rhs[0].(*ast.Ident); ok {
									if v, ok := p.TypesInfo.Uses[rid].(*types.Var); ok && in.litVars[v] != nil {
										in.litVars[v].blanks = append(in.litVars[v].blanks, x)
									}
								}
							}
						}
					}
				case *ast.UnaryExpr:
					if id, ok := x.X.(*ast.Ident); ok && x.Op == token.AND {
						if v, ok := p.TypesInfo.Uses[id].(*types.Var); ok {
							delete(in.litVars, v)
						}
					}
				case *ast.IncDecStmt:
				}
				return true
			})
		}
	}
	// an alias is only useful when what it stands for is itself a bound literal
	for v, lv := range in.litVars {
		if lv.kind == "alias" {
			if t := in.litVars[lv.alias]; t == nil || t.kind != "lit" {
				delete(in.litVars, v)
			}
		}
	}
}

// rewriteFuncValueCalls: `op := (func(*T) error)((*T).M); ... op(x)` becomes `x.M()`, and a bound declared function is
// called by its own name.
func (in *inliner) rewriteFuncValueCalls() {
	for _, p := range in.pkgs {
		if !strings.HasPrefix(p.PkgPath, modulePath) {
			continue
		}
		for _, f := range p.Syntax {
			ast.Inspect(f, func(n ast.Node) bool {
				call, ok := n.(*ast.CallExpr)
				if !ok {
					return true
				}
				id, ok := ast.Unparen(call.Fun).(*ast.Ident)
				if !ok {
					return true
				}
				v, _ := p.TypesInfo.Uses[id].(*types.Var)
				lv := in.litVars[v]
				if lv == nil || lv.kind == "lit" || lv.kind == "nil" || lv.p != p {
					return true
				}
				// the names in the bound expression must mean the same here
				scope := p.Types.Scope().Innermost(call.Pos())
				okScope := scope != nil
				ast.Inspect(lv.expr, func(m ast.Node) bool {
					if x, isId := m.(*ast.Ident); isId && okScope {
						if obj := p.TypesInfo.Uses[x]; obj != nil {
							if _, isPkg := obj.(*types.PkgName); isPkg || obj.Parent() == p.Types.Scope() {
								if _, found := scope.LookupParent(x.Name, call.Pos()); found != obj {
									okScope = false
								}
							}
						}
					}
					return true
				})
				if !okScope {
					return true
				}
				if lv.kind == "alias" || lv.kind == "mval" {
					if _, found := scope.LookupParent(lv.alias.Name(), call.Pos()); found != types.Object(lv.alias) {
						return true
					}
				}
				switch lv.kind {
				case "mval":
					call.Fun = copyExpr(lv.expr)
				case "alias":
					call.Fun = ast.NewIdent(lv.alias.Name())
				case "mexpr":
					if len(call.Args) == 0 || call.Ellipsis.IsValid() {
						return true
					}
					sel := lv.expr.(*ast.SelectorExpr)
					call.Fun = &ast.SelectorExpr{X: &ast.ParenExpr{X: call.Args[0]}, Sel: ast.NewIdent(sel.Sel.Name)}
					call.Args = call.Args[1:]
				case "func":
					call.Fun = copyExpr(lv.expr)
				}
				lv.expanded++
				in.inlined["callback bound to "+v.Name()]++
				in.changed[in.fset.Position(f.Pos()).Filename] = f
				return true
			})
		}
	}
}

// foldCallbackNilTests: a bound callback is known to be nil or not, so `filter == nil || filter(x)` reduces to
// `filter(x)` (literal given) or to `true` (nil given), and an `if` on a constant keeps only the live branch.
func (in *inliner) foldCallbackNilTests() {
	files := map[*ast.File]*packages.Package{}
	for _, lv := range in.litVars {
		files[lv.file] = lv.p
	}
	isConst := func(e ast.Expr) (bool, bool) {
		if id, ok := ast.Unparen(e).(*ast.Ident); ok && (id.Name == "_inl_true" || id.Name == "_inl_false") {
			return id.Name == "_inl_true", true
		}
		return false, false
	}
	mk := func(b bool) ast.Expr {
		if b {
			return ast.NewIdent("_inl_true")
		}
		return ast.NewIdent("_inl_false")
	}
	for f, p := range files {
		changed := false
		astutil.Apply(f, nil, func(c *astutil.Cursor) bool {
			switch x := c.Node().(type) {
			case *ast.BinaryExpr:
				if x.Op == token.EQL || x.Op == token.NEQ {
					isNilIdent := func(e ast.Expr) bool {
						x, ok := ast.Unparen(e).(*ast.Ident)
						if !ok {
							return false
						}
						_, isNil := p.TypesInfo.Uses[x].(*types.Nil)
						return isNil
					}
					var id *ast.Ident
					if a, ok := ast.Unparen(x.X).(*ast.Ident); ok && isNilIdent(x.Y) {
						id = a
					} else if b, ok := ast.Unparen(x.Y).(*ast.Ident); ok && isNilIdent(x.X) {
						id = b
					}
					if id == nil {
						return true
					}
					v, _ := p.TypesInfo.Uses[id].(*types.Var)
					lv := in.litVars[v]
					if lv == nil {
						return true
					}
					isNilCB := lv.kind == "nil"
					c.Replace(mk((x.Op == token.EQL) == isNilCB))
					lv.expanded++
					changed = true
					return true
				}
				if x.Op == token.LOR || x.Op == token.LAND {
					if b, ok := isConst(x.X); ok {
						// true || y => true ; false || y => y ; true && y => y ; false && y => false
						if b == (x.Op == token.LOR) {
							c.Replace(mk(b))
						} else {
							c.Replace(x.Y)
						}
						changed = true
					} else if b, ok := isConst(x.Y); ok && b != (x.Op == token.LOR) {
						// x || false => x ; x && true => x   (x is still evaluated)
						c.Replace(x.X)
						changed = true
					}
				}
			case *ast.UnaryExpr:
				if b, ok := isConst(x.X); ok && x.Op == token.NOT {
					c.Replace(mk(!b))
					changed = true
				}
			case *ast.ParenExpr:
				if b, ok := isConst(x.X); ok {
					c.Replace(mk(b))
				}
			case *ast.IfStmt:
				if b, ok := isConst(x.Cond); ok && x.Init == nil {
					switch {
					case b:
						c.Replace(x.Body)
					case x.Else != nil:
						c.Replace(x.Else)
					default:
						c.Replace(&ast.EmptyStmt{})
					}
					changed = true
				}
			}
			return true
		})
		// constants that survive in other positions become the predeclared ones again
		astutil.Apply(f, nil, func(c *astutil.Cursor) bool {
			if id, ok := c.Node().(*ast.Ident); ok {
				switch id.Name {
				case "_inl_true":
					c.Replace(&ast.ParenExpr{X: &ast.BinaryExpr{X: &ast.BasicLit{Kind: token.INT, Value: "0"}, Op: token.EQL, Y: &ast.BasicLit{Kind: token.INT, Value: "0"}}})
				case "_inl_false":
					c.Replace(&ast.ParenExpr{X: &ast.BinaryExpr{X: &ast.BasicLit{Kind: token.INT, Value: "0"}, Op: token.NEQ, Y: &ast.BasicLit{Kind: token.INT, Value: "0"}}})
				}
			}
			return true
		})
		if changed {
			in.changed[in.fset.Position(f.Pos()).Filename] = f
		}
	}
}

// dropBoundLiterals: a binding all of whose uses were expanded is neutralised (`_ = 0`), so that the literal does not
// survive as a dead closure duplicating the code that now stands at its call sites.
func (in *inliner) dropBoundLiterals() {
	for _, lv := range in.litVars {
		remaining := 0
		ast.Inspect(lv.file, func(n ast.Node) bool {
			if id, ok := n.(*ast.Ident); ok && lv.p.TypesInfo.Uses[id] == types.Object(lv.v) {
				remaining++
			}
			return true
		})
		if lv.expanded == 0 || remaining != len(lv.blanks) {
			continue
		}
		zero := func() ast.Expr { return &ast.BasicLit{Kind: token.INT, Value: "0"} }
		if len(lv.assign.Lhs) == 1 {
			lv.assign.Lhs = []ast.Expr{ast.NewIdent("_")}
			lv.assign.Rhs = []ast.Expr{zero()}
			lv.assign.Tok = token.ASSIGN
		} else {
			lv.assign.Lhs = append(lv.assign.Lhs[:lv.idx:lv.idx], lv.assign.Lhs[lv.idx+1:]...)
			lv.assign.Rhs = append(lv.assign.Rhs[:lv.idx:lv.idx], lv.assign.Rhs[lv.idx+1:]...)
			// indexes of other literals bound by the same statement shift
			for _, o := range in.litVars {
				if o != lv && o.assign == lv.assign && o.idx > lv.idx {
					o.idx--
				}
			}
		}
		for _, b := range lv.blanks {
			b.Rhs = []ast.Expr{zero()}
		}
	}
}

// unrollLiteralRanges: `for _, x := range []T{a, b} { body }` (at most four pure elements, no break/continue of that
// loop) becomes `{ x := T(a); body } { x := T(b); body }`: an ordered list of alternatives written as a loop reads like
// the sequence of tests it is. The reference tree has no such loop.
func (in *inliner) unrollLiteralRanges(p *packages.Package, f *ast.File) {
	var pure func(e ast.Expr) bool
	pure = func(e ast.Expr) bool {
		switch x := e.(type) {
		case *ast.Ident, *ast.BasicLit:
			return true
		case *ast.SelectorExpr:
			return pure(x.X)
		case *ast.ParenExpr:
			return pure(x.X)
		case *ast.BinaryExpr:
			return pure(x.X) && pure(x.Y)
		case *ast.UnaryExpr:
			return x.Op != token.ARROW && pure(x.X)
		case *ast.FuncLit:
			return true // creating a closure has no effect; what it captures is read when it is called
		case *ast.CompositeLit:
			// a row of a table of structs
			for _, el := range x.Elts {
				if kv, isKV := el.(*ast.KeyValueExpr); isKV {
					if !pure(kv.Value) {
						return false
					}
				} else if !pure(el) {
					return false
				}
			}
			return true
		}
		return false
	}
	unroll := func(rs *ast.RangeStmt, lit *ast.CompositeLit) []ast.Stmt {
		if rs.Tok != token.DEFINE || rs.Value == nil {
			return nil
		}
		if k, ok := rs.Key.(*ast.Ident); !ok || k.Name != "_" {
			return nil
		}
		val, ok := rs.Value.(*ast.Ident)
		if !ok {
			return nil
		}
		cl, ok := ast.Unparen(rs.X).(*ast.CompositeLit)
		if !ok {
			cl = lit
		}
		if cl == nil || len(cl.Elts) == 0 || len(cl.Elts) > 6 {
			return nil
		}
		at, ok := cl.Type.(*ast.ArrayType)
		if !ok {
			return nil
		}
		used := map[string]bool{}
		for _, e := range cl.Elts {
			if _, isKV := e.(*ast.KeyValueExpr); isKV || !pure(e) {
				return nil
			}
			ast.Inspect(e, func(n ast.Node) bool {
				if _, isLit := n.(*ast.FuncLit); isLit {
					return false
				}
				if id, ok := n.(*ast.Ident); ok {
					used[id.Name] = true
				}
				return true
			})
		}
		// no break / continue of this loop, no assignment to anything the elements mention, no closure capturing the variable
		okBody := true
		var scan func(n ast.Node, inLoop, inSwitch bool)
		scan = func(n ast.Node, inLoop, inSwitch bool) {
			ast.Inspect(n, func(m ast.Node) bool {
				if m == nil || !okBody {
					return false
				}
				switch x := m.(type) {
				case *ast.FuncLit:
					okBody = false // the per-iteration variable may be captured
					return false
				case *ast.BranchStmt:
					if x.Label != nil || (x.Tok == token.BREAK && !inLoop && !inSwitch) || (x.Tok == token.CONTINUE && !inLoop) || x.Tok == token.GOTO {
						okBody = false
					}
				case *ast.ForStmt:
					if m != n {
						scan(x.Body, true, inSwitch)
						return false
					}
				case *ast.RangeStmt:
					if m != n {
						scan(x.Body, true, inSwitch)
						return false
					}
				case *ast.SwitchStmt:
					if m != n {
						scan(x.Body, inLoop, true)
						return false
					}
				case *ast.TypeSwitchStmt:
					if m != n {
						scan(x.Body, inLoop, true)
						return false
					}
				case *ast.SelectStmt:
					if m != n {
						scan(x.Body, inLoop, true)
						return false
					}
				case *ast.LabeledStmt:
					okBody = false
				case *ast.AssignStmt:
					for _, l := range x.Lhs {
						if id, ok := l.(*ast.Ident); ok && used[id.Name] {
							okBody = false
						}
					}
				case *ast.IncDecStmt:
					if id, ok := x.X.(*ast.Ident); ok && used[id.Name] {
						okBody = false
					}
				}
				return true
			})
		}
		scan(rs.Body, false, false)
		if !okBody {
			return nil
		}
		var out []ast.Stmt
		for _, e := range cl.Elts {
			var rhs ast.Expr = &ast.CallExpr{Fun: &ast.ParenExpr{X: copyExpr(at.Elt)}, Args: []ast.Expr{copyExpr(e)}}
			if row, isRow := e.(*ast.CompositeLit); isRow && row.Type == nil {
				// `{a, b, c}` with the element type elided: write the type out
				if _, isPtr := at.Elt.(*ast.StarExpr); isPtr {
					return nil
				}
				rc := copyExpr(row).(*ast.CompositeLit)
				rc.Type = copyExpr(at.Elt)
				rhs = rc
			}
			bind := &ast.AssignStmt{Lhs: []ast.Expr{ast.NewIdent(val.Name)}, Tok: token.DEFINE, Rhs: []ast.Expr{rhs}}
			use := &ast.AssignStmt{Lhs: []ast.Expr{ast.NewIdent("_")}, Tok: token.ASSIGN, Rhs: []ast.Expr{ast.NewIdent(val.Name)}}
			body := copyNode(rs.Body).(*ast.BlockStmt)
			out = append(out, &ast.BlockStmt{List: append([]ast.Stmt{bind, use}, body.List...)})
		}
		return out
	}
	var doList func(list []ast.Stmt) ([]ast.Stmt, bool)
	doList = func(list []ast.Stmt) ([]ast.Stmt, bool) {
		changed := false
		var out []ast.Stmt
		for _, st := range list {
			if rs, ok := st.(*ast.RangeStmt); ok {
				var lit *ast.CompositeLit
				defIdx := -1
				if id, isId := ast.Unparen(rs.X).(*ast.Ident); isId {
					// a table defined just for this loop: `xs := []T{...}` earlier in the same list, mentioned nowhere else
					n := 0
					for _, other := range list {
						ast.Inspect(other, func(m ast.Node) bool {
							if x, ok := m.(*ast.Ident); ok && x.Name == id.Name {
								n++
							}
							return true
						})
					}
					for i, prev := range out {
						if as, ok := prev.(*ast.AssignStmt); ok && as.Tok == token.DEFINE && len(as.Lhs) == 1 && len(as.Rhs) == 1 {
							if l, ok := as.Lhs[0].(*ast.Ident); ok && l.Name == id.Name {
								if cl, ok := as.Rhs[0].(*ast.CompositeLit); ok && n == 2 {
									lit, defIdx = cl, i
								}
							}
						}
					}
					if lit == nil {
						out = append(out, st)
						continue
					}
				}
				if repl := unroll(rs, lit); repl != nil {
					if defIdx >= 0 {
						out = append(out[:defIdx:defIdx], out[defIdx+1:]...)
					}
					out = append(out, repl...)
					changed = true
					continue
				}
			}
			out = append(out, st)
		}
		return out, changed
	}
	changed := false
	ast.Inspect(f, func(n ast.Node) bool {
		switch x := n.(type) {
		case *ast.BlockStmt:
			var ch bool
			x.List, ch = doList(x.List)
			changed = changed || ch
		case *ast.CaseClause:
			var ch bool
			x.Body, ch = doList(x.Body)
			changed = changed || ch
		case *ast.CommClause:
			var ch bool
			x.Body, ch = doList(x.Body)
			changed = changed || ch
		}
		return true
	})
	if changed {
		in.changed[in.fset.Position(f.Pos()).Filename] = f
	}
}

// ---- file rewriting ----

func (in *inliner) rewriteFile(p *packages.Package, f *ast.File) {
	for _, d := range f.Decls {
		fd, ok := d.(*ast.FuncDecl)
		if !ok || fd.Body == nil {
			continue
		}
		if in.rewriteBlock(p, f, fd.Body) {
			in.changed[in.fset.Position(f.Pos()).Filename] = f
		}
	}
}

// rewriteBlock processes a statement list in place; returns whether anything changed.
func (in *inliner) rewriteBlock(p *packages.Package, f *ast.File, b *ast.BlockStmt) bool {
	if b == nil {
		return false
	}
	changed := false
	b.List, changed = in.rewriteList(p, f, b.List)
	return changed
}

func (in *inliner) rewriteList(p *packages.Package, f *ast.File, list []ast.Stmt) ([]ast.Stmt, bool) {
	changed := false
	var out []ast.Stmt
	for _, s := range list {
		// a tagless switch one of whose case expressions calls a helper becomes the equivalent if / else-if chain (the
		// case expressions are evaluated in order either way), so that the call can be expanded
		if sw, ok := s.(*ast.SwitchStmt); ok && sw.Tag == nil && sw.Init == nil && in.switchCallsHelper(p, sw) {
			if chain := switchToIfChain(sw); chain != nil {
				s = chain
				changed = true
			}
		}
		// `for h(x) { body }`  =>  `for { if !h(x) { break }; body }`: the condition is evaluated at the top of every
		// iteration either way (the post statement stays where it is), and as the condition of an if the call can be expanded
		if fs, ok := s.(*ast.ForStmt); ok && fs.Cond != nil && fs.Init == nil && fs.Body != nil && in.containsHelperCall(p, fs.Cond) && !bodyBreaksOutOfSwitch(fs.Body) {
			guard := &ast.IfStmt{Cond: &ast.UnaryExpr{Op: token.NOT, X: &ast.ParenExpr{X: fs.Cond}}, Body: &ast.BlockStmt{List: []ast.Stmt{&ast.BranchStmt{Tok: token.BREAK}}}}
			fs.Body.List = append([]ast.Stmt{guard}, fs.Body.List...)
			fs.Cond = nil
			changed = true
		}
		// `defer h(a, b)` / `go h(a, b)` on a helper => arguments bound now, `defer func() { h(a', b') }()`: the call inside
		// the literal is then expanded like any other (next round)
		if pre, repl := in.wrapDeferredHelper(p, s); repl != nil {
			out = append(out, pre...)
			out = append(out, repl)
			changed = true
			continue
		}
		// `return L || h(x)`  =>  `if L { return true }; return h(x)` (and `&&` likewise): the helper call on the right of a
		// short-circuit operator is only evaluated on one branch; written out, it is a plain tail call
		if rs, ok := s.(*ast.ReturnStmt); ok && len(rs.Results) == 1 {
			if be, ok := ast.Unparen(rs.Results[0]).(*ast.BinaryExpr); ok && (be.Op == token.LOR || be.Op == token.LAND) && in.containsHelperCall(p, be.Y) {
				if tv, ok := p.TypesInfo.Types[be]; ok && tv.Type != nil {
					if bt, isBasic := tv.Type.Underlying().(*types.Basic); isBasic && bt.Info()&types.IsBoolean != 0 {
						var cond ast.Expr = be.X
						lit := "true"
						if be.Op == token.LAND {
							cond = &ast.UnaryExpr{Op: token.NOT, X: &ast.ParenExpr{X: be.X}}
							lit = "false"
						}
						first := &ast.IfStmt{Cond: cond, Body: &ast.BlockStmt{List: []ast.Stmt{&ast.ReturnStmt{Results: []ast.Expr{ast.NewIdent(lit)}}}}}
						second := &ast.ReturnStmt{Results: []ast.Expr{be.Y}}
						sub, _ := in.rewriteList(p, f, []ast.Stmt{first, second})
						out = append(out, sub...)
						changed = true
						continue
					}
				}
			}
		}
		// `if A || h(x) { B }` => `if A { B } else { if h(x) { B } }`, `if A && h(x) { B }` => `if A { if h(x) { B } }`: the
		// control flow the compiler generates for the short-circuit anyway, with the helper call now in a position where it
		// can be expanded
		if ifs, ok := s.(*ast.IfStmt); ok && ifs.Init == nil {
			if repl := in.splitShortCircuitIf(p, ifs); repl != nil {
				sub, _ := in.rewriteList(p, f, []ast.Stmt{repl})
				out = append(out, sub...)
				changed = true
				continue
			}
		}
		// `if init; cond {}`  =>  `{ init; if cond {} }` when the init statement contains a helper call
		if ifs, ok := s.(*ast.IfStmt); ok && ifs.Init != nil && in.firstHelperCall(p, ifs.Init) != nil {
			inner := *ifs
			inner.Init = nil
			blk := &ast.BlockStmt{List: []ast.Stmt{ifs.Init, &inner}}
			blk.List, _ = in.rewriteList(p, f, blk.List)
			out = append(out, blk)
			changed = true
			continue
		}
		pre, ns, ok := in.inlineInStmt(p, f, s)
		if ok {
			changed = true
			out = append(out, pre...)
			if ns != nil {
				out = append(out, ns)
			}
		} else {
			out = append(out, s)
		}
		// nested statement lists (including those inside the statements just produced are NOT revisited in this round)
		if !ok && in.rewriteNested(p, f, s) {
			changed = true
		}
	}
	return out, changed
}

func (in *inliner) rewriteNested(p *packages.Package, f *ast.File, s ast.Stmt) bool {
	changed := false
	switch x := s.(type) {
	case *ast.BlockStmt:
		changed = in.rewriteBlock(p, f, x)
	case *ast.IfStmt:
		if in.rewriteBlock(p, f, x.Body) {
			changed = true
		}
		switch e := x.Else.(type) {
		case *ast.BlockStmt:
			if in.rewriteBlock(p, f, e) {
				changed = true
			}
		case *ast.IfStmt:
			// else-if: wrap so that hoisting inside it is possible
			blk := &ast.BlockStmt{List: []ast.Stmt{e}}
			var ch bool
			blk.List, ch = in.rewriteList(p, f, blk.List)
			if ch {
				x.Else = blk
				changed = true
			}
		}
	case *ast.ForStmt:
		changed = in.rewriteBlock(p, f, x.Body)
	case *ast.RangeStmt:
		changed = in.rewriteBlock(p, f, x.Body)
	case *ast.SwitchStmt:
		changed = in.rewriteClauses(p, f, x.Body)
	case *ast.TypeSwitchStmt:
		changed = in.rewriteClauses(p, f, x.Body)
	case *ast.SelectStmt:
		changed = in.rewriteClauses(p, f, x.Body)
	case *ast.LabeledStmt:
		changed = in.rewriteNested(p, f, x.Stmt)
	}
	// function literals anywhere in the statement
	ast.Inspect(s, func(n ast.Node) bool {
		if fl, ok := n.(*ast.FuncLit); ok {
			if in.rewriteBlock(p, f, fl.Body) {
				changed = true
			}
			return false
		}
		switch n.(type) {
		case *ast.BlockStmt:
			return n == s // nested blocks are handled by the cases above
		}
		return true
	})
	return changed
}

func (in *inliner) rewriteClauses(p *packages.Package, f *ast.File, b *ast.BlockStmt) bool {
	changed := false
	for _, c := range b.List {
		switch cc := c.(type) {
		case *ast.CaseClause:
			var ch bool
			cc.Body, ch = in.rewriteList(p, f, cc.Body)
			changed = changed || ch
		case *ast.CommClause:
			var ch bool
			cc.Body, ch = in.rewriteList(p, f, cc.Body)
			changed = changed || ch
		}
	}
	return changed
}

func (in *inliner) wrapDeferredHelper(p *packages.Package, s ast.Stmt) ([]ast.Stmt, ast.Stmt) {
	var call *ast.CallExpr
	switch x := s.(type) {
	case *ast.DeferStmt:
		call = x.Call
	case *ast.GoStmt:
		call = x.Call
	default:
		return nil, nil
	}
	sh := in.shapeOf(p, call)
	if sh == nil || sh.fn == nil || call.Ellipsis.IsValid() || sh.sig.Variadic() || sh.sig.TypeParams().Len() > 0 {
		return nil, nil
	}
	if in.declPkg[sh.fn] != p {
		return nil, nil
	}
	inlineSeq++
	prefix := fmt.Sprintf("_inl%d", inlineSeq)
	var lhs, rhs []ast.Expr
	newCall := &ast.CallExpr{}
	// receiver
	if sh.recv != nil && len(sh.recv.List) == 1 {
		sel, ok := ast.Unparen(call.Fun).(*ast.SelectorExpr)
		if !ok {
			return nil, nil
		}
		if selInfo, ok := p.TypesInfo.Selections[sel]; ok && len(selInfo.Index()) > 1 {
			return nil, nil
		}
		name := prefix + "_recv"
		lhs = append(lhs, ast.NewIdent(name))
		rhs = append(rhs, copyExpr(sel.X))
		newCall.Fun = &ast.SelectorExpr{X: ast.NewIdent(name), Sel: ast.NewIdent(sel.Sel.Name)}
	} else {
		newCall.Fun = copyExpr(call.Fun)
	}
	ai := 0
	for _, fld := range sh.typ.Params.List {
		n := len(fld.Names)
		if n == 0 {
			n = 1
		}
		for j := 0; j < n; j++ {
			if ai >= len(call.Args) {
				return nil, nil
			}
			name := fmt.Sprintf("%s_a%d", prefix, ai)
			lhs = append(lhs, ast.NewIdent(name))
			if tv, ok := p.TypesInfo.Types[call.Args[ai]]; ok && tv.Value == nil && !tv.IsNil() && tv.Type != nil && ai < sh.sig.Params().Len() && types.Identical(tv.Type, sh.sig.Params().At(ai).Type()) {
				rhs = append(rhs, copyExpr(call.Args[ai]))
			} else {
				rhs = append(rhs, &ast.CallExpr{Fun: &ast.ParenExpr{X: copyExpr(fld.Type)}, Args: []ast.Expr{copyExpr(call.Args[ai])}})
			}
			newCall.Args = append(newCall.Args, ast.NewIdent(name))
			ai++
		}
	}
	if ai != len(call.Args) {
		return nil, nil
	}
	var pre []ast.Stmt
	if len(lhs) > 0 {
		pre = append(pre, &ast.AssignStmt{Lhs: lhs, Tok: token.DEFINE, Rhs: rhs})
	}
	lit := &ast.FuncLit{Type: &ast.FuncType{Params: &ast.FieldList{}}, Body: &ast.BlockStmt{List: []ast.Stmt{&ast.ExprStmt{X: newCall}}}}
	wrapped := &ast.CallExpr{Fun: lit}
	in.extraUses[sh.fn]++ // the call lives on inside the literal until the next round
	if _, isDefer := s.(*ast.DeferStmt); isDefer {
		return pre, &ast.DeferStmt{Call: wrapped}
	}
	return pre, &ast.GoStmt{Call: wrapped}
}

func (in *inliner) switchCallsHelper(p *packages.Package, sw *ast.SwitchStmt) bool {
	found := false
	for _, c := range sw.Body.List {
		for _, e := range c.(*ast.CaseClause).List {
			ast.Inspect(e, func(n ast.Node) bool {
				if _, isLit := n.(*ast.FuncLit); isLit {
					return false
				}
				if call, ok := n.(*ast.CallExpr); ok && in.shapeOf(p, call) != nil {
					found = true
				}
				return !found
			})
		}
	}
	return found
}

// switchToIfChain: `switch { case a: A; case b, c: B; default: D }` => `if a { A } else if b || c { B } else { D }`; nil
// when the bodies use break / fallthrough (whose meaning would change).
func switchToIfChain(sw *ast.SwitchStmt) ast.Stmt {
	ok := true
	var scan func(n ast.Node, nested bool)
	scan = func(n ast.Node, nested bool) {
		ast.Inspect(n, func(m ast.Node) bool {
			if m == nil || !ok {
				return false
			}
			switch x := m.(type) {
			case *ast.FuncLit:
				return false
			case *ast.BranchStmt:
				if x.Tok == token.FALLTHROUGH || (x.Tok == token.BREAK && x.Label == nil && !nested) {
					ok = false
				}
			case *ast.ForStmt, *ast.RangeStmt, *ast.SwitchStmt, *ast.TypeSwitchStmt, *ast.SelectStmt:
				if m != n {
					scan(m, true)
					return false
				}
			}
			return true
		})
	}
	var clauses []*ast.CaseClause
	var def *ast.CaseClause
	for _, c := range sw.Body.List {
		cc := c.(*ast.CaseClause)
		for _, st := range cc.Body {
			scan(st, false)
		}
		if cc.List == nil {
			def = cc
		} else {
			clauses = append(clauses, cc)
		}
	}
	if !ok || len(clauses) == 0 {
		return nil
	}
	// the default clause may stand anywhere in the source but is always evaluated last
	var tail ast.Stmt
	if def != nil {
		tail = &ast.BlockStmt{List: def.Body}
	}
	for i := len(clauses) - 1; i >= 0; i-- {
		cc := clauses[i]
		cond := cc.List[0]
		for _, e := range cc.List[1:] {
			cond = &ast.BinaryExpr{X: cond, Op: token.LOR, Y: e}
		}
		ifs := &ast.IfStmt{Cond: cond, Body: &ast.BlockStmt{List: cc.Body}}
		if tail != nil {
			ifs.Else = tail
		}
		tail = ifs
	}
	return tail
}

// hoistable expressions of a statement, in evaluation order.
func hoistExprs(s ast.Stmt) []*ast.Expr {
	switch x := s.(type) {
	case *ast.ExprStmt:
		return []*ast.Expr{&x.X}
	case *ast.AssignStmt:
		var out []*ast.Expr
		for i := range x.Rhs {
			out = append(out, &x.Rhs[i])
		}
		return out
	case *ast.ReturnStmt:
		var out []*ast.Expr
		for i := range x.Results {
			out = append(out, &x.Results[i])
		}
		return out
	case *ast.IfStmt:
		if x.Init == nil {
			return []*ast.Expr{&x.Cond}
		}
	case *ast.SwitchStmt:
		if x.Init == nil && x.Tag != nil {
			return []*ast.Expr{&x.Tag}
		}
	case *ast.RangeStmt:
		return []*ast.Expr{&x.X}
	case *ast.DeclStmt:
		if gd, ok := x.Decl.(*ast.GenDecl); ok && gd.Tok == token.VAR && len(gd.Specs) == 1 {
			if vs, ok := gd.Specs[0].(*ast.ValueSpec); ok {
				var out []*ast.Expr
				for i := range vs.Values {
					out = append(out, &vs.Values[i])
				}
				return out
			}
		}
	}
	return nil
}

// firstCall: the first function call in evaluation order within e (not inside function literals, not on the
// right of && / ||); conversions and side-effect-free builtins do not count. Returns the slot holding it.
func (in *inliner) firstCall(p *packages.Package, e *ast.Expr) (slot *ast.Expr, conditional bool) {
	var found *ast.Expr
	cond := false
	var walk func(pe *ast.Expr, underCond bool) bool // returns true when search must stop
	walk = func(pe *ast.Expr, underCond bool) bool {
		if pe == nil || *pe == nil {
			return false
		}
		switch x := (*pe).(type) {
		case *ast.FuncLit:
			return false
		case *ast.ParenExpr:
			return walk(&x.X, underCond)
		case *ast.BinaryExpr:
			if walk(&x.X, underCond) {
				return true
			}
			return walk(&x.Y, underCond || x.Op == token.LAND || x.Op == token.LOR)
		case *ast.UnaryExpr:
			if x.Op == token.ARROW {
				found, cond = nil, false
				return true // a receive is a side effect: stop
			}
			return walk(&x.X, underCond)
		case *ast.StarExpr:
			return walk(&x.X, underCond)
		case *ast.SelectorExpr:
			return walk(&x.X, underCond)
		case *ast.IndexExpr:
			return walk(&x.X, underCond) || walk(&x.Index, underCond)
		case *ast.SliceExpr:
			return walk(&x.X, underCond) || walk(&x.Low, underCond) || walk(&x.High, underCond) || walk(&x.Max, underCond)
		case *ast.TypeAssertExpr:
			return walk(&x.X, underCond)
		case *ast.CompositeLit:
			for i := range x.Elts {
				if kv, ok := x.Elts[i].(*ast.KeyValueExpr); ok {
					if walk(&kv.Value, underCond) {
						return true
					}
				} else if walk(&x.Elts[i], underCond) {
					return true
				}
			}
			return false
		case *ast.KeyValueExpr:
			return walk(&x.Value, underCond)
		case *ast.CallExpr:
			// a helper call is expanded as a whole: its receiver and arguments are bound, in order, before its body
			if in.shapeOf(p, x) != nil {
				found, cond = pe, underCond
				return true
			}
			// operands first
			if sel, ok := ast.Unparen(x.Fun).(*ast.SelectorExpr); ok {
				if walk(&sel.X, underCond) {
					return true
				}
			}
			for i := range x.Args {
				if walk(&x.Args[i], underCond) {
					return true
				}
			}
			if tv, ok := p.TypesInfo.Types[x.Fun]; ok && tv.IsType() {
				return false // conversion
			}
			if id, ok := ast.Unparen(x.Fun).(*ast.Ident); ok {
				if _, isB := p.TypesInfo.Uses[id].(*types.Builtin); isB && (id.Name == "len" || id.Name == "cap" || id.Name == "new" || id.Name == "make") {
					return false
				}
			}
			found, cond = pe, underCond
			return true
		}
		return false
	}
	walk(e, false)
	return found, cond
}

// splitShortCircuitIf: see rewriteList. nil when the condition has no helper call on the right of && / ||, or when the
// part that would have to be written twice cannot be copied (labels, function literals, or simply long).
func (in *inliner) splitShortCircuitIf(p *packages.Package, ifs *ast.IfStmt) ast.Stmt {
	be, ok := ast.Unparen(ifs.Cond).(*ast.BinaryExpr)
	if !ok || (be.Op != token.LOR && be.Op != token.LAND) {
		return nil
	}
	var needs func(b *ast.BinaryExpr) bool
	needs = func(b *ast.BinaryExpr) bool {
		if in.containsHelperCall(p, b.Y) {
			return true
		}
		if x, ok := ast.Unparen(b.X).(*ast.BinaryExpr); ok && (x.Op == token.LOR || x.Op == token.LAND) {
			return needs(x)
		}
		return false
	}
	if !needs(be) {
		return nil
	}
	copyable := func(n ast.Node) bool {
		if n == nil {
			return true
		}
		okc := true
		stmts := 0
		ast.Inspect(n, func(m ast.Node) bool {
			switch m.(type) {
			case *ast.LabeledStmt, *ast.FuncLit:
				okc = false
			case ast.Stmt:
				stmts++
			}
			return okc
		})
		return okc && stmts <= 12
	}
	if be.Op == token.LAND {
		inner := &ast.IfStmt{Cond: be.Y, Body: ifs.Body, Else: ifs.Else}
		outer := &ast.IfStmt{Cond: be.X, Body: &ast.BlockStmt{List: []ast.Stmt{inner}}}
		if ifs.Else != nil {
			if !copyable(ifs.Else) {
				return nil
			}
			outer.Else = &ast.BlockStmt{List: []ast.Stmt{copyNode(ifs.Else).(ast.Stmt)}}
		}
		return outer
	}
	if !copyable(ifs.Body) {
		return nil
	}
	second := &ast.IfStmt{Cond: be.Y, Body: copyNode(ifs.Body).(*ast.BlockStmt), Else: ifs.Else}
	return &ast.IfStmt{Cond: be.X, Body: ifs.Body, Else: &ast.BlockStmt{List: []ast.Stmt{second}}}
}

// containsHelperCall: e contains a call of an expandable helper (not inside a function literal).
func (in *inliner) containsHelperCall(p *packages.Package, e ast.Expr) bool {
	found := false
	ast.Inspect(e, func(n ast.Node) bool {
		switch x := n.(type) {
		case *ast.FuncLit:
			return false
		case *ast.CallExpr:
			if in.shapeOf(p, x) != nil {
				found = true
			}
		}
		return !found
	})
	return found
}

func (in *inliner) firstHelperCall(p *packages.Package, s ast.Stmt) *ast.CallExpr {
	for _, pe := range hoistExprs(s) {
		slot, cond := in.firstCall(p, pe)
		if slot == nil {
			continue
		}
		call := (*slot).(*ast.CallExpr)
		if cond {
			return nil
		}
		if in.shapeOf(p, call) != nil {
			return call
		}
		return nil // some other call comes first: do not reorder
	}
	return nil
}

// inlineInStmt: if the first call evaluated by s is a helper call, returns the statements to put before s and the rewritten s.
func (in *inliner) inlineInStmt(p *packages.Package, f *ast.File, s ast.Stmt) ([]ast.Stmt, ast.Stmt, bool) {
	exprs := hoistExprs(s)
	// calls evaluated BEFORE a helper call in the same statement are moved into temporaries first, in order, so that
	// expanding the helper does not reorder anything (`T{A: x.Names(), B: helper(y)}`)
	var hoisted []ast.Stmt
	for round := 0; round < 8 && in.laterHelperCall(p, exprs); round++ {
		moved := false
		for _, pe := range exprs {
			slot, cond := in.firstCall(p, pe)
			if slot == nil {
				continue
			}
			call := (*slot).(*ast.CallExpr)
			if cond || in.shapeOf(p, call) != nil {
				break
			}
			tv, ok := p.TypesInfo.Types[call]
			if !ok || tv.Type == nil {
				break
			}
			if _, isTuple := tv.Type.(*types.Tuple); isTuple || tv.IsVoid() {
				break
			}
			inlineSeq++
			name := fmt.Sprintf("_inl%d_t", inlineSeq)
			hoisted = append(hoisted, &ast.AssignStmt{Lhs: []ast.Expr{ast.NewIdent(name)}, Tok: token.DEFINE, Rhs: []ast.Expr{call}})
			*slot = ast.NewIdent(name)
			moved = true
			break
		}
		if !moved {
			break
		}
	}
	if len(hoisted) > 0 {
		pre, ns, ok := in.inlineInStmtCore(p, f, s, exprs)
		if !ok {
			return hoisted, s, true
		}
		return append(hoisted, pre...), ns, true
	}
	return in.inlineInStmtCore(p, f, s, exprs)
}

// laterHelperCall: the first call evaluated by the statement is not a helper call, but some later one (not inside a
// function literal, not conditional) is.
func (in *inliner) laterHelperCall(p *packages.Package, exprs []*ast.Expr) bool {
	first := true
	found := false
	for _, pe := range exprs {
		var walk func(n ast.Node, cond bool)
		walk = func(n ast.Node, cond bool) {
			ast.Inspect(n, func(m ast.Node) bool {
				if m == nil || found {
					return false
				}
				switch x := m.(type) {
				case *ast.FuncLit:
					return false
				case *ast.BinaryExpr:
					if x.Op == token.LAND || x.Op == token.LOR {
						walk(x.X, cond)
						walk(x.Y, true)
						return false
					}
				case *ast.CallExpr:
					if in.shapeOf(p, x) != nil {
						if !first && !cond {
							found = true
						}
						return false
					}
				}
				return true
			})
		}
		slot, _ := in.firstCall(p, pe)
		if slot != nil && first {
			if in.shapeOf(p, (*slot).(*ast.CallExpr)) != nil {
				return false // the helper call comes first: nothing to move
			}
			first = false
		}
		walk(*pe, false)
	}
	return found
}

func (in *inliner) inlineInStmtCore(p *packages.Package, f *ast.File, s ast.Stmt, exprs []*ast.Expr) ([]ast.Stmt, ast.Stmt, bool) {
	for _, pe := range exprs {
		slot, cond := in.firstCall(p, pe)
		if slot == nil {
			continue
		}
		call := (*slot).(*ast.CallExpr)
		sh := in.shapeOf(p, call)
		if cond || sh == nil {
			return nil, nil, false
		}
		nres := sh.sig.Results().Len()
		// multi-value results are only usable when the call is the sole RHS / result
		if nres > 1 && !(len(exprs) == 1 && slot == pe) {
			in.skipped[sh.name] = "multi-value call in an unsupported position"
			return nil, nil, false
		}
		if nres == 0 {
			if _, ok := s.(*ast.ExprStmt); !ok || slot != pe {
				return nil, nil, false
			}
		}
		tail := false
		if rs, isRet := s.(*ast.ReturnStmt); isRet && len(rs.Results) == 1 && slot == &rs.Results[0] && nres >= 1 {
			tail = true
			// named results with a blank name cannot be returned explicitly
			if sh.typ.Results != nil {
				for _, fld := range sh.typ.Results.List {
					for _, nm := range fld.Names {
						if nm.Name == "_" {
							tail = false
						}
					}
				}
			}
		}
		if sh.fn != nil && in.hasDefer[sh.fn] && !tail && !in.simpleDefer[sh.fn] {
			in.skipped[sh.name] = "uses defer in a way that cannot be expanded outside a tail call"
			return nil, nil, false
		}
		pre, outs, ok := in.expand(p, f, call, sh, tail)
		if !ok {
			return nil, nil, false
		}
		if tail {
			in.inlined[sh.name]++
			if sh.fn != nil {
				in.inlinedObj[sh.fn]++
			} else {
				sh.lv.expanded++
			}
			return pre, nil, true
		}
		in.inlined[sh.name]++
		if sh.fn != nil {
			in.inlinedObj[sh.fn]++
		} else {
			sh.lv.expanded++
		}
		switch {
		case nres == 0:
			return pre, nil, true
		case nres == 1:
			if es, isExpr := s.(*ast.ExprStmt); isExpr && ast.Unparen(es.X) == ast.Expr(call) {
				return pre, nil, true // the result was discarded: nothing is left of the statement
			}
			*slot = outs[0]
			return pre, s, true
		default:
			switch x := s.(type) {
			case *ast.AssignStmt:
				x.Rhs = outs
			case *ast.ReturnStmt:
				x.Results = outs
			case *ast.DeclStmt:
				x.Decl.(*ast.GenDecl).Specs[0].(*ast.ValueSpec).Values = outs
			case *ast.ExprStmt:
				return pre, nil, true
			default:
				return nil, nil, false
			}
			return pre, s, true
		}
	}
	return nil, nil, false
}

// expand builds the statements that replace the call.
func (in *inliner) expand(p *packages.Package, f *ast.File, call *ast.CallExpr, sh *calleeShape, tail bool) ([]ast.Stmt, []ast.Expr, bool) {
	fd := &ast.FuncDecl{Type: sh.typ, Body: sh.body, Recv: sh.recv}
	cp := p
	if sh.fn != nil && !sh.model {
		cp = in.declPkg[sh.fn]
	}
	fname := sh.name
	if cp != p {
		in.skipped[fname] = "called from another package"
		return nil, nil, false
	}
	// identifiers of the callee that denote package-level objects or imports must mean the same at the call site
	scope := p.Types.Scope().Innermost(call.Pos())
	conflict := ""
	needImports := map[string]string{} // name -> path
	// an argument that already has exactly the parameter's type is bound without writing the type (whose name might
	// mean something else at the call site)
	plain := func(arg ast.Expr, want types.Type) bool {
		if sh.sig.TypeParams().Len() > 0 || want == nil {
			return false
		}
		tv, ok := p.TypesInfo.Types[arg]
		if !ok || tv.Value != nil || tv.Type == nil || tv.IsNil() {
			return false
		}
		if _, isFunc := want.Underlying().(*types.Signature); isFunc {
			return false // callbacks keep the conversion form (see collectLitVars)
		}
		return types.Identical(tv.Type, want)
	}
	plainParam := map[ast.Expr]bool{} // parameter type expressions that need not be written
	{
		ai := 0
		pi := 0
		for _, fld := range fd.Type.Params.List {
			n := len(fld.Names)
			if n == 0 {
				n = 1
			}
			all := true
			for j := 0; j < n; j++ {
				if _, isEll := fld.Type.(*ast.Ellipsis); isEll || ai >= len(call.Args) || pi >= sh.sig.Params().Len() || call.Ellipsis.IsValid() {
					all = false
				} else if !plain(call.Args[ai], sh.sig.Params().At(pi).Type()) {
					all = false
				}
				ai++
				pi++
			}
			if all {
				plainParam[fld.Type] = true
			}
		}
	}
	plainRecv := false
	if fd.Recv != nil && len(fd.Recv.List) == 1 && sh.sig.Recv() != nil {
		if sel, ok := ast.Unparen(call.Fun).(*ast.SelectorExpr); ok {
			plainRecv = plain(sel.X, sh.sig.Recv().Type())
		}
	}
	var scanNodes []ast.Node
	scanNodes = append(scanNodes, fd.Body)
	for _, fld := range fd.Type.Params.List {
		if !plainParam[fld.Type] {
			scanNodes = append(scanNodes, fld.Type)
		}
	}
	if fd.Type.Results != nil && !tail {
		scanNodes = append(scanNodes, fd.Type.Results)
	}
	if fd.Recv != nil && !plainRecv {
		scanNodes = append(scanNodes, fd.Recv)
	}
	scanAll := func(visit func(n ast.Node) bool) {
		for _, sn := range scanNodes {
			ast.Inspect(sn, visit)
		}
	}
	scanAll(func(n ast.Node) bool {
		id, ok := n.(*ast.Ident)
		if !ok || sh.fn == nil {
			return sh.fn != nil
		}
		obj := cp.TypesInfo.Uses[id]
		if obj == nil {
			return true
		}
		switch o := obj.(type) {
		case *types.PkgName:
			needImports[id.Name] = o.Imported().Path()
			if scope != nil {
				if _, found := scope.LookupParent(id.Name, call.Pos()); found != nil {
					if pn, ok := found.(*types.PkgName); !ok || pn.Imported().Path() != o.Imported().Path() {
						if _, isPkg := found.(*types.PkgName); !isPkg {
							conflict = "identifier " + id.Name + " is shadowed at the call site"
						}
					}
				}
			}
		default:
			if obj.Parent() == cp.Types.Scope() || obj.Parent() == types.Universe {
				if scope != nil {
					if _, found := scope.LookupParent(id.Name, call.Pos()); found != nil && found != obj {
						conflict = "identifier " + id.Name + " is shadowed at the call site"
					}
				}
			}
		}
		return true
	})
	if conflict != "" {
		in.skipped[fname] = conflict
		return nil, nil, false
	}
	for name, path := range needImports {
		if !ensureImport(f, name, path) {
			in.skipped[fname] = "import name " + name + " clashes in the caller's file"
			return nil, nil, false
		}
	}
	// helper calls still present in the body about to be copied get a second life in the caller
	ast.Inspect(sh.body, func(n ast.Node) bool {
		if ce, ok := n.(*ast.CallExpr); ok {
			if callee := in.calleeOf(cp, ce); callee != nil && in.helpers[callee] {
				in.extraUses[callee]++
			}
		}
		return true
	})
	// generic helper: the type arguments of this call replace the type parameters (by name) in everything copied
	var typeSubst map[string]ast.Expr
	if sh.fn != nil && sh.sig.TypeParams().Len() > 0 {
		var fid *ast.Ident
		switch x := ast.Unparen(call.Fun).(type) {
		case *ast.Ident:
			fid = x
		case *ast.SelectorExpr:
			fid = x.Sel
		}
		inst, okInst := p.TypesInfo.Instances[fid]
		if fid == nil || !okInst || inst.TypeArgs.Len() != sh.sig.TypeParams().Len() {
			in.skipped[fname] = "generic call whose type arguments could not be determined"
			return nil, nil, false
		}
		typeSubst = map[string]ast.Expr{}
		for i := 0; i < inst.TypeArgs.Len(); i++ {
			failed := false
			str := types.TypeString(inst.TypeArgs.At(i), func(other *types.Package) string {
				if other == p.Types {
					return ""
				}
				for _, imp := range f.Imports {
					if strings.Trim(imp.Path.Value, `"`) == other.Path() {
						if imp.Name != nil {
							if imp.Name.Name == "." || imp.Name.Name == "_" {
								failed = true
							}
							return imp.Name.Name
						}
						return other.Name()
					}
				}
				if !ensureImport(f, other.Name(), other.Path()) {
					failed = true
				}
				return other.Name()
			})
			e, perr := parser.ParseExpr(str)
			if perr != nil || failed {
				in.skipped[fname] = "generic call with a type argument that cannot be written at the call site: " + str
				return nil, nil, false
			}
			typeSubst[sh.sig.TypeParams().At(i).Obj().Name()] = copyExpr(e)
		}
	}
	substTypes := func(n ast.Node) ast.Node {
		if typeSubst == nil || n == nil {
			return n
		}
		return astutil.Apply(n, func(c *astutil.Cursor) bool {
			if id, ok := c.Node().(*ast.Ident); ok {
				if e, ok := typeSubst[id.Name]; ok {
					if _, isSelSel := c.Parent().(*ast.SelectorExpr); isSelSel && c.Name() == "Sel" {
						return true
					}
					switch e.(type) {
					case *ast.StarExpr, *ast.FuncType, *ast.ChanType:
						c.Replace(&ast.ParenExpr{X: copyExpr(e)})
					default:
						c.Replace(copyExpr(e))
					}
				}
			}
			return true
		}, nil)
	}
	inlineSeq++
	in.n = inlineSeq
	label := fmt.Sprintf("_inl%d", in.n)
	sig := sh.sig

	var pre []ast.Stmt
	var outs []ast.Expr
	// result variables
	ri := 0
	var resultNames []string // named results of the callee
	if fd.Type.Results != nil {
		for _, fld := range fd.Type.Results.List {
			n := len(fld.Names)
			if n == 0 {
				n = 1
			}
			for j := 0; j < n; j++ {
				name := fmt.Sprintf("%s_r%d", label, ri)
				if !tail {
					pre = append(pre, &ast.DeclStmt{Decl: &ast.GenDecl{Tok: token.VAR, Specs: []ast.Spec{&ast.ValueSpec{Names: []*ast.Ident{ast.NewIdent(name)}, Type: substTypes(copyExpr(fld.Type)).(ast.Expr)}}}})
					outs = append(outs, ast.NewIdent(name))
				}
				if len(fld.Names) > 0 {
					resultNames = append(resultNames, fld.Names[j].Name)
				} else {
					resultNames = append(resultNames, "")
				}
				ri++
			}
		}
	}
	var body []ast.Stmt
	// marks the statements that follow as the product of an expansion (see collectLitVars)
	body = append(body, &ast.DeclStmt{Decl: &ast.GenDecl{Tok: token.CONST, Specs: []ast.Spec{&ast.ValueSpec{Names: []*ast.Ident{ast.NewIdent(label + "_m")}, Values: []ast.Expr{&ast.BasicLit{Kind: token.INT, Value: "0"}}}}}})
	// parameter bindings
	var lhs []ast.Expr
	var rhs []ast.Expr
	var used []ast.Stmt
	bindPlain := false
	bind := func(name string, typ ast.Expr, val ast.Expr) {
		if name == "" || name == "_" {
			inlineSeq++
			in.n = inlineSeq
			name = fmt.Sprintf("%s_u%d", label, in.n)
		}
		// `s := s` (same name, same type, never assigned in the helper) would only shadow the caller's variable - which
		// closures passed as arguments refer to - so it is left out
		if id, isId := val.(*ast.Ident); isId && bindPlain && id.Name == name && !assignedIn(fd.Body, name) {
			return
		}
		lhs = append(lhs, ast.NewIdent(name))
		if bindPlain {
			rhs = append(rhs, val)
		} else {
			rhs = append(rhs, &ast.CallExpr{Fun: &ast.ParenExpr{X: typ}, Args: []ast.Expr{val}})
		}
		used = append(used, &ast.AssignStmt{Lhs: []ast.Expr{ast.NewIdent("_")}, Tok: token.ASSIGN, Rhs: []ast.Expr{ast.NewIdent(name)}})
	}
	if fd.Recv != nil && len(fd.Recv.List) == 1 {
		sel, ok := ast.Unparen(call.Fun).(*ast.SelectorExpr)
		if !ok {
			in.skipped[fname] = "method called through an unsupported expression"
			return nil, nil, false
		}
		recvExpr := copyExpr(sel.X)
		recvT := sig.Recv().Type()
		argT := p.TypesInfo.TypeOf(sel.X)
		_, wantPtr := recvT.(*types.Pointer)
		_, havePtr := argT.Underlying().(*types.Pointer)
		if s, ok := p.TypesInfo.Selections[sel]; ok && len(s.Index()) > 1 {
			in.skipped[fname] = "promoted method"
			return nil, nil, false
		}
		switch {
		case wantPtr && !havePtr:
			recvExpr = &ast.UnaryExpr{Op: token.AND, X: recvExpr}
		case !wantPtr && havePtr:
			recvExpr = &ast.StarExpr{X: recvExpr}
		}
		name := ""
		if len(fd.Recv.List[0].Names) == 1 {
			name = fd.Recv.List[0].Names[0].Name
		}
		bindPlain = plainRecv && recvExpr == copyExprIdentity(recvExpr) && !(wantPtr && !havePtr) && !(!wantPtr && havePtr)
		bind(name, copyExpr(fd.Recv.List[0].Type), recvExpr)
		bindPlain = false
	}
	ai := 0
	for _, fld := range fd.Type.Params.List {
		names := fld.Names
		if len(names) == 0 {
			names = []*ast.Ident{ast.NewIdent("_")}
		}
		for _, nm := range names {
			if ell, ok := fld.Type.(*ast.Ellipsis); ok {
				sliceT := &ast.ArrayType{Elt: substTypes(copyExpr(ell.Elt)).(ast.Expr)}
				if call.Ellipsis.IsValid() {
					bind(nm.Name, sliceT, copyExpr(call.Args[ai]))
				} else {
					lit := &ast.CompositeLit{Type: sliceT}
					for _, a := range call.Args[ai:] {
						lit.Elts = append(lit.Elts, copyExpr(a))
					}
					bind(nm.Name, copyExpr(sliceT), lit)
				}
				ai = len(call.Args)
				continue
			}
			if ai >= len(call.Args) {
				in.skipped[fname] = "argument count mismatch (call of a multi-value expression)"
				return nil, nil, false
			}
			bindPlain = plainParam[fld.Type]
			bind(nm.Name, substTypes(copyExpr(fld.Type)).(ast.Expr), copyExpr(call.Args[ai]))
			bindPlain = false
			ai++
		}
	}
	if len(lhs) > 0 {
		body = append(body, &ast.AssignStmt{Lhs: lhs, Tok: token.DEFINE, Rhs: rhs})
		body = append(body, used...)
	}
	// named results are ordinary locals of the inlined body
	if fd.Type.Results != nil {
		for _, fld := range fd.Type.Results.List {
			for _, nm := range fld.Names {
				if nm.Name == "_" {
					continue
				}
				body = append(body, &ast.DeclStmt{Decl: &ast.GenDecl{Tok: token.VAR, Specs: []ast.Spec{&ast.ValueSpec{Names: []*ast.Ident{ast.NewIdent(nm.Name)}, Type: substTypes(copyExpr(fld.Type)).(ast.Expr)}}}})
				body = append(body, &ast.AssignStmt{Lhs: []ast.Expr{ast.NewIdent("_")}, Tok: token.ASSIGN, Rhs: []ast.Expr{ast.NewIdent(nm.Name)}})
			}
		}
	}
	cb := substTypes(copyNode(fd.Body)).(*ast.BlockStmt)
	// labels and temporaries of earlier expansions inside the copied body must stay unique in the caller
	ast.Inspect(cb, func(n ast.Node) bool {
		if id, ok := n.(*ast.Ident); ok && strings.HasPrefix(id.Name, "_inl") {
			id.Name = id.Name + "c" + label[4:]
		}
		return true
	})
	if tail {
		// `return h(...)`: the helper's returns ARE the caller's returns (no merge of the result values is created)
		explicitReturns(cb, resultNames)
		body = append(body, cb.List...)
		return []ast.Stmt{&ast.BlockStmt{List: body}}, nil, true
	}
	// simple top-level defers run when the helper returns, i.e. right after the expansion (last one first)
	var after []ast.Stmt
	if sh.fn != nil && in.hasDefer[sh.fn] {
		var keep []ast.Stmt
		var decls []ast.Stmt
		nd := 0
		for _, st := range cb.List {
			if d, ok := st.(*ast.DeferStmt); ok {
				if in.guardedDefer[sh.fn] {
					// the defer may not be reached: remember the call where it is reached, run it after the expansion
					dn := fmt.Sprintf("%s_d%d", label, nd)
					nd++
					decls = append(decls, &ast.DeclStmt{Decl: &ast.GenDecl{Tok: token.VAR, Specs: []ast.Spec{&ast.ValueSpec{Names: []*ast.Ident{ast.NewIdent(dn)}, Type: &ast.FuncType{Params: &ast.FieldList{}}}}}})
					keep = append(keep, &ast.AssignStmt{Lhs: []ast.Expr{ast.NewIdent(dn)}, Tok: token.ASSIGN, Rhs: []ast.Expr{&ast.FuncLit{Type: &ast.FuncType{Params: &ast.FieldList{}}, Body: &ast.BlockStmt{List: []ast.Stmt{&ast.ExprStmt{X: d.Call}}}}}})
					after = append([]ast.Stmt{&ast.IfStmt{Cond: &ast.BinaryExpr{X: ast.NewIdent(dn), Op: token.NEQ, Y: ast.NewIdent("nil")}, Body: &ast.BlockStmt{List: []ast.Stmt{&ast.ExprStmt{X: &ast.CallExpr{Fun: ast.NewIdent(dn)}}}}}}, after...)
					continue
				}
				after = append([]ast.Stmt{&ast.ExprStmt{X: d.Call}}, after...)
				continue
			}
			keep = append(keep, st)
		}
		cb.List = keep
		body = append(body, decls...)
	}
	rewriteReturns(cb, label, outs, resultNames)
	if len(after) > 0 {
		// the deferred calls refer to the helper's parameters: keep those in scope around the one-trip loop
		inner := append(append([]ast.Stmt{}, cb.List...), &ast.BranchStmt{Tok: token.BREAK, Label: ast.NewIdent(label)})
		loop := &ast.LabeledStmt{Label: ast.NewIdent(label), Stmt: &ast.ForStmt{Body: &ast.BlockStmt{List: inner}}}
		outer := append(append(append([]ast.Stmt{}, body...), loop), after...)
		pre = append(pre, &ast.BlockStmt{List: outer})
		return pre, outs, true
	}
	body = append(body, cb.List...)
	body = append(body, &ast.BranchStmt{Tok: token.BREAK, Label: ast.NewIdent(label)})
	loop := &ast.LabeledStmt{Label: ast.NewIdent(label), Stmt: &ast.ForStmt{Body: &ast.BlockStmt{List: body}}}
	pre = append(pre, loop)
	return pre, outs, true
}

// explicitReturns turns naked returns of a body with named results into explicit ones (not inside function literals).
func explicitReturns(b *ast.BlockStmt, resultNames []string) {
	ast.Inspect(b, func(n ast.Node) bool {
		switch x := n.(type) {
		case *ast.FuncLit:
			return false
		case *ast.ReturnStmt:
			if len(x.Results) == 0 {
				for _, nm := range resultNames {
					if nm == "" || nm == "_" {
						return true
					}
				}
				for _, nm := range resultNames {
					x.Results = append(x.Results, ast.NewIdent(nm))
				}
			}
		}
		return true
	})
}

// rewriteReturns replaces return statements of the inlined body (not those of nested function literals).
func rewriteReturns(b *ast.BlockStmt, label string, outs []ast.Expr, resultNames []string) {
	var fixList func(list []ast.Stmt) []ast.Stmt
	var fixStmt func(s ast.Stmt) ast.Stmt
	mk := func(r *ast.ReturnStmt) ast.Stmt {
		var stmts []ast.Stmt
		if len(outs) > 0 {
			var rhs []ast.Expr
			if len(r.Results) == 0 {
				for _, n := range resultNames {
					rhs = append(rhs, ast.NewIdent(n))
				}
			} else {
				rhs = r.Results
			}
			lhs := make([]ast.Expr, len(outs))
			for i, o := range outs {
				lhs[i] = ast.NewIdent(o.(*ast.Ident).Name)
			}
			stmts = append(stmts, &ast.AssignStmt{Lhs: lhs, Tok: token.ASSIGN, Rhs: rhs})
		}
		stmts = append(stmts, &ast.BranchStmt{Tok: token.BREAK, Label: ast.NewIdent(label)})
		return &ast.BlockStmt{List: stmts}
	}
	fixStmt = func(s ast.Stmt) ast.Stmt {
		switch x := s.(type) {
		case *ast.ReturnStmt:
			return mk(x)
		case *ast.BlockStmt:
			x.List = fixList(x.List)
		case *ast.IfStmt:
			x.Body.List = fixList(x.Body.List)
			if x.Else != nil {
				x.Else = fixStmt(x.Else)
			}
		case *ast.ForStmt:
			x.Body.List = fixList(x.Body.List)
		case *ast.RangeStmt:
			x.Body.List = fixList(x.Body.List)
		case *ast.SwitchStmt:
			for _, c := range x.Body.List {
				cc := c.(*ast.CaseClause)
				cc.Body = fixList(cc.Body)
			}
		case *ast.TypeSwitchStmt:
			for _, c := range x.Body.List {
				cc := c.(*ast.CaseClause)
				cc.Body = fixList(cc.Body)
			}
		case *ast.SelectStmt:
			for _, c := range x.Body.List {
				cc := c.(*ast.CommClause)
				cc.Body = fixList(cc.Body)
			}
		case *ast.LabeledStmt:
			x.Stmt = fixStmt(x.Stmt)
		}
		return s
	}
	fixList = func(list []ast.Stmt) []ast.Stmt {
		for i := range list {
			list[i] = fixStmt(list[i])
		}
		return list
	}
	b.List = fixList(b.List)
}

// pruneImports removes imports that nothing in the (rewritten) file refers to any more - dropping an inlined helper can
// leave its file with an import only the helper used, which does not compile.
func pruneImports(f *ast.File, pkgNames map[string]string) {
	used := map[string]bool{}
	ast.Inspect(f, func(n ast.Node) bool {
		if _, isImp := n.(*ast.ImportSpec); isImp {
			return false
		}
		if sel, ok := n.(*ast.SelectorExpr); ok {
			if id, ok := sel.X.(*ast.Ident); ok {
				used[id.Name] = true
			}
		}
		return true
	})
	keep := func(imp *ast.ImportSpec) bool {
		if imp.Name != nil {
			return imp.Name.Name == "_" || imp.Name.Name == "." || used[imp.Name.Name]
		}
		path := strings.Trim(imp.Path.Value, `"`)
		if n, ok := pkgNames[path]; ok && n != "" {
			return used[n]
		}
		base := path[strings.LastIndex(path, "/")+1:]
		if used[base] {
			return true
		}
		// package name differing from the last path element (v2 suffixes, go-xyz): keep unless clearly unused
		if strings.HasPrefix(base, "v") && len(base) <= 3 {
			parts := strings.Split(path, "/")
			if len(parts) >= 2 && used[parts[len(parts)-2]] {
				return true
			}
		}
		for name := range used {
			if strings.Contains(base, name) && len(name) >= 3 {
				return true
			}
		}
		return false
	}
	var imports []*ast.ImportSpec
	for _, d := range f.Decls {
		gd, ok := d.(*ast.GenDecl)
		if !ok || gd.Tok != token.IMPORT {
			continue
		}
		var specs []ast.Spec
		for _, sp := range gd.Specs {
			if imp := sp.(*ast.ImportSpec); keep(imp) {
				specs = append(specs, sp)
				imports = append(imports, imp)
			}
		}
		gd.Specs = specs
	}
	f.Imports = imports
	// an emptied import declaration must go altogether
	var decls []ast.Decl
	for _, d := range f.Decls {
		if gd, ok := d.(*ast.GenDecl); ok && gd.Tok == token.IMPORT && len(gd.Specs) == 0 {
			continue
		}
		decls = append(decls, d)
	}
	f.Decls = decls
}

func ensureImport(f *ast.File, name, path string) bool {
	for _, imp := range f.Imports {
		ipath := strings.Trim(imp.Path.Value, `"`)
		local := ""
		if imp.Name != nil {
			local = imp.Name.Name
		} else {
			local = ipath[strings.LastIndex(ipath, "/")+1:]
		}
		if ipath == path {
			return local == name || imp.Name == nil && true && lastElemMatches(ipath, name)
		}
		if local == name {
			return false
		}
	}
	spec := &ast.ImportSpec{Path: &ast.BasicLit{Kind: token.STRING, Value: fmt.Sprintf("%q", path)}}
	if !lastElemMatches(path, name) {
		spec.Name = ast.NewIdent(name)
	}
	f.Imports = append(f.Imports, spec)
	// attach to (or create) an import declaration
	for _, d := range f.Decls {
		if gd, ok := d.(*ast.GenDecl); ok && gd.Tok == token.IMPORT {
			gd.Specs = append(gd.Specs, spec)
			if !gd.Lparen.IsValid() {
				gd.Lparen = gd.Pos()
				gd.Rparen = gd.End()
			}
			return true
		}
	}
	f.Decls = append([]ast.Decl{&ast.GenDecl{Tok: token.IMPORT, Specs: []ast.Spec{spec}}}, f.Decls...)
	return true
}

func lastElemMatches(path, name string) bool {
	return path[strings.LastIndex(path, "/")+1:] == name
}

func copyExprIdentity(e ast.Expr) ast.Expr { return e }

// assignedIn: the name is assigned, incremented, redeclared or has its address taken somewhere in the body.
func assignedIn(body *ast.BlockStmt, name string) bool {
	found := false
	ast.Inspect(body, func(n ast.Node) bool {
		switch x := n.(type) {
		case *ast.AssignStmt:
			for _, l := range x.Lhs {
				if id, ok := l.(*ast.Ident); ok && id.Name == name {
					found = true
				}
			}
		case *ast.IncDecStmt:
			if id, ok := x.X.(*ast.Ident); ok && id.Name == name {
				found = true
			}
		case *ast.UnaryExpr:
			if id, ok := x.X.(*ast.Ident); ok && x.Op == token.AND && id.Name == name {
				found = true
			}
		case *ast.RangeStmt:
			for _, e := range []ast.Expr{x.Key, x.Value} {
				if id, ok := e.(*ast.Ident); ok && id.Name == name {
					found = true
				}
			}
		case *ast.ValueSpec:
			for _, id := range x.Names {
				if id.Name == name {
					found = true
				}
			}
		}
		return !found
	})
	return found
}

// ---- AST copying (positions are dropped so that the printer lays the code out afresh) ----

func copyExpr(e ast.Expr) ast.Expr {
	if e == nil {
		return nil
	}
	return copyNode(e).(ast.Expr)
}

func copyNode(n ast.Node) ast.Node {
	v := copyValue(reflect.ValueOf(n))
	return v.Interface().(ast.Node)
}

var posType = reflect.TypeOf(token.NoPos)

func copyValue(v reflect.Value) reflect.Value {
	switch v.Kind() {
	case reflect.Ptr:
		if v.IsNil() {
			return v
		}
		if v.Type() == reflect.TypeOf((*ast.Object)(nil)) || v.Type() == reflect.TypeOf((*ast.Scope)(nil)) {
			return reflect.Zero(v.Type())
		}
		n := reflect.New(v.Type().Elem())
		n.Elem().Set(copyValue(v.Elem()))
		return n
	case reflect.Interface:
		if v.IsNil() {
			return v
		}
		c := copyValue(v.Elem())
		n := reflect.New(v.Type()).Elem()
		n.Set(c)
		return n
	case reflect.Slice:
		if v.IsNil() {
			return v
		}
		n := reflect.MakeSlice(v.Type(), v.Len(), v.Len())
		for i := 0; i < v.Len(); i++ {
			n.Index(i).Set(copyValue(v.Index(i)))
		}
		return n
	case reflect.Struct:
		n := reflect.New(v.Type()).Elem()
		for i := 0; i < v.NumField(); i++ {
			f := v.Field(i)
			if !n.Field(i).CanSet() {
				continue
			}
			if f.Type() == posType {
				// a few positions carry meaning by being valid: keep them valid
				switch v.Type().Name() + "." + v.Type().Field(i).Name {
				case "CallExpr.Ellipsis", "GenDecl.Lparen", "GenDecl.Rparen", "TypeSpec.Assign":
					if f.Interface().(token.Pos).IsValid() {
						n.Field(i).Set(reflect.ValueOf(token.Pos(1)))
					}
				}
				continue
			}
			n.Field(i).Set(copyValue(f))
		}
		return n
	}
	return v
}

// writeBaseline regenerates baseline_funcs.txt from the currently loaded tree (maintenance command).
func writeBaseline(pkgs []*packages.Package, path string) error {
	var names []string
	for _, p := range pkgs {
		if !strings.HasPrefix(p.PkgPath, modulePath) {
			continue
		}
		for _, f := range p.Syntax {
			for _, d := range f.Decls {
				if fd, ok := d.(*ast.FuncDecl); ok {
					if obj, _ := p.TypesInfo.Defs[fd.Name].(*types.Func); obj != nil {
						// name <TAB> signature (receiver excluded), used to tell a rename from a replacement
						names = append(names, obj.FullName()+"\t"+sigString(obj))
					}
				}
			}
		}
	}
	// struct fields of the module's types, next to it
	var fields []string
	for _, p := range pkgs {
		if !strings.HasPrefix(p.PkgPath, modulePath) {
			continue
		}
		sc := p.Types.Scope()
		for _, n := range sc.Names() {
			tn, ok := sc.Lookup(n).(*types.TypeName)
			if !ok {
				continue
			}
			if st, ok := tn.Type().Underlying().(*types.Struct); ok {
				for i := 0; i < st.NumFields(); i++ {
					fields = append(fields, p.PkgPath+"."+n+"."+st.Field(i).Name()+"\t"+types.TypeString(st.Field(i).Type(), nil))
				}
			}
		}
		for _, n := range sc.Names() {
			if _, ok := sc.Lookup(n).(*types.Var); ok {
				fields = append(fields, p.PkgPath+".var."+n)
			}
		}
	}
	sort.Strings(fields)
	if err := os.WriteFile(strings.TrimSuffix(path, "baseline_funcs.txt")+"baseline_fields.txt", []byte("# struct fields of the reference tree (written together with baseline_funcs.txt)\n"+strings.Join(fields, "\n")+"\n"), 0o644); err != nil {
		return err
	}
	sort.Strings(names)
	return os.WriteFile(path, []byte("# functions of the reference tree (regenerate with: kpverify -write-baseline); functions NOT listed here are inlined before analysis\n"+strings.Join(names, "\n")+"\n"), 0o644)
}

// propagateInjectedFields: a field the reference tree does not have that every construction of its struct sets to the same
// context-free value (a declared function, a package-level variable, a constant: `client: http.DefaultClient`,
// `now: time.Now`) and nothing else ever writes is a name for that value, introduced to let tests substitute it: every
// read of the field is replaced by the value, which is the program the rules were written for. Types whose values
// encoding/json may build (json tags / UnmarshalJSON, and what those reach) are excluded: reflection constructs them
// without running any literal.
func (in *inliner) propagateInjectedFields() {
	for _, p := range in.pkgs {
		if !strings.HasPrefix(p.PkgPath, modulePath) || p.Types == nil {
			continue
		}
		info := p.TypesInfo
		// types reflection may construct
		reflected := map[*types.Named]bool{}
		var structs []*types.Named
		for _, name := range p.Types.Scope().Names() {
			tn, ok := p.Types.Scope().Lookup(name).(*types.TypeName)
			if !ok || tn.IsAlias() {
				continue
			}
			nt, ok := tn.Type().(*types.Named)
			if !ok {
				continue
			}
			st, ok := nt.Underlying().(*types.Struct)
			if !ok {
				continue
			}
			structs = append(structs, nt)
			for i := 0; i < st.NumFields(); i++ {
				if reflect.StructTag(st.Tag(i)).Get("json") != "" {
					reflected[nt] = true
				}
			}
			for _, m := range []string{"UnmarshalJSON", "MarshalJSON"} {
				if o, _, _ := types.LookupFieldOrMethod(types.NewPointer(nt), true, p.Types, m); o != nil {
					reflected[nt] = true
				}
			}
		}
		namedIn := func(t types.Type) *types.Named {
			for i := 0; i < 4; i++ {
				switch x := t.(type) {
				case *types.Pointer:
					t = x.Elem()
				case *types.Slice:
					t = x.Elem()
				case *types.Map:
					t = x.Elem()
				case *types.Named:
					return x
				default:
					return nil
				}
			}
			return nil
		}
		for changed := true; changed; {
			changed = false
			for _, nt := range structs {
				if !reflected[nt] {
					continue
				}
				st := nt.Underlying().(*types.Struct)
				for i := 0; i < st.NumFields(); i++ {
					if n := namedIn(st.Field(i).Type()); n != nil && !reflected[n] && st.Field(i).Exported() {
						if _, ok := n.Underlying().(*types.Struct); ok {
							reflected[n] = true
							changed = true
						}
					}
				}
			}
		}
		// candidate fields
		type cand struct {
			nt     *types.Named
			f      *types.Var
			bad    bool
			value  ast.Expr
			valStr string
			lits   int
			// derived: the value is computed from constructor arguments that the same literal stores in sibling fields
			// (`endpointURL: endpoint.String()` next to `endpoint: endpoint`): value is then a template in which
			// `_holder_.g` stands for the sibling field g of the object read
			derived  bool
			siblings []*types.Var
		}
		cands := map[*types.Var]*cand{}
		byType := map[*types.Named][]*cand{}
		for _, nt := range structs {
			if reflected[nt] {
				continue
			}
			st := nt.Underlying().(*types.Struct)
			renamed := renamedFieldsOf(p.PkgPath, nt.Obj().Name(), st)
			for i := 0; i < st.NumFields(); i++ {
				f := st.Field(i)
				if baselineFields[p.PkgPath+"."+nt.Obj().Name()+"."+f.Name()] || f.Embedded() {
					continue
				}
				if _, ok := renamed[f.Name()]; ok {
					continue
				}
				c := &cand{nt: nt, f: f}
				cands[f] = c
				byType[nt] = append(byType[nt], c)
			}
		}
		if len(cands) == 0 {
			continue
		}
		// a struct type held by value somewhere, or created without a literal, may exist with the field unset
		for _, nt := range structs {
			st := nt.Underlying().(*types.Struct)
			for i := 0; i < st.NumFields(); i++ {
				if n, ok := st.Field(i).Type().(*types.Named); ok {
					for _, c := range byType[n] {
						c.bad = true
					}
				}
			}
		}
		var resolveVal func(e ast.Expr, encl *ast.FuncDecl, depth int) ast.Expr
		resolveVal = func(e ast.Expr, encl *ast.FuncDecl, depth int) ast.Expr {
			if depth > 4 {
				return nil
			}
			switch x := e.(type) {
			case *ast.ParenExpr:
				return resolveVal(x.X, encl, depth+1)
			case *ast.BasicLit:
				return x
			case *ast.CallExpr:
				// a conversion (to the field's interface type, typically)
				if tv, ok := info.Types[x.Fun]; ok && tv.IsType() && len(x.Args) == 1 {
					return resolveVal(x.Args[0], encl, depth+1)
				}
				return nil
			case *ast.SelectorExpr:
				if id, ok := x.X.(*ast.Ident); ok {
					if _, isPkg := info.Uses[id].(*types.PkgName); isPkg {
						switch info.Uses[x.Sel].(type) {
						case *types.Func, *types.Var, *types.Const:
							return x
						}
					}
				}
				return nil
			case *ast.Ident:
				switch o := info.Uses[x].(type) {
				case *types.Func:
					if o.Parent() == p.Types.Scope() {
						return x
					}
				case *types.Const:
					if o.Parent() == p.Types.Scope() || o.Parent() == types.Universe {
						return x
					}
				case *types.Var:
					if o.Parent() == p.Types.Scope() {
						return x
					}
					if encl == nil || encl.Body == nil {
						return nil
					}
					// a local: exactly one definition, never assigned again, address never taken
					var def ast.Expr
					n := 0
					ast.Inspect(encl.Body, func(nd ast.Node) bool {
						switch s := nd.(type) {
						case *ast.AssignStmt:
							for i, l := range s.Lhs {
								if id, ok := l.(*ast.Ident); ok && (info.Defs[id] == types.Object(o) || info.Uses[id] == types.Object(o)) {
									n++
									if s.Tok == token.DEFINE && len(s.Lhs) == len(s.Rhs) {
										def = s.Rhs[i]
									} else {
										n++
									}
								}
							}
						case *ast.ValueSpec:
							for i, id := range s.Names {
								if info.Defs[id] == types.Object(o) {
									n++
									if len(s.Values) == len(s.Names) {
										def = s.Values[i]
									} else {
										n++
									}
								}
							}
						case *ast.UnaryExpr:
							if id, ok := s.X.(*ast.Ident); ok && s.Op == token.AND && info.Uses[id] == types.Object(o) {
								n += 2
							}
						case *ast.IncDecStmt:
							if id, ok := s.X.(*ast.Ident); ok && info.Uses[id] == types.Object(o) {
								n += 2
							}
						case *ast.RangeStmt:
							for _, l := range []ast.Expr{s.Key, s.Value} {
								if id, ok := l.(*ast.Ident); ok && (info.Defs[id] == types.Object(o) || info.Uses[id] == types.Object(o)) {
									n += 2
								}
							}
						}
						return true
					})
					if n == 1 && def != nil {
						return resolveVal(def, encl, depth+1)
					}
				}
			}
			return nil
		}
		fieldOfSel := func(sel *ast.SelectorExpr) *cand {
			if s, ok := info.Selections[sel]; ok && s.Kind() == types.FieldVal {
				if v, ok := s.Obj().(*types.Var); ok {
					return cands[v]
				}
			}
			return nil
		}
		// fields assigned, incremented or address-taken anywhere outside composite literals
		writtenFields := map[*types.Var]bool{}
		for _, f := range p.Syntax {
			astutil.Apply(f, func(c *astutil.Cursor) bool {
				sel, ok := c.Node().(*ast.SelectorExpr)
				if !ok {
					return true
				}
				s2, ok := info.Selections[sel]
				if !ok || s2.Kind() != types.FieldVal {
					return true
				}
				fv, _ := s2.Obj().(*types.Var)
				switch par := c.Parent().(type) {
				case *ast.AssignStmt:
					for _, l := range par.Lhs {
						if l == ast.Expr(sel) {
							writtenFields[fv] = true
						}
					}
				case *ast.UnaryExpr:
					if par.Op == token.AND {
						writtenFields[fv] = true
					}
				case *ast.IncDecStmt:
					writtenFields[fv] = true
				}
				return true
			}, nil)
		}
		reads := map[*ast.SelectorExpr]*cand{}
		for _, f := range p.Syntax {
			for _, d := range f.Decls {
				fd, _ := d.(*ast.FuncDecl)
				astutil.Apply(d, func(c *astutil.Cursor) bool {
					switch x := c.Node().(type) {
					case *ast.CompositeLit:
						tv, ok := info.Types[x]
						if !ok {
							return true
						}
						nt, _ := tv.Type.(*types.Named)
						if nt == nil {
							return true
						}
						for _, cd := range byType[nt] {
							cd.lits++
							var val ast.Expr
							for _, el := range x.Elts {
								if kv, ok := el.(*ast.KeyValueExpr); ok {
									if id, ok := kv.Key.(*ast.Ident); ok && id.Name == cd.f.Name() {
										val = kv.Value
									}
								}
							}
							if val == nil {
								cd.bad = true
								continue
							}
							r := resolveVal(val, fd, 0)
							if r == nil {
								// a value precomputed from what sibling fields hold
								tmpl, sibs := derivedTemplate(info, p.Types, val, x)
								if tmpl == nil {
									cd.bad = true
									continue
								}
								s := "derived: " + types.ExprString(tmpl)
								if cd.value == nil {
									cd.value, cd.valStr, cd.derived, cd.siblings = tmpl, s, true, sibs
								} else if cd.valStr != s {
									cd.bad = true
								}
								continue
							}
							s := types.ExprString(r)
							if cd.value == nil {
								cd.value, cd.valStr = r, s
							} else if cd.valStr != s {
								cd.bad = true
							}
						}
					case *ast.CallExpr:
						if id, ok := x.Fun.(*ast.Ident); ok && id.Name == "new" && len(x.Args) == 1 {
							if tv, ok := info.Types[x.Args[0]]; ok {
								if nt, _ := tv.Type.(*types.Named); nt != nil {
									for _, cd := range byType[nt] {
										cd.bad = true
									}
								}
							}
						}
					case *ast.ValueSpec:
						if x.Type != nil && len(x.Values) == 0 {
							if tv, ok := info.Types[x.Type]; ok {
								if nt, _ := tv.Type.(*types.Named); nt != nil {
									for _, cd := range byType[nt] {
										cd.bad = true
									}
								}
							}
						}
					case *ast.SelectorExpr:
						cd := fieldOfSel(x)
						if cd == nil {
							return true
						}
						switch par := c.Parent().(type) {
						case *ast.AssignStmt:
							for _, l := range par.Lhs {
								if l == ast.Expr(x) {
									cd.bad = true
								}
							}
						case *ast.UnaryExpr:
							if par.Op == token.AND {
								cd.bad = true
							}
						case *ast.IncDecStmt:
							cd.bad = true
						}
						// the holder must be evaluated without effects
						switch b := x.X.(type) {
						case *ast.Ident:
						case *ast.SelectorExpr:
							if _, ok := b.X.(*ast.Ident); !ok {
								cd.bad = true
							}
						default:
							cd.bad = true
						}
						reads[x] = cd
					}
					return true
				}, nil)
			}
		}
		for _, f := range p.Syntax {
			fileChanged := false
			astutil.Apply(f, nil, func(c *astutil.Cursor) bool {
				sel, ok := c.Node().(*ast.SelectorExpr)
				if !ok {
					return true
				}
				cd := reads[sel]
				if cd == nil || cd.bad || cd.value == nil || cd.lits == 0 {
					return true
				}
				if cd.derived {
					// the sibling fields must never be written after construction
					for _, g := range cd.siblings {
						if writtenFields[g] {
							return true
						}
					}
					repl := copyExpr(cd.value)
					holder := sel.X
					astutil.Apply(repl, nil, func(c2 *astutil.Cursor) bool {
						if id, isId := c2.Node().(*ast.Ident); isId && id.Name == "_holder_" {
							c2.Replace(copyExpr(holder))
						}
						return true
					})
					c.Replace(repl)
					fileChanged = true
					in.n++
					in.inlined["(field) "+cd.nt.Obj().Name()+"."+cd.f.Name()+" = "+cd.valStr]++
					return true
				}
				if qs, ok := cd.value.(*ast.SelectorExpr); ok {
					pn := info.Uses[qs.X.(*ast.Ident)].(*types.PkgName)
					if !ensureImport(f, qs.X.(*ast.Ident).Name, pn.Imported().Path()) && !importsAs(f, qs.X.(*ast.Ident).Name, pn.Imported().Path()) {
						return true
					}
				}
				c.Replace(copyExpr(cd.value))
				fileChanged = true
				in.n++
				in.inlined["(field) "+cd.nt.Obj().Name()+"."+cd.f.Name()+" = "+cd.valStr]++
				return true
			})
			if fileChanged {
				in.changed[in.fset.Position(f.Pos()).Filename] = f
			}
		}
	}
}

// importsAs: the file already imports path under the given name.
func importsAs(f *ast.File, name, path string) bool {
	for _, imp := range f.Imports {
		if strings.Trim(imp.Path.Value, `"`) == path {
			if imp.Name != nil {
				return imp.Name.Name == name
			}
			return lastElemMatches(path, name)
		}
	}
	return false
}

// remethodise: see flattenHelpers. Reports whether anything was rewritten.
func (in *inliner) remethodise() bool {
	present := map[string]bool{}
	for obj := range in.decls {
		present[obj.FullName()] = true
	}
	mapped := map[string]bool{}
	for _, to := range renamedAnchors {
		mapped[to] = true
	}
	type miss struct{ full, pkg, typ, name string; ptr bool }
	var missing []miss
	for full := range baselineFuncs {
		if present[full] || renamedAnchors[full] != "" || !strings.HasPrefix(full, "(") {
			continue
		}
		// "(*pkg/path.T).m" or "(pkg/path.T).m"
		close := strings.Index(full, ").")
		if close < 0 {
			continue
		}
		recv, name := full[1:close], full[close+2:]
		m := miss{full: full, name: name}
		if strings.HasPrefix(recv, "*") {
			m.ptr = true
			recv = recv[1:]
		}
		dot := strings.LastIndex(recv, ".")
		if dot < 0 || !strings.HasPrefix(recv, modulePath) {
			continue
		}
		m.pkg, m.typ = recv[:dot], recv[dot+1:]
		missing = append(missing, m)
	}
	sort.Slice(missing, func(i, j int) bool { return missing[i].full < missing[j].full })
	done := false
	used := map[*types.Func]bool{}
	for _, m := range missing {
		want := baselineSig[m.full]
		if want == "" {
			continue
		}
		// how many missing methods of this package share the parameter list
		nm := 0
		for _, m2 := range missing {
			if m2.pkg == m.pkg && sameParams(baselineSig[m2.full], want) {
				nm++
			}
		}
		var sameName, bySig []*types.Func
		for obj := range in.decls {
			if obj.Pkg() == nil || obj.Pkg().Path() != m.pkg || baselineFuncs[obj.FullName()] || isDeanchored(obj.FullName()) || mapped[obj.FullName()] || used[obj] {
				continue
			}
			if obj.Type().(*types.Signature).Recv() != nil || !sameParams(want, sigString(obj)) {
				continue
			}
			if obj.Name() == m.name {
				sameName = append(sameName, obj)
			}
			bySig = append(bySig, obj)
		}
		// (results too, when that singles one out)
		nmFull := 0
		for _, m2 := range missing {
			if m2.pkg == m.pkg && baselineSig[m2.full] == want {
				nmFull++
			}
		}
		var byFull []*types.Func
		for _, o := range bySig {
			if sigString(o) == want {
				byFull = append(byFull, o)
			}
		}
		var pick *types.Func
		switch {
		case len(sameName) == 1:
			pick = sameName[0]
		case len(bySig) == 1 && nm == 1:
			pick = bySig[0]
		case len(byFull) == 1 && nmFull == 1:
			pick = byFull[0]
		}
		if pick == nil {
			continue
		}
		p := in.declPkg[pick]
		if p.Types.Scope().Lookup(m.typ) == nil {
			continue
		}
		used[pick] = true
		fd := in.decls[pick]
		var rt ast.Expr = ast.NewIdent(m.typ)
		if m.ptr {
			rt = &ast.StarExpr{X: rt}
		}
		fd.Recv = &ast.FieldList{List: []*ast.Field{{Names: []*ast.Ident{ast.NewIdent("_")}, Type: rt}}}
		fd.Name = ast.NewIdent(m.name)
		in.changed[in.fset.Position(in.declFil[pick].Pos()).Filename] = in.declFil[pick]
		for _, f := range p.Syntax {
			touched := false
			for _, d := range f.Decls {
				var recvName string
				if efd, ok := d.(*ast.FuncDecl); ok && efd.Recv != nil && len(efd.Recv.List) == 1 && len(efd.Recv.List[0].Names) == 1 && efd.Recv.List[0].Names[0].Name != "_" {
					t := efd.Recv.List[0].Type
					isPtr := false
					if st, ok := t.(*ast.StarExpr); ok {
						isPtr, t = true, st.X
					}
					if id, ok := t.(*ast.Ident); ok && id.Name == m.typ && isPtr == m.ptr && efd != fd {
						recvName = efd.Recv.List[0].Names[0].Name
					}
				}
				astutil.Apply(d, nil, func(c *astutil.Cursor) bool {
					id, ok := c.Node().(*ast.Ident)
					if !ok || p.TypesInfo.Uses[id] != types.Object(pick) {
						return true
					}
					var recv ast.Expr
					if recvName != "" {
						recv = ast.NewIdent(recvName)
					} else if m.ptr {
						recv = &ast.CallExpr{Fun: &ast.ParenExpr{X: &ast.StarExpr{X: ast.NewIdent(m.typ)}}, Args: []ast.Expr{ast.NewIdent("nil")}}
					} else {
						recv = &ast.CompositeLit{Type: ast.NewIdent(m.typ)}
					}
					c.Replace(&ast.SelectorExpr{X: recv, Sel: ast.NewIdent(m.name)})
					touched = true
					return true
				})
			}
			if touched {
				in.changed[in.fset.Position(f.Pos()).Filename] = f
			}
		}
		done = true
	}
	return done
}

// derivedTemplate: val (the initialiser of a new field in the composite literal lit) is built only from identifiers that
// the same literal stores, as they are, in sibling fields, by selections, parameterless String() calls, conversions and
// string concatenation - operations that give the same result whenever they are evaluated as long as the sibling fields
// are never reassigned. Returns val with every such identifier replaced by `_holder_.<sibling>`, and the siblings used.
func derivedTemplate(info *types.Info, pkg *types.Package, val ast.Expr, lit *ast.CompositeLit) (ast.Expr, []*types.Var) {
	sibOf := func(id *ast.Ident) *ast.Ident {
		obj := info.Uses[id]
		if obj == nil {
			return nil
		}
		for _, el := range lit.Elts {
			kv, ok := el.(*ast.KeyValueExpr)
			if !ok {
				continue
			}
			k, ok1 := kv.Key.(*ast.Ident)
			v, ok2 := ast.Unparen(kv.Value).(*ast.Ident)
			if ok1 && ok2 && info.Uses[v] == obj {
				return k
			}
		}
		return nil
	}
	var sibs []*types.Var
	okAll := true
	used := 0
	var walk func(e ast.Expr) ast.Expr
	walk = func(e ast.Expr) ast.Expr {
		switch x := e.(type) {
		case *ast.BasicLit:
			return x
		case *ast.ParenExpr:
			return &ast.ParenExpr{X: walk(x.X)}
		case *ast.Ident:
			switch o := info.Uses[x].(type) {
			case *types.Const:
				return x
			case *types.Var:
				if o.Parent() == pkg.Scope() {
					okAll = false // a package-level variable may change
					return x
				}
				k := sibOf(x)
				if k == nil {
					okAll = false
					return x
				}
				// the sibling field object
				if tv, ok := info.Types[lit]; ok {
					if st, ok := tv.Type.Underlying().(*types.Struct); ok {
						for i := 0; i < st.NumFields(); i++ {
							if st.Field(i).Name() == k.Name {
								sibs = append(sibs, st.Field(i))
							}
						}
					}
				}
				used++
				return &ast.SelectorExpr{X: ast.NewIdent("_holder_"), Sel: ast.NewIdent(k.Name)}
			}
			okAll = false
			return x
		case *ast.SelectorExpr:
			if s, ok := info.Selections[x]; ok && s.Kind() == types.FieldVal {
				return &ast.SelectorExpr{X: walk(x.X), Sel: x.Sel}
			}
			okAll = false
			return x
		case *ast.BinaryExpr:
			if x.Op != token.ADD {
				okAll = false
				return x
			}
			return &ast.BinaryExpr{X: walk(x.X), Op: x.Op, Y: walk(x.Y)}
		case *ast.CallExpr:
			if tv, ok := info.Types[x.Fun]; ok && tv.IsType() && len(x.Args) == 1 {
				return &ast.CallExpr{Fun: x.Fun, Args: []ast.Expr{walk(x.Args[0])}}
			}
			if sel, ok := x.Fun.(*ast.SelectorExpr); ok && sel.Sel.Name == "String" && len(x.Args) == 0 {
				if s, ok := info.Selections[sel]; ok && s.Kind() == types.MethodVal {
					return &ast.CallExpr{Fun: &ast.SelectorExpr{X: walk(sel.X), Sel: sel.Sel}}
				}
			}
			okAll = false
			return x
		}
		okAll = false
		return e
	}
	out := walk(val)
	if !okAll || used == 0 {
		return nil, nil
	}
	return out, sibs
}

// restoreConcreteFieldTypes: a field of the reference tree whose type was a concrete (pointer to a) type of its own package
// and is now an interface, while everything ever stored into it still has the old concrete type (`router serviceController`
// instead of `router *Router`, to name what the holder needs or to let tests substitute it): the field is given its
// concrete type back, so that calls through it are the static calls the rules were written for.
func (in *inliner) restoreConcreteFieldTypes() {
	for _, p := range in.pkgs {
		if !strings.HasPrefix(p.PkgPath, modulePath) || p.Types == nil {
			continue
		}
		info := p.TypesInfo
		for _, f := range p.Syntax {
			for _, d := range f.Decls {
				gd, ok := d.(*ast.GenDecl)
				if !ok || gd.Tok != token.TYPE {
					continue
				}
				for _, sp := range gd.Specs {
					ts, ok := sp.(*ast.TypeSpec)
					if !ok {
						continue
					}
					st, ok := ts.Type.(*ast.StructType)
					if !ok {
						continue
					}
					for _, fld := range st.Fields.List {
						for _, nm := range fld.Names {
							fv, _ := info.Defs[nm].(*types.Var)
							if fv == nil {
								continue
							}
							want := baselineFieldType[p.PkgPath+"."+ts.Name.Name+"."+nm.Name]
							if want == "" || types.TypeString(fv.Type(), nil) == want {
								continue
							}
							if _, isIface := fv.Type().Underlying().(*types.Interface); !isIface {
								continue
							}
							// the old type must be spelled without a package qualifier here: T or *T of this package
							local := strings.TrimPrefix(want, "*")
							if !strings.HasPrefix(local, p.PkgPath+".") || strings.Contains(strings.TrimPrefix(local, p.PkgPath+"."), ".") {
								continue
							}
							tn := strings.TrimPrefix(local, p.PkgPath+".")
							if p.Types.Scope().Lookup(tn) == nil || len(fld.Names) != 1 {
								continue
							}
							// every value stored into the field has the old type
							allOld, nStores := true, 0
							for _, f2 := range p.Syntax {
								ast.Inspect(f2, func(n ast.Node) bool {
									switch x := n.(type) {
									case *ast.KeyValueExpr:
										if id, ok := x.Key.(*ast.Ident); ok && info.Uses[id] == types.Object(fv) {
											nStores++
											if tv, ok := info.Types[x.Value]; !ok || types.TypeString(tv.Type, nil) != want {
												allOld = false
											}
										}
									case *ast.AssignStmt:
										for i, l := range x.Lhs {
											sel, ok := l.(*ast.SelectorExpr)
											if !ok || len(x.Lhs) != len(x.Rhs) {
												continue
											}
											if s, ok := info.Selections[sel]; ok && s.Obj() == types.Object(fv) {
												nStores++
												if tv, ok := info.Types[x.Rhs[i]]; !ok || types.TypeString(tv.Type, nil) != want {
													allOld = false
												}
											}
										}
									case *ast.CompositeLit:
										// positional literals of the struct are not examined
										if tv, ok := info.Types[x]; ok && len(x.Elts) > 0 {
											if _, isKV := x.Elts[0].(*ast.KeyValueExpr); !isKV {
												if nt, ok := tv.Type.(*types.Named); ok && nt.Obj().Name() == ts.Name.Name && nt.Obj().Pkg() == p.Types {
													allOld = false
												}
											}
										}
									}
									return true
								})
							}
							if !allOld || nStores == 0 {
								continue
							}
							var te ast.Expr = ast.NewIdent(tn)
							if strings.HasPrefix(want, "*") {
								te = &ast.StarExpr{X: te}
							}
							fld.Type = te
							in.changed[in.fset.Position(f.Pos()).Filename] = f
							in.n++
							in.inlined["(field type) "+ts.Name.Name+"."+nm.Name+" restored to "+want]++
						}
					}
				}
			}
		}
	}
}

// ungroupFields: fields of a reference-tree struct S that were moved, unchanged in name and type, into a new small struct
// type T held BY VALUE in one new field F of S (`limits bufferLimits`) are moved back: F's declaration is replaced by T's
// fields, `x.F.g` becomes `x.g`, and `S{F: T{g: v}}` becomes `S{g: v}`. Applied only when F is never used as a whole
// (copied, passed, compared, addressed, method called on it): then S with T inlined has exactly the same cells as before.
// Nothing else is rewritten in that round.
func (in *inliner) ungroupFields() bool {
	did := false
	for _, p := range in.pkgs {
		if !strings.HasPrefix(p.PkgPath, modulePath) || p.Types == nil {
			continue
		}
		info := p.TypesInfo
		// struct declarations of this package
		type sdecl struct {
			ts   *ast.TypeSpec
			st   *ast.StructType
			file *ast.File
		}
		decls := map[string]sdecl{}
		for _, f := range p.Syntax {
			for _, d := range f.Decls {
				gd, ok := d.(*ast.GenDecl)
				if !ok || gd.Tok != token.TYPE {
					continue
				}
				for _, sp := range gd.Specs {
					if ts, ok := sp.(*ast.TypeSpec); ok && ts.TypeParams == nil {
						if st, ok := ts.Type.(*ast.StructType); ok {
							decls[ts.Name.Name] = sdecl{ts, st, f}
						}
					}
				}
			}
		}
		inBaseline := func(typeName string) bool {
			pre := p.PkgPath + "." + typeName + "."
			for k := range baselineFieldType {
				if strings.HasPrefix(k, pre) {
					return true
				}
			}
			return false
		}
		for sName, sd := range decls {
			if !inBaseline(sName) {
				continue
			}
			have := map[string]bool{}
			for _, fld := range sd.st.Fields.List {
				for _, nm := range fld.Names {
					have[nm.Name] = true
				}
			}
			for fi, fld := range sd.st.Fields.List {
				if len(fld.Names) != 1 || fld.Tag != nil {
					continue
				}
				fName := fld.Names[0].Name
				if baselineFields[p.PkgPath+"."+sName+"."+fName] {
					continue
				}
				tid, ok := fld.Type.(*ast.Ident)
				if !ok {
					continue
				}
				td, ok := decls[tid.Name]
				if !ok || inBaseline(tid.Name) || tid.Name == sName {
					continue
				}
				fv, _ := info.Defs[fld.Names[0]].(*types.Var)
				tobj, _ := p.Types.Scope().Lookup(tid.Name).(*types.TypeName)
				if fv == nil || tobj == nil {
					continue
				}
				if nt, ok := tobj.Type().(*types.Named); !ok || nt.NumMethods() > 0 {
					continue
				}
				// every field of T is a field S had, with the same type, and S no longer has it
				okFields, nFields := true, 0
				for _, tf := range td.st.Fields.List {
					if len(tf.Names) == 0 || tf.Tag != nil {
						okFields = false
						break
					}
					for _, nm := range tf.Names {
						nFields++
						tv, _ := info.Defs[nm].(*types.Var)
						if tv == nil || have[nm.Name] || baselineFieldType[p.PkgPath+"."+sName+"."+nm.Name] != types.TypeString(tv.Type(), nil) {
							okFields = false
						}
					}
				}
				if !okFields || nFields == 0 {
					continue
				}
				// every mention of F is `x.F.g` or the key of a keyed T literal in a literal of S (no T value flows into or out
				// of the field as a whole)
				var selRewrites []*ast.SelectorExpr // outer x.F.g
				type litRewrite struct {
					outer *ast.CompositeLit
					idx   int
					inner *ast.CompositeLit
				}
				var litRewrites []litRewrite
				approvedSel := map[*ast.SelectorExpr]bool{}
				approvedKey := map[*ast.Ident]bool{}
				for _, f2 := range p.Syntax {
					ast.Inspect(f2, func(n ast.Node) bool {
						switch x := n.(type) {
						case *ast.SelectorExpr:
							if inner, ok := x.X.(*ast.SelectorExpr); ok {
								if s, ok := info.Selections[inner]; ok && s.Obj() == types.Object(fv) {
									if s2, ok := info.Selections[x]; ok && s2.Kind() == types.FieldVal {
										approvedSel[inner] = true
										selRewrites = append(selRewrites, x)
									}
								}
							}
						case *ast.CompositeLit:
							tv, ok := info.Types[x]
							if !ok {
								return true
							}
							nt, _ := tv.Type.(*types.Named)
							if nt == nil {
								if pt, ok := tv.Type.(*types.Pointer); ok {
									nt, _ = pt.Elem().(*types.Named)
								}
							}
							if nt == nil || nt.Obj().Pkg() != p.Types || nt.Obj().Name() != sName {
								return true
							}
							for i, e := range x.Elts {
								kv, ok := e.(*ast.KeyValueExpr)
								if !ok {
									continue
								}
								id, ok := kv.Key.(*ast.Ident)
								if !ok || info.Uses[id] != types.Object(fv) {
									continue
								}
								innerLit, ok := kv.Value.(*ast.CompositeLit)
								if !ok {
									continue
								}
								tyID, ok := innerLit.Type.(*ast.Ident)
								if !ok || info.Uses[tyID] != types.Object(tobj) {
									continue
								}
								keyed := true
								for _, ie := range innerLit.Elts {
									if _, ok := ie.(*ast.KeyValueExpr); !ok {
										keyed = false
									}
								}
								if !keyed {
									continue
								}
								approvedKey[id] = true
								litRewrites = append(litRewrites, litRewrite{x, i, innerLit})
							}
						}
						return true
					})
				}
				clean := true
				for _, f2 := range p.Syntax {
					ast.Inspect(f2, func(n ast.Node) bool {
						switch x := n.(type) {
						case *ast.SelectorExpr:
							if s, ok := info.Selections[x]; ok && s.Obj() == types.Object(fv) && !approvedSel[x] {
								clean = false
							}
						case *ast.Ident:
							if info.Uses[x] == types.Object(fv) && !approvedKey[x] {
								// a selector's Sel ident is also recorded in Uses: those were judged above
								isSel := false
								for s := range approvedSel {
									if s.Sel == x {
										isSel = true
									}
								}
								if !isSel {
									clean = false
								}
							}
						}
						return true
					})
				}
				if !clean {
					continue
				}
				// positional literals of S would change meaning
				positional := false
				for _, f2 := range p.Syntax {
					ast.Inspect(f2, func(n ast.Node) bool {
						if x, ok := n.(*ast.CompositeLit); ok && len(x.Elts) > 0 {
							if _, isKV := x.Elts[0].(*ast.KeyValueExpr); !isKV {
								if tv, ok := info.Types[x]; ok {
									if nt, ok := tv.Type.(*types.Named); ok && nt.Obj().Pkg() == p.Types && nt.Obj().Name() == sName {
										positional = true
									}
								}
							}
						}
						return true
					})
				}
				if positional {
					continue
				}
				// rewrite
				var newFields []*ast.Field
				newFields = append(newFields, sd.st.Fields.List[:fi]...)
				for _, tf := range td.st.Fields.List {
					nf := &ast.Field{Type: tf.Type}
					for _, nm := range tf.Names {
						nf.Names = append(nf.Names, ast.NewIdent(nm.Name))
					}
					newFields = append(newFields, nf)
				}
				newFields = append(newFields, sd.st.Fields.List[fi+1:]...)
				sd.st.Fields.List = newFields
				in.changed[in.fset.Position(sd.file.Pos()).Filename] = sd.file
				for _, x := range selRewrites {
					inner := x.X.(*ast.SelectorExpr)
					x.X = inner.X
				}
				// literals: splice from the highest index down so that earlier indexes stay valid
				sort.Slice(litRewrites, func(i, j int) bool { return litRewrites[i].idx > litRewrites[j].idx })
				for _, lr := range litRewrites {
					elts := append([]ast.Expr{}, lr.outer.Elts[:lr.idx]...)
					elts = append(elts, lr.inner.Elts...)
					elts = append(elts, lr.outer.Elts[lr.idx+1:]...)
					lr.outer.Elts = elts
				}
				for _, f2 := range p.Syntax {
					in.changed[in.fset.Position(f2.Pos()).Filename] = f2
				}
				in.n++
				in.inlined["(fields ungrouped) "+sName+"."+fName+" "+tid.Name]++
				did = true
				break // one field per struct per round: the declaration list changed
			}
		}
	}
	return did
}


// bodyBreaksOutOfSwitch is a placeholder for shapes in which a guard prepended to a loop body could change what a
// `break` refers to: the guard is the first statement of the body and its `break` is directly in the loop, so none does.
func bodyBreaksOutOfSwitch(*ast.BlockStmt) bool { return false }

// lowerResultDefers: `defer func() { if <cond on named results> { cleanup } }()` at the top level of a function of the
// module - the "dispose unless we succeed" idiom - is written out: every `return E` after it becomes
// `{ results = E; if cond { cleanup }; return results }`. That is what the deferred literal does on every normal return
// when it is the last defer registered, only reads the results, and neither returns nor recovers; the rules then see
// the clean-up on the failing ways out, where the reference tree has it. (A panic would run the literal too; no rule
// reasons about panicking executions of these functions.) A round of its own.
func (in *inliner) lowerResultDefers() bool {
	did := false
	for _, p := range in.pkgs {
		if !strings.HasPrefix(p.PkgPath, modulePath) || p.Types == nil {
			continue
		}
		for _, f := range p.Syntax {
			for _, d := range f.Decls {
				fd, ok := d.(*ast.FuncDecl)
				if !ok || fd.Body == nil || fd.Type.Results == nil {
					continue
				}
				var names []string
				named := true
				for _, fld := range fd.Type.Results.List {
					if len(fld.Names) == 0 {
						named = false
					}
					for _, nm := range fld.Names {
						if nm.Name == "_" {
							named = false
						}
						names = append(names, nm.Name)
					}
				}
				if !named || len(names) == 0 {
					continue
				}
				isResult := map[types.Object]bool{}
				for _, fld := range fd.Type.Results.List {
					for _, nm := range fld.Names {
						isResult[p.TypesInfo.Defs[nm]] = true
					}
				}
				for i, st := range fd.Body.List {
					ds, ok := st.(*ast.DeferStmt)
					if !ok {
						continue
					}
					lit, ok := ds.Call.Fun.(*ast.FuncLit)
					if !ok || len(ds.Call.Args) != 0 || len(lit.Type.Params.List) != 0 || lit.Type.Results != nil || len(lit.Body.List) != 1 {
						continue
					}
					ifs, ok := lit.Body.List[0].(*ast.IfStmt)
					if !ok || ifs.Init != nil || ifs.Else != nil {
						continue
					}
					// the condition reads a result; the literal never writes one, returns or recovers
					readsResult, clean := false, true
					ast.Inspect(ifs.Cond, func(n ast.Node) bool {
						switch x := n.(type) {
						case *ast.Ident:
							if isResult[p.TypesInfo.Uses[x]] {
								readsResult = true
							}
						case *ast.CallExpr:
							clean = false
						}
						return true
					})
					ast.Inspect(ifs.Body, func(n ast.Node) bool {
						switch x := n.(type) {
						case *ast.ReturnStmt, *ast.FuncLit, *ast.DeferStmt, *ast.GoStmt:
							clean = false
						case *ast.CallExpr:
							if id, ok := x.Fun.(*ast.Ident); ok && id.Name == "recover" {
								clean = false
							}
						case *ast.AssignStmt:
							for _, l := range x.Lhs {
								if id, ok := l.(*ast.Ident); ok && (isResult[p.TypesInfo.Uses[id]] || isResult[p.TypesInfo.Defs[id]]) {
									clean = false
								}
							}
						case *ast.UnaryExpr:
							if x.Op == token.AND {
								if id, ok := x.X.(*ast.Ident); ok && isResult[p.TypesInfo.Uses[id]] {
									clean = false
								}
							}
						}
						return true
					})
					if !readsResult || !clean {
						continue
					}
					// the last defer of the function, and no result is shadowed where a return stands (kept simple: no
					// declaration of a result's name after the defer)
					later := true
					for _, st2 := range fd.Body.List[i+1:] {
						ast.Inspect(st2, func(n ast.Node) bool {
							switch x := n.(type) {
							case *ast.DeferStmt:
								later = false
							case *ast.FuncLit:
								return false
							case *ast.AssignStmt:
								if x.Tok == token.DEFINE {
									for _, l := range x.Lhs {
										if id, ok := l.(*ast.Ident); ok {
											for _, nm := range names {
												if id.Name == nm {
													later = false
												}
											}
										}
									}
								}
							case *ast.ValueSpec:
								for _, id := range x.Names {
									for _, nm := range names {
										if id.Name == nm {
											later = false
										}
									}
								}
							}
							return true
						})
					}
					if !later {
						continue
					}
					lower := func(rs *ast.ReturnStmt) ast.Stmt {
						var list []ast.Stmt
						var res []ast.Expr
						for _, nm := range names {
							res = append(res, ast.NewIdent(nm))
						}
						if len(rs.Results) > 0 {
							if len(rs.Results) != len(names) {
								return nil // return f() with several results
							}
							var lhs []ast.Expr
							for _, nm := range names {
								lhs = append(lhs, ast.NewIdent(nm))
							}
							selfAssign := true
							for k, r := range rs.Results {
								if id, ok := r.(*ast.Ident); !ok || id.Name != names[k] {
									selfAssign = false
								}
							}
							if !selfAssign {
								list = append(list, &ast.AssignStmt{Lhs: lhs, Tok: token.ASSIGN, Rhs: rs.Results})
							}
						}
						// `return nil` under `if err != nil { ... }`: the clean-up cannot run on this way out
						skip := false
						if be, ok := ast.Unparen(ifs.Cond).(*ast.BinaryExpr); ok && be.Op == token.NEQ && len(rs.Results) == len(names) {
							if id, ok := be.X.(*ast.Ident); ok {
								if nl, ok := be.Y.(*ast.Ident); ok && nl.Name == "nil" {
									for k, nm := range names {
										if nm == id.Name {
											if rid, ok := rs.Results[k].(*ast.Ident); ok && rid.Name == "nil" {
												skip = true
											}
										}
									}
								}
							}
						}
						if !skip {
							list = append(list, copyNode(ifs).(ast.Stmt))
						}
						list = append(list, &ast.ReturnStmt{Results: res})
						return &ast.BlockStmt{List: list}
					}
					ok2 := true
					var walkList func(list []ast.Stmt)
					var walkStmt func(s ast.Stmt)
					walkList = func(list []ast.Stmt) {
						for k, s := range list {
							if rs, isRet := s.(*ast.ReturnStmt); isRet {
								if b := lower(rs); b != nil {
									list[k] = b
								} else {
									ok2 = false
								}
								continue
							}
							walkStmt(s)
						}
					}
					walkStmt = func(s ast.Stmt) {
						switch x := s.(type) {
						case *ast.BlockStmt:
							walkList(x.List)
						case *ast.IfStmt:
							walkList(x.Body.List)
							if x.Else != nil {
								walkStmt(x.Else)
							}
						case *ast.ForStmt:
							walkList(x.Body.List)
						case *ast.RangeStmt:
							walkList(x.Body.List)
						case *ast.SwitchStmt:
							walkList(x.Body.List)
						case *ast.TypeSwitchStmt:
							walkList(x.Body.List)
						case *ast.SelectStmt:
							walkList(x.Body.List)
						case *ast.CaseClause:
							walkList(x.Body)
						case *ast.CommClause:
							walkList(x.Body)
						case *ast.LabeledStmt:
							walkStmt(x.Stmt)
						}
					}
					// dry run on a copy first: a `return f()` with several results cannot be lowered
					trial := copyNode(&ast.BlockStmt{List: fd.Body.List[i+1:]}).(*ast.BlockStmt)
					walkList(trial.List)
					if !ok2 {
						continue
					}
					rest := append([]ast.Stmt{}, fd.Body.List[i+1:]...)
					walkList(rest)
					fd.Body.List = append(append([]ast.Stmt{}, fd.Body.List[:i]...), rest...)
					in.changed[in.fset.Position(f.Pos()).Filename] = f
					in.n++
					in.inlined["(defer lowered) "+fd.Name.Name]++
					did = true
					break
				}
			}
		}
	}
	return did
}
