package main

import (
	"fmt"
	"go/token"
	"go/types"
	"sort"
	"strings"

	"golang.org/x/tools/go/ssa"
)

func init() {
	register("C19", &propCheck{
		explain: "Decides the structure that makes 'one record per request, matching what happened' hold on every way a request can end: (R19.1) LoggingMiddleware defers exactly one closure before invoking the next handler (so it runs on early returns and on ReverseProxy's abort panic) and that closure emits exactly one LogAttrs(\"Request\") on every path; no other emitter; the middleware occurs once in the chain, outside the root error pages and inside request id/start (shared R13.5); (R19.2) provenance of each attribute of the record: status and byte count from the counting writer handed to the next handler, method/host/path/query/request id from the request, service/target from the per-request logging context; (R19.3) the counting writer records every WriteHeader, adds Write's returned count, records 101 on a successful hijack, keeps Flush, starts at 200 and does not implement io.ReaderFrom; (R19.4) the logging context is filled where the decision is made: Service before any exit of the service handler, Target and header lists before the proxy runs; every request.WithContext on the request path derives from that request's own context (so the context pointer survives); custom headers are read from the request / the writer's headers under canonicalised names; (R19.5) buffered responses are always sent through the writer (so 499 etc. are recorded). (R19.7) every path on which the pause gate reports a request handled wrote a response (else the record shows a 200 that was never sent).",
		notDecided: []string{"equality of logged values with wire bytes for arbitrary inputs", "log output formatting", "bytesWritten += len(b) instead of the returned count is value-level and not detectable"},
		run:        checkC19,
	})
}

func checkC19(c *Ctx) {
	r191(c)
	r135(c, "R19.1b logging-position-in-chain")
	r192(c)
	r193(c)
	r194(c)
	r195(c)
	// what the record reports about the request is read after the handlers ran: nothing may have rewritten it (shared with C13)
	c.floor("R19.6 logged-request-fields-unaltered", 10)
	r131touches(c, "R19.6 logged-request-fields-unaltered")
	rHandledMeansAnswered(c, "R19.7 handled-means-answered")
}

func r191(c *Ctx) {
	const rule = "R19.1 exactly-one-record"
	c.floor(rule, 5)
	serve := c.method("LoggingMiddleware", "ServeHTTP")
	var next ssa.Instruction
	for _, cs := range callsIn(serve) {
		if cs.common().IsInvoke() && cs.common().Method.Name() == "ServeHTTP" {
			next = cs.instr
		}
	}
	var defers []*ssa.Defer
	for _, cs := range callsIn(serve) {
		if d, ok := cs.instr.(*ssa.Defer); ok {
			defers = append(defers, d)
		}
	}
	isLogAttrs := func(in ssa.Instruction) bool {
		ci, ok := in.(ssa.CallInstruction)
		return ok && calleeName(ci.Common()) == "(*log/slog.Logger).LogAttrs"
	}
	var logCl *ssa.Function
	nLogDefers := 0
	for _, d := range defers {
		if cl := closureFunc(d.Call.Value); cl != nil && c.transitivelyContains(cl, isLogAttrs, map[*ssa.Function]bool{}) {
			logCl = cl
			nLogDefers++
			c.ob(rule, "LoggingMiddleware/record-is-deferred-before-next", d.Pos(), next != nil && dominates(d, next) && len(dominatingConds(d.Block())) == 0, true, "the log call must be DEFERRED, unconditionally, before the inner handler runs: a plain call afterwards is skipped when ReverseProxy aborts the handler with panic(http.ErrAbortHandler) (target died mid-body, client gone)")
		}
	}
	c.ob(rule, "LoggingMiddleware/one-deferred-log-closure", serve.Pos(), nLogDefers == 1, true, fmt.Sprintf("found %d deferred closures that log", nLogDefers))
	if logCl != nil {
		c.touched(logCl.String())
		n := 0
		var site ssa.Instruction
		for _, b := range logCl.Blocks {
			for _, in := range b.Instrs {
				if isLogAttrs(in) {
					n++
					site = in
				}
			}
		}
		okOnce := n == 1
		if okOnce {
			_, skip := reach(logCl, nil, isReturn, func(in ssa.Instruction) bool { return in == site })
			okOnce = !skip && !inLoop(site.Block())
			msg, _ := constString(site.(ssa.CallInstruction).Common().Args[3])
			okOnce = okOnce && msg == "Request"
		}
		c.ob(rule, "log-closure/exactly-one-LogAttrs(\"Request\")-on-every-path", logCl.Pos(), okOnce, true, "")
		// no recover in the closure (it must not swallow the abort)
	}
	// no other emitter of request records
	for _, fn := range c.proxyFuncs() {
		for _, b := range fn.Blocks {
			for _, in := range b.Instrs {
				if isLogAttrs(in) {
					c.ob(rule, "LogAttrs in "+fname(fn), in.Pos(), logCl != nil && fn == logCl, false, "access-log records are emitted only by the logging middleware's deferred closure")
				}
			}
		}
	}
	// the handler invoked is given the counting writer and the context-carrying request
	if next != nil {
		cc := next.(ssa.CallInstruction).Common()
		wOK := false
		if mi, ok := cc.Args[0].(*ssa.MakeInterface); ok {
			if call, ok := resolve(mi.X).(*ssa.Call); ok && call.Call.StaticCallee() != nil && call.Call.StaticCallee().Name() == "newLoggerResponseWriter" {
				wOK = true
			}
		}
		c.ob(rule, "LoggingMiddleware/next-gets-the-counting-writer", next.Pos(), wOK, true, "")
	}
}

// attrSource describes where a slog attribute's value comes from.
func (c *Ctx) attrSource(v ssa.Value) string {
	v = stripConv(v)
	if call, ok := v.(*ssa.Call); ok {
		switch calleeName(call.Common()) {
		case "(net/http.Header).Get":
			h, _ := constString(call.Call.Args[1])
			return "header(" + sourceOfHeader(call.Call.Args[0]) + "):" + h
		}
	}
	chain, base := fieldPath(v)
	if len(chain) > 0 {
		return logRole(base, 0) + "." + pathString(chain)
	}
	return "?"
}

// logRole names what a value IS in the logging middleware, whatever the local variable holding it is called: the
// request ("r": the handler's parameter or what WithContext/Clone make of it), the counting writer ("writer": made by
// newLoggerResponseWriter) or the per-request logging context ("loggingRequestContext": the local struct of that type).
func logRole(v ssa.Value, depth int) string {
	return logRoleIn(v, depth, map[*ssa.Alloc]bool{})
}

func logRoleIn(v ssa.Value, depth int, visiting map[*ssa.Alloc]bool) string {
	if depth > 12 || v == nil {
		return "?"
	}
	logRole := func(v ssa.Value, d int) string { return logRoleIn(v, d, visiting) }
	switch x := v.(type) {
	case *ssa.Parameter:
		if namedOf(x.Type()) == "net/http.Request" {
			return "r"
		}
		return "?"
	case *ssa.Call:
		switch calleeName(x.Common()) {
		case "(*net/http.Request).WithContext", "(*net/http.Request).Clone":
			return logRole(x.Call.Args[0], depth+1)
		}
		if f := x.Call.StaticCallee(); f != nil && f.Name() == "newLoggerResponseWriter" {
			return "writer"
		}
		return "?"
	case *ssa.Alloc:
		if strings.HasSuffix(namedOf(x.Type()), ".loggingRequestContext") {
			if _, isPtr := x.Type().Underlying().(*types.Pointer).Elem().Underlying().(*types.Struct); isPtr {
				return "loggingRequestContext"
			}
		}
		// a local variable: what is assigned to it (`r = r.WithContext(ctx)` refers back to the variable itself: neutral)
		if visiting[x] {
			return ""
		}
		visiting[x] = true
		defer delete(visiting, x)
		role := ""
		for _, st := range storesToCell(x) {
			r := logRole(st.Val, depth+1)
			if r == "" {
				continue
			}
			if role != "" && r != role {
				return "?"
			}
			role = r
		}
		if role == "" {
			return "?"
		}
		return role
	case *ssa.FreeVar:
		return logRole(freeVarBinding(x), depth+1)
	case *ssa.UnOp:
		if x.Op == token.MUL {
			return logRole(x.X, depth+1)
		}
	case *ssa.ChangeType:
		return logRole(x.X, depth+1)
	case *ssa.MakeInterface:
		return logRole(x.X, depth+1)
	}
	return "?"
}

func sourceOfHeader(v ssa.Value) string {
	if call, ok := v.(*ssa.Call); ok && call.Call.IsInvoke() && call.Call.Method.Name() == "Header" {
		return "writer"
	}
	if f, _, ok := fieldLoad(v); ok && f.Name() == "Header" {
		return "request"
	}
	return "?"
}

func r192(c *Ctx) {
	const rule = "R19.2 record-field-provenance"
	c.floor(rule, 9)
	serve := c.method("LoggingMiddleware", "ServeHTTP")
	var logCl *ssa.Function
	for _, cl := range serve.AnonFuncs {
		logCl = cl
	}
	if logCl == nil {
		c.undecided(rule, "log-closure", serve.Pos(), "no closure in LoggingMiddleware.ServeHTTP")
		return
	}
	want := map[string]string{
		"status": "writer.statusCode", "resp_content_length": "writer.bytesWritten",
		"method": "r.Method", "host": "r.Host", "path": "r.URL.Path", "query": "r.URL.RawQuery",
		"request_id": "header(request):X-Request-ID",
		"service":    "loggingRequestContext.Service", "target": "loggingRequestContext.Target",
	}
	got := map[string]string{}
	for _, cs := range callsIn(logCl) {
		n := calleeName(cs.common())
		if n != "log/slog.String" && n != "log/slog.Int" && n != "log/slog.Int64" {
			continue
		}
		key, ok := constString(cs.common().Args[0])
		if !ok {
			continue
		}
		got[key] = c.attrSource(cs.common().Args[1])
	}
	for k, w := range want {
		c.ob(rule, "attr "+k, logCl.Pos(), got[k] == w, true, fmt.Sprintf("attribute %q must be read from %s (got %q)", k, w, got[k]))
	}
	// the writer / request / context captured by the closure are the ones used for the request
	// (captured cells: writer <- newLoggerResponseWriter(w); r <- r.WithContext(ctx with &loggingRequestContext))
	okCtx := false
	for _, cs := range callsToName(serve, "context.WithValue") {
		if mi, ok := cs.common().Args[2].(*ssa.MakeInterface); ok {
			if logRole(mi.X, 0) == "loggingRequestContext" {
				// that context is attached to the request passed on
				for _, wc := range callsToName(serve, "(*net/http.Request).WithContext") {
					if wc.common().Args[1] == cs.instr.(ssa.Value) {
						okCtx = true
					}
				}
			}
		}
	}
	c.ob(rule, "LoggingMiddleware/context-installed-on-the-forwarded-request", serve.Pos(), okCtx, true, "the per-request logging context must be attached to the request handed down the chain")
	// custom headers: request headers from r.Header, response headers from writer.Header()
	// (retrieveCustomHeaders is de-anchored: always expanded into the log closure) every configured name is looked up in
	// the matching header map: request names in the request's headers, response names in the counting writer's
	var srcs []string
	okIdx := true
	for _, b := range logCl.Blocks {
		for _, in := range b.Instrs {
			l, ok := in.(*ssa.Lookup)
			if !ok || namedOf(l.X.Type()) != "net/http.Header" {
				continue
			}
			list, full := fullRangeElem(l.Index)
			if !full {
				okIdx = false
				continue
			}
			srcs = append(srcs, c.attrSource(resolve(list))+"|"+sourceOfHeader(resolve(l.X)))
		}
	}
	sort.Strings(srcs)
	okH := len(srcs) == 2 && srcs[0] == "loggingRequestContext.RequestHeaders|request" && srcs[1] == "loggingRequestContext.ResponseHeaders|writer"
	c.ob(rule, "log-closure/custom-headers-from-request-and-writer", logCl.Pos(), okH, true, fmt.Sprintf("configured request headers must be read from the request, response headers from the counting writer's header map: %v", srcs))
	c.ob(rule, "retrieveCustomHeaders/looks-up-every-configured-name", logCl.Pos(), okIdx && len(srcs) >= 2, true, "")
	nt := c.fn("NewTarget")
	// (the helper of the reference tree, canonicalizeLogHeaders, is always expanded into NewTarget): for both lists, every
	// element is replaced in place by its canonical form
	for _, fn := range []string{"LogRequestHeaders", "LogResponseHeaders"} {
		lf := c.field("TargetOptions", fn)
		found := false
		for _, b := range nt.Blocks {
			for _, in := range b.Instrs {
				st, ok := in.(*ssa.Store)
				if !ok {
					continue
				}
				ia, ok := st.Addr.(*ssa.IndexAddr)
				if !ok || !isLoadOfField(resolve(ia.X), lf) {
					continue
				}
				call, ok := st.Val.(*ssa.Call)
				if !ok || calleeName(call.Common()) != "net/http.CanonicalHeaderKey" {
					continue
				}
				src, full := fullRangeElem(call.Call.Args[0])
				if !full || !isLoadOfField(resolve(src), lf) {
					continue
				}
				if el, ok := call.Call.Args[0].(*ssa.UnOp); ok {
					if eia, ok := el.X.(*ssa.IndexAddr); ok && eia.Index == ia.Index {
						found = true
					}
				}
			}
		}
		c.ob(rule, "NewTarget/canonicalises-"+fn, nt.Pos(), found, true, "header maps are keyed by canonical names, so every configured name must be replaced by its canonical form at construction")
	}
}

func r193(c *Ctx) {
	const rule = "R19.3 counting-writer-observes-everything"
	c.floor(rule, 7)
	statusF, bytesF := c.field("loggerResponseWriter", "statusCode"), c.field("loggerResponseWriter", "bytesWritten")
	wh := c.method("loggerResponseWriter", "WriteHeader")
	okS := false
	for _, w := range c.writesOfField(statusF) {
		if w.fn == wh && w.val == ssa.Value(wh.Params[1]) && len(dominatingConds(w.instr.Block())) == 0 {
			okS = true
		}
	}
	c.ob(rule, "WriteHeader/records-every-status", wh.Pos(), okS, true, "the last status written is the one on the wire (e.g. a final status after 1xx)")
	c.writerForwards(rule, "loggerResponseWriter", true)
	wr := c.method("loggerResponseWriter", "Write")
	okB := false
	for _, w := range c.writesOfField(bytesF) {
		if w.fn != wr {
			continue
		}
		if bo, ok := w.val.(*ssa.BinOp); ok && bo.Op == token.ADD && isLoadOfField(bo.X, bytesF) {
			if cv, ok := bo.Y.(*ssa.Convert); ok {
				if e, ok := cv.X.(*ssa.Extract); ok && e.Index == 0 {
					if call, ok := e.Tuple.(*ssa.Call); ok && call.Call.IsInvoke() && call.Call.Method.Name() == "Write" {
						okB = len(dominatingConds(w.instr.Block())) == 0
					}
				}
			}
		}
	}
	c.ob(rule, "Write/adds-the-count-the-wrapped-writer-returned", wr.Pos(), okB, true, "")
	hj := c.method("loggerResponseWriter", "Hijack")
	ok101 := false
	for _, w := range c.writesOfField(statusF) {
		if w.fn != hj {
			continue
		}
		k, _ := constInt(w.val)
		// on the err == nil branch of the wrapped Hijack
		for _, cs := range callsIn(hj) {
			if cs.common().IsInvoke() && cs.common().Method.Name() == "Hijack" {
				if isNil, _ := nilKnowledge(w.instr, sameAs(resultOf(cs.instr.(*ssa.Call), 2))); isNil && k == 101 {
					ok101 = true
				}
			}
		}
	}
	c.ob(rule, "Hijack/records-101-on-success", hj.Pos(), ok101, true, "an upgraded connection is logged as 101")
	for _, w := range c.writesOfField(statusF) {
		o := fname(w.fn)
		ok := w.fn == wh || w.fn == hj || o == "server.newLoggerResponseWriter"
		c.ob(rule, "write loggerResponseWriter.statusCode <- "+o, w.instr.Pos(), ok, false, "")
	}
	nl := c.fn("newLoggerResponseWriter")
	ok200 := false
	for _, w := range c.writesOfField(statusF) {
		if w.fn == nl {
			if k, ok := constInt(w.val); ok && k == 200 {
				ok200 = true
			}
		}
	}
	c.ob(rule, "newLoggerResponseWriter/initial-status-200", nl.Pos(), ok200, true, "a handler that never calls WriteHeader sends 200")
	rf := lookupIface(c, "io", "ReaderFrom")
	c.ob(rule, "loggerResponseWriter/no-ReaderFrom", c.named("loggerResponseWriter").Obj().Pos(), rf != nil && !types.Implements(types.NewPointer(c.named("loggerResponseWriter")), rf), true, "implementing io.ReaderFrom would let the library copy bodies around Write, bypassing the byte count")
	r146(c, "R19.3b wrappers-keep-hijack-and-flush")
}

func r194(c *Ctx) {
	const rule = "R19.4 context-filled-where-decided"
	c.floor(rule, 6)
	lrc := c.fn("LoggingRequestContext")
	srv := c.method("Service", "serviceRequestWithTarget")
	svcF := c.field("loggingRequestContext", "Service")
	var st ssa.Instruction
	for _, w := range c.writesOfField(svcF) {
		if w.fn == srv {
			if f, base, ok := fieldLoad(w.val); ok && f.Name() == "name" && base == ssa.Value(srv.Params[0]) {
				st = w.instr
			}
		} else {
			c.ob(rule, "write loggingRequestContext.Service <- "+fname(w.fn), w.instr.Pos(), false, false, "")
		}
	}
	okSvc := st != nil
	if okSvc {
		_, skip := reach(srv, nil, isReturn, func(in ssa.Instruction) bool { return in == st })
		okSvc = !skip
		// and before any response is produced
		for _, cs := range callsIn(srv) {
			if cs.instr == st {
				continue
			}
			if sc := cs.common().StaticCallee(); sc != nil && c.inModule(sc) && sc != lrc {
				if !dominates(st, cs.instr) {
					okSvc = false
				}
			}
		}
	}
	c.ob(rule, "serviceRequestWithTarget/service-name-recorded-before-any-decision", srv.Pos(), okSvc, true, "Service must be stored before the redirect / refusal / gate / forwarding decisions so that proxy-answered requests are attributed too")
	send := c.method("Target", "SendRequest")
	var handler ssa.Instruction
	for _, cs := range callsIn(send) {
		if cs.common().IsInvoke() && cs.common().Method.Name() == "ServeHTTP" {
			handler = cs.instr
		}
	}
	for _, fld := range []struct{ name, src string }{{"Target", ""}, {"RequestHeaders", "LogRequestHeaders"}, {"ResponseHeaders", "LogResponseHeaders"}} {
		f := c.field("loggingRequestContext", fld.name)
		ok := false
		for _, w := range c.writesOfField(f) {
			if w.fn != send {
				c.ob(rule, "write loggingRequestContext."+fld.name+" <- "+fname(w.fn), w.instr.Pos(), false, false, "")
				continue
			}
			srcOK := true
			if fld.src != "" {
				ch, _ := fieldPath(w.val)
				srcOK = len(ch) >= 1 && ch[len(ch)-1].Name() == fld.src
			} else {
				call, isC := w.val.(*ssa.Call)
				srcOK = isC && call.Call.StaticCallee() != nil && call.Call.StaticCallee().Name() == "Target" && call.Call.Args[0] == ssa.Value(send.Params[0])
			}
			if handler != nil && dominates(w.instr, handler) && srcOK {
				ok = true
			}
		}
		c.ob(rule, "SendRequest/records-"+fld.name+"-before-proxying", send.Pos(), ok, true, "")
	}
	// the context object written is the one from the request's context
	for _, fn := range []*ssa.Function{srv, send} {
		ok := true
		n := 0
		for _, cs := range callsTo(fn, lrc) {
			n++
			isReq := false
			for _, p := range fn.Params {
				if cs.common().Args[0] == ssa.Value(p) && strings.HasSuffix(typeString(p.Type()), "net/http.Request") {
					isReq = true
				}
			}
			if !isReq {
				ok = false
			}
		}
		c.ob(rule, fname(fn)+"/uses-this-request's-logging-context", fn.Pos(), ok && n >= 1, true, "")
	}
	// every WithContext on the request path derives from the same request's context
	for _, fn := range c.proxyFuncs() {
		for _, cs := range callsToName(fn, "(*net/http.Request).WithContext") {
			req := cs.common().Args[0]
			derived := derivesFrom(cs.common().Args[1], func(v ssa.Value) bool {
				call, ok := v.(*ssa.Call)
				if !ok || calleeName(call.Common()) != "(*net/http.Request).Context" {
					return false
				}
				a := call.Call.Args[0]
				return sameResolved(a, req) || (cellOfLoad(a) != nil && cellOfLoad(a) == cellOfLoad(req))
			}, 0)
			c.ob(rule, "WithContext in "+fname(fn)+"/derives-from-the-request's-own-context", cs.pos(), derived, true, "replacing the request context with one not derived from it (e.g. context.Background()) drops the logging context pointer: service/target would be missing from the record")
		}
	}
	// LoggingRequestContext reads the pointer installed by the middleware
	okKey := false
	key := c.global(c.server, "contextKeyRequestContext")
	for _, cs := range callsIn(lrc) {
		if cs.common().IsInvoke() && cs.common().Method.Name() == "Value" {
			if mi, ok := cs.common().Args[0].(*ssa.MakeInterface); ok && isLoadOfGlobal(mi.X, key) {
				okKey = true
			}
		}
	}
	serve := c.method("LoggingMiddleware", "ServeHTTP")
	okKey2 := false
	for _, cs := range callsToName(serve, "context.WithValue") {
		if mi, ok := cs.common().Args[1].(*ssa.MakeInterface); ok && isLoadOfGlobal(mi.X, key) {
			okKey2 = true
		}
	}
	c.ob(rule, "LoggingRequestContext/same-context-key-on-both-sides", lrc.Pos(), okKey && okKey2, true, "")
}

func r195(c *Ctx) {
	const rule = "R19.5 buffered-responses-always-sent-through-the-writer"
	c.floor(rule, 1)
	rbm := c.method("ResponseBufferMiddleware", "ServeHTTP")
	var next ssa.Instruction
	for _, cs := range callsIn(rbm) {
		if cs.common().IsInvoke() && cs.common().Method.Name() == "ServeHTTP" {
			next = cs.instr
		}
	}
	ok := false
	for _, cs := range callsTo(rbm, c.method("bufferedResponseWriter", "Send")) {
		if next != nil && dominates(next, cs.instr) {
			_, skip := reach(rbm, next, isReturn, func(in ssa.Instruction) bool { return in == cs.instr })
			ok = !skip
		}
	}
	c.ob(rule, "ResponseBufferMiddleware/Send-after-next-on-every-path", rbm.Pos(), ok, true, "the buffered status and body must be flushed through the outer (counting) writer whatever the request's context state: skipping Send on a cancelled request loses the 499 the proxy recorded for the log")
}

// R19.7 a request the gate finishes itself has been given its status explicitly: the record's status is whatever reached
// WriteHeader and stays at the initial 200 when nothing did. On every path on which handlePausedAndStoppedRequests
// reports "handled" (the caller then returns without forwarding) a response was written (SetErrorResponse, WriteHeader,
// http.Error / Redirect); a silent "handled" - e.g. for a client that went away while held - is logged as a 200 that
// was never sent, where the request would otherwise have been forwarded and recorded as 499 by the target's error handler.
func rHandledMeansAnswered(c *Ctx, rule string) {
	c.floor(rule, 2)
	gate := c.method("Service", "handlePausedAndStoppedRequests")
	ser := c.fn("SetErrorResponse")
	writes := func(in ssa.Instruction) bool {
		ci, ok := in.(ssa.CallInstruction)
		if !ok {
			return false
		}
		cc := ci.Common()
		if cc.IsInvoke() {
			return cc.Method.Name() == "WriteHeader" || cc.Method.Name() == "Write"
		}
		if isCallTo(cc, ser) {
			return true
		}
		switch calleeName(cc) {
		case "net/http.Error", "net/http.Redirect", "net/http.NotFound":
			return true
		}
		return false
	}
	paths, complete := enumPathsX(gate, func(*ssa.Return) bool { return true }, 4000)
	c.ob(rule, "gate/paths-enumerated", gate.Pos(), complete && len(paths) > 0, false, fmt.Sprintf("%d paths", len(paths)))
	nHandled, silent := 0, token.NoPos
	for _, p := range paths {
		if p.ret == nil || len(p.ret.Results) != 1 {
			continue
		}
		v := p.pathValue(retVal(p.ret, 0))
		if k, ok := constBool(v); ok && !k {
			continue // let through: the balancer answers
		}
		nHandled++
		if !p.passes(writes) && !silent.IsValid() {
			silent = p.ret.Pos()
			if !silent.IsValid() {
				silent = gate.Pos()
			}
		}
	}
	pos := gate.Pos()
	if silent.IsValid() {
		pos = silent
	}
	c.ob(rule, "gate/every-handled-path-writes-a-response", pos, nHandled > 0 && !silent.IsValid(), true, fmt.Sprintf("%d paths report the request handled; one that wrote nothing leaves the record at the default 200", nHandled))
}
