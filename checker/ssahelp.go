package main

import (
	"fmt"
	"go/constant"
	"go/token"
	"go/types"
	"sort"
	"strings"

	"golang.org/x/tools/go/ssa"
)

// ---------- anchors ----------

func (c *Ctx) fail(format string, a ...any) {
	panic(anchorError{fmt.Sprintf(format, a...)})
}

func (c *Ctx) namedIn(pkg *ssa.Package, name string) *types.Named {
	m := pkg.Members[name]
	t, ok := m.(*ssa.Type)
	if !ok {
		c.fail("anchor not found: type %s.%s", pkg.Pkg.Name(), name)
	}
	nt, ok := t.Type().(*types.Named)
	if !ok {
		c.fail("anchor %s.%s is not a named type", pkg.Pkg.Name(), name)
	}
	return nt
}

func (c *Ctx) named(name string) *types.Named { return c.namedIn(c.server, name) }

func (c *Ctx) methodIn(pkg *ssa.Package, typ, name string) *ssa.Function {
	nt := c.namedIn(pkg, typ)
	for _, t := range []types.Type{types.NewPointer(nt), nt} {
		sel := c.prog.MethodSets.MethodSet(t).Lookup(pkg.Pkg, name)
		if sel != nil {
			fn := c.prog.MethodValue(sel)
			if fn != nil && fn.Synthetic == "" {
				c.touched(fn.String())
				c.anchor(fn.String())
				return fn
			}
			// promoted/wrapper: not declared on this type
		}
	}
	// renamed?  exactly one method of the type that does not exist in the reference tree and has the very signature
	// the reference tree's method had (kept in baseline_funcs.txt only by name: so compare with sibling evidence - the
	// old name is gone and a single new method of that receiver appeared)
	if fn := c.renamedMethodByMap(pkg, nt, name); fn != nil {
		c.note("anchor %s.%s not found; the single new method %s of that type is taken to be its new name", typ, name, fn.Name())
		c.touched(fn.String())
		return fn
	}
	c.fail("anchor not found: method %s.%s", typ, name)
	return nil
}

// method resolves a method declared on a named type of internal/server.
func (c *Ctx) method(typ, name string) *ssa.Function { return c.methodIn(c.server, typ, name) }

// methodOpt is method() without failing: nil when the method does not exist.
func (c *Ctx) methodOpt(pkg *ssa.Package, typ, name string) (fn *ssa.Function) {
	defer func() {
		if r := recover(); r != nil {
			if _, ok := r.(anchorError); ok {
				fn = nil
				return
			}
			panic(r)
		}
	}()
	return c.methodIn(pkg, typ, name)
}

func (c *Ctx) funcIn(pkg *ssa.Package, name string) *ssa.Function {
	fn := pkg.Func(name)
	if fn == nil {
		if r := c.renamedFuncByMap(pkg, name); r != nil {
			c.note("anchor %s not found; the single new package-level function %s with the callers of the old one is taken to be its new name", name, r.Name())
			c.touched(r.String())
			return r
		}
		c.fail("anchor not found: func %s.%s", pkg.Pkg.Name(), name)
	}
	c.touched(fn.String())
	c.anchor(fn.String())
	return fn
}

func (c *Ctx) anchor(name string) {
	if c.anchored == nil {
		c.anchored = map[string]bool{}
	}
	c.anchored[name] = true
}

func (c *Ctx) fn(name string) *ssa.Function { return c.funcIn(c.server, name) }

func (c *Ctx) fieldIn(pkg *ssa.Package, typ, name string) *types.Var {
	nt := c.namedIn(pkg, typ)
	st, ok := nt.Underlying().(*types.Struct)
	if !ok {
		c.fail("anchor %s is not a struct", typ)
	}
	for i := 0; i < st.NumFields(); i++ {
		if st.Field(i).Name() == name {
			return st.Field(i)
		}
	}
	// renamed?
	for nu, old := range renamedFieldsOf(pkg.Pkg.Path(), typ, st) {
		if old == name {
			for i := 0; i < st.NumFields(); i++ {
				if st.Field(i).Name() == nu {
					c.note("anchor field %s.%s not found; the new field %s of that struct is taken to be its new name", typ, name, nu)
					return st.Field(i)
				}
			}
		}
	}
	c.fail("anchor not found: field %s.%s", typ, name)
	return nil
}

func (c *Ctx) field(typ, name string) *types.Var { return c.fieldIn(c.server, typ, name) }

func (c *Ctx) global(pkg *ssa.Package, name string) *ssa.Global {
	g, ok := pkg.Members[name].(*ssa.Global)
	if !ok {
		c.fail("anchor not found: var %s.%s", pkg.Pkg.Name(), name)
	}
	return g
}

func (c *Ctx) constant(pkg *ssa.Package, name string) *ssa.NamedConst {
	g, ok := pkg.Members[name].(*ssa.NamedConst)
	if !ok {
		c.fail("anchor not found: const %s.%s", pkg.Pkg.Name(), name)
	}
	return g
}

// fname gives a stable, line-free name for a function (closures are
// Parent$N, which is stable unless closures are added before it).
func fname(fn *ssa.Function) string {
	if fn == nil {
		return "<nil>"
	}
	s := fn.String()
	// a function of the reference tree that was only renamed keeps its old name in keys and tables
	for old, nu := range renamedAnchors {
		if s == nu || strings.HasPrefix(s, nu+"$") {
			s = old + s[len(nu):]
			break
		}
	}
	s = strings.ReplaceAll(s, modulePath+"/internal/", "")
	return s
}

// ---------- calls ----------

type callSite struct {
	fn    *ssa.Function
	instr ssa.CallInstruction
}

func (s callSite) common() *ssa.CallCommon { return s.instr.Common() }
func (s callSite) pos() token.Pos {
	if p := s.instr.Pos(); p.IsValid() {
		return p
	}
	return s.instr.Common().Pos()
}

// callsIn lists call/go/defer instructions of fn (not of nested closures).
func callsIn(fn *ssa.Function) []callSite {
	var out []callSite
	for _, b := range fn.Blocks {
		for _, in := range b.Instrs {
			if ci, ok := in.(ssa.CallInstruction); ok {
				out = append(out, callSite{fn, ci})
			}
		}
	}
	return out
}

// withAnon returns fn and all functions nested in it.
func withAnon(fn *ssa.Function) []*ssa.Function {
	out := []*ssa.Function{fn}
	for _, a := range fn.AnonFuncs {
		out = append(out, withAnon(a)...)
	}
	return out
}

func callsInDeep(fn *ssa.Function) []callSite {
	var out []callSite
	for _, f := range withAnon(fn) {
		out = append(out, callsIn(f)...)
	}
	return out
}

// calleeOf resolves the called *types.Func of a call site: static callee,
// interface method, or bound method; nil for dynamic function values.
func calleeObj(cc *ssa.CallCommon) *types.Func {
	if cc.IsInvoke() {
		return cc.Method
	}
	if f := cc.StaticCallee(); f != nil {
		if o, ok := f.Object().(*types.Func); ok {
			return o
		}
		// instantiated generics / closures: use origin
		if f.Origin() != nil {
			if o, ok := f.Origin().Object().(*types.Func); ok {
				return o
			}
		}
	}
	return nil
}

// calleeName is the types.Func full name, e.g. "(*sync.WaitGroup).Wait",
// "os.Create", "(net/http.Handler).ServeHTTP"; "" when unresolved.
func calleeName(cc *ssa.CallCommon) string {
	if o := calleeObj(cc); o != nil {
		return o.FullName()
	}
	if b, ok := cc.Value.(*ssa.Builtin); ok {
		return "builtin." + b.Name()
	}
	return ""
}

func isCallTo(cc *ssa.CallCommon, fn *ssa.Function) bool {
	if cc.IsInvoke() {
		return false
	}
	f := cc.StaticCallee()
	return f != nil && (f == fn || (f.Origin() != nil && f.Origin() == fn))
}

func callsTo(fn *ssa.Function, callee *ssa.Function) []callSite {
	var out []callSite
	for _, s := range callsIn(fn) {
		if isCallTo(s.common(), callee) {
			out = append(out, s)
		}
	}
	return out
}

func callsToName(fn *ssa.Function, fullName string) []callSite {
	var out []callSite
	for _, s := range callsIn(fn) {
		if calleeName(s.common()) == fullName {
			out = append(out, s)
		}
	}
	return out
}

func callsToNameDeep(fn *ssa.Function, fullName string) []callSite {
	var out []callSite
	for _, f := range withAnon(fn) {
		out = append(out, callsToName(f, fullName)...)
	}
	return out
}

// usesOfFunc finds every place in the module where callee is called or taken
// as a value (method value, function value): the complete set of ways it can
// be entered from module code.
type funcUse struct {
	in    *ssa.Function
	instr ssa.Instruction
	kind  string // "call" | "go" | "defer" | "value"
}

func (w *World) usesOfFunc(callee *ssa.Function) []funcUse {
	out := w.usesOfFuncSyntactic(callee)
	if !w.thorough {
		return out
	}
	// thorough tier: add callers that reach callee only through dynamic dispatch or function values (VTA call graph)
	seen := map[*ssa.Function]bool{}
	for _, u := range out {
		seen[u.in] = true
	}
	if n := w.callGraph().Nodes[callee]; n != nil {
		for _, e := range n.In {
			caller := e.Caller.Func
			if caller == nil || seen[caller] || !w.inModule(caller) || caller.Synthetic != "" && !strings.Contains(caller.Synthetic, "range-over-func") {
				continue
			}
			seen[caller] = true
			w.vtaExtra++
			var at ssa.Instruction
			if e.Site != nil {
				at = e.Site
			} else if len(caller.Blocks) > 0 && len(caller.Blocks[0].Instrs) > 0 {
				at = caller.Blocks[0].Instrs[0]
			}
			if at != nil {
				out = append(out, funcUse{caller, at, "vta"})
			}
		}
	}
	return out
}

func (w *World) usesOfFuncSyntactic(callee *ssa.Function) []funcUse {
	var out []funcUse
	for _, f := range w.modFuncs {
		for _, b := range f.Blocks {
			for _, in := range b.Instrs {
				if ci, ok := in.(ssa.CallInstruction); ok && isCallTo(ci.Common(), callee) {
					k := "call"
					switch in.(type) {
					case *ssa.Go:
						k = "go"
					case *ssa.Defer:
						k = "defer"
					}
					out = append(out, funcUse{f, in, k})
					continue
				}
				// value uses: operands referring to the function or its bound wrapper
				for _, op := range in.Operands(nil) {
					if op == nil || *op == nil {
						continue
					}
					if isFuncValueOf(*op, callee) {
						if ci, ok := in.(ssa.CallInstruction); ok && ci.Common().Value == *op {
							continue // counted above
						}
						out = append(out, funcUse{f, in, "value"})
					}
				}
			}
		}
	}
	return out
}

func isFuncValueOf(v ssa.Value, callee *ssa.Function) bool {
	switch x := v.(type) {
	case *ssa.Function:
		if x == callee {
			return true
		}
		// bound method wrapper / thunk
		if x.Synthetic != "" && x.Object() != nil && callee.Object() != nil && x.Object() == callee.Object() {
			return true
		}
	case *ssa.MakeClosure:
		if f, ok := x.Fn.(*ssa.Function); ok {
			return isFuncValueOf(f, callee)
		}
	}
	return false
}

// ---------- dominance and paths ----------

func instrIdx(in ssa.Instruction) int {
	for i, x := range in.Block().Instrs {
		if x == in {
			return i
		}
	}
	return -1
}

// dominates: a executes before b on every path reaching b (same function).
func dominates(a, b ssa.Instruction) bool {
	if a.Parent() != b.Parent() {
		return false
	}
	if a.Block() == b.Block() {
		return instrIdx(a) < instrIdx(b)
	}
	return a.Block().Dominates(b.Block())
}

type condEdge struct {
	cond  ssa.Value
	taken bool // the branch on which the dominated code runs
	ifIn  *ssa.If
	subst map[ssa.Value]ssa.Value // for conditions imported from a helper predicate: callee parameter -> call argument
}

// asCmp interprets the condition as a comparison, with helper parameters replaced by the caller's arguments.
func (ce condEdge) asCmp() (cmp, bool) {
	cm, ok := asCmp(ce.cond, ce.taken)
	if ok && ce.subst != nil {
		cm.x, cm.y = ce.sub(cm.x), ce.sub(cm.y)
	}
	return cm, ok
}

func (ce condEdge) sub(v ssa.Value) ssa.Value {
	if r, ok := ce.subst[v]; ok {
		return r
	}
	return v
}

// edgeDominated reports whether block b is only reachable through the
// succ-th edge of the If terminating block d.
func edgeDominated(d *ssa.BasicBlock, succ int, b *ssa.BasicBlock) bool {
	s := d.Succs[succ]
	if s == d.Succs[1-succ] {
		return false
	}
	if !s.Dominates(b) {
		return false
	}
	// every predecessor of s other than d must itself be dominated by s (loop back edges)
	for _, p := range s.Preds {
		if p == d {
			continue
		}
		if !s.Dominates(p) {
			return false
		}
	}
	return true
}

// dominatingConds returns the branch conditions known to hold when control
// reaches block b.  A condition that is a call of a small boolean helper of the
// module (e.g. `func (s *Service) rolloutInUse() bool { return s.rollout != nil && ... }`)
// known to be true is expanded into the conditions that helper's true result implies,
// so extracting a guard into a predicate method does not blind the rules.
func dominatingConds(b *ssa.BasicBlock) []condEdge {
	out := dominatingCondsRaw(b)
	// a condition that is a phi of booleans (e.g. `ok := a && b` computed earlier, or an inlined predicate):
	// when it is known true and all but one incoming value are the constant false, the facts of that one edge hold
	for i := 0; i < len(out) && i < 64; i++ {
		ce := out[i]
		phi, ok := ce.cond.(*ssa.Phi)
		if !ok || ce.subst != nil {
			continue
		}
		var srcV ssa.Value
		var srcB *ssa.BasicBlock
		cnt := 0
		for j, e := range phi.Edges {
			if k, isC := constBool(e); isC && k != ce.taken {
				continue
			}
			cnt++
			srcV, srcB = e, phi.Block().Preds[j]
		}
		if cnt != 1 {
			continue
		}
		out = append(out, dominatingCondsRaw(srcB)...)
		// the predecessor's own branch towards the phi block
		if len(srcB.Instrs) > 0 {
			if ifi, isIf := srcB.Instrs[len(srcB.Instrs)-1].(*ssa.If); isIf {
				out = append(out, condEdge{cond: ifi.Cond, taken: srcB.Succs[0] == phi.Block(), ifIn: ifi})
			}
		}
		if _, isC := constBool(srcV); !isC {
			out = append(out, condEdge{cond: srcV, taken: ce.taken})
		}
	}
	// `phi == nil` / `phi != nil` (typically an error merged from several steps, e.g. by an inlined helper): incoming
	// values that contradict the known outcome are excluded; if one edge survives, its facts hold.
	for i := 0; i < len(out) && i < 96; i++ {
		ce := out[i]
		if ce.subst != nil {
			continue
		}
		cm, ok := asCmp(ce.cond, ce.taken)
		if !ok || (cm.op != token.EQL && cm.op != token.NEQ) {
			continue
		}
		var phi *ssa.Phi
		if p, isP := cm.x.(*ssa.Phi); isP && isNilConst(cm.y) {
			phi = p
		} else if p, isP := cm.y.(*ssa.Phi); isP && isNilConst(cm.x) {
			phi = p
		}
		if phi == nil {
			continue
		}
		wantNil := cm.op == token.EQL
		cnt := 0
		var srcB *ssa.BasicBlock
		var srcV ssa.Value
		for j, e := range phi.Edges {
			pred := phi.Block().Preds[j]
			if isNilConst(e) {
				if !wantNil {
					continue
				}
			} else if wantNil {
				// excluded when the value is known non-nil where the edge leaves its predecessor
				known := false
				for _, pc := range append(dominatingCondsRaw(pred), edgeCond(pred, phi.Block())...) {
					if c2, ok2 := asCmp(pc.cond, pc.taken); ok2 && c2.op == token.NEQ && ((c2.x == e && isNilConst(c2.y)) || (c2.y == e && isNilConst(c2.x))) {
						known = true
					}
				}
				if _, isGlobalErr := e.(*ssa.UnOp); isGlobalErr && isErrorType(e.Type()) {
					if u := e.(*ssa.UnOp); u.Op == token.MUL {
						if _, isG := u.X.(*ssa.Global); isG {
							known = true // sentinel error variables are non-nil
						}
					}
				}
				if known {
					continue
				}
			}
			cnt++
			srcB, srcV = pred, e
		}
		if cnt != 1 {
			continue
		}
		out = append(out, dominatingCondsRaw(srcB)...)
		out = append(out, edgeCond(srcB, phi.Block())...)
		if !isNilConst(srcV) {
			// the surviving value itself is nil / non-nil
			out = append(out, condEdge{cond: &ssa.BinOp{Op: token.NEQ, X: srcV, Y: ssa.NewConst(nil, srcV.Type())}, taken: !wantNil})
		}
	}
	n := len(out)
	for i := 0; i < n; i++ {
		ce := out[i]
		if call, ok := ce.cond.(*ssa.Call); ok && ce.taken {
			if f := call.Call.StaticCallee(); f != nil && isModulePredicate(f) {
				sub := map[ssa.Value]ssa.Value{}
				for i, p := range f.Params {
					if i < len(call.Call.Args) {
						sub[p] = call.Call.Args[i]
					}
				}
				for _, imp := range impliedWhenTrue(f, 0) {
					imp.subst = sub
					out = append(out, imp)
				}
			}
		}
	}
	return out
}

func isModulePredicate(f *ssa.Function) bool {
	if f.Blocks == nil || f.Pkg == nil || !strings.HasPrefix(f.Pkg.Pkg.Path(), modulePath) {
		return false
	}
	res := f.Signature.Results()
	if res.Len() != 1 || !types.Identical(res.At(0).Type(), types.Typ[types.Bool]) {
		return false
	}
	n := 0
	for _, b := range f.Blocks {
		n += len(b.Instrs)
	}
	return n <= 60
}

var impliedCache = map[*ssa.Function][]condEdge{}

// impliedWhenTrue: conditions that hold whenever predicate f returns true.
func impliedWhenTrue(f *ssa.Function, depth int) []condEdge {
	if c, ok := impliedCache[f]; ok {
		return c
	}
	impliedCache[f] = nil
	if depth > 3 {
		return nil
	}
	type key struct {
		v     ssa.Value
		taken bool
	}
	var sets []map[key]condEdge
	addSource := func(v ssa.Value, blk *ssa.BasicBlock) {
		if b, isC := constBool(v); isC && !b {
			return
		}
		m := map[key]condEdge{}
		for _, ce := range dominatingCondsRaw(blk) {
			m[key{ce.cond, ce.taken}] = ce
		}
		if _, isC := constBool(v); !isC {
			m[key{v, true}] = condEdge{cond: v, taken: true}
		}
		sets = append(sets, m)
	}
	for _, ret := range returnsOf(f) {
		if f.Recover != nil && ret.Block() == f.Recover {
			continue
		}
		v := retVal(ret, 0)
		if phi, ok := v.(*ssa.Phi); ok {
			for i, e := range phi.Edges {
				// conditions known at the END of the predecessor: those dominating it, plus its own branch towards the phi block
				pred := phi.Block().Preds[i]
				src := e
				if in, ok := e.(ssa.Instruction); ok && in.Block() != nil {
					addSource(src, in.Block())
				} else {
					addSource(src, pred)
					if len(sets) > 0 {
						if ifi, ok := pred.Instrs[len(pred.Instrs)-1].(*ssa.If); ok {
							taken := pred.Succs[0] == phi.Block()
							if b, isC := constBool(e); isC && b {
								sets[len(sets)-1][key{ifi.Cond, taken}] = condEdge{cond: ifi.Cond, taken: taken}
							}
						}
					}
				}
			}
		} else {
			addSource(v, ret.Block())
		}
	}
	if len(sets) == 0 {
		return nil
	}
	var out []condEdge
	for k, ce := range sets[0] {
		all := true
		for _, m := range sets[1:] {
			if _, ok := m[k]; !ok {
				all = false
			}
		}
		if all {
			out = append(out, ce)
		}
	}
	impliedCache[f] = out
	return out
}

func dominatingCondsRaw(b *ssa.BasicBlock) []condEdge {
	var out []condEdge
	for d := b.Idom(); d != nil; d = d.Idom() {
		if len(d.Instrs) == 0 {
			continue
		}
		ifi, ok := d.Instrs[len(d.Instrs)-1].(*ssa.If)
		if !ok {
			continue
		}
		if edgeDominated(d, 0, b) {
			out = append(out, condEdge{cond: ifi.Cond, taken: true, ifIn: ifi})
		} else if edgeDominated(d, 1, b) {
			out = append(out, condEdge{cond: ifi.Cond, taken: false, ifIn: ifi})
		}
	}
	return out
}

// normalised comparison: x op y, with negation folded in.
type cmp struct {
	op   token.Token
	x, y ssa.Value
}

func negTok(t token.Token) token.Token {
	switch t {
	case token.EQL:
		return token.NEQ
	case token.NEQ:
		return token.EQL
	case token.LSS:
		return token.GEQ
	case token.GEQ:
		return token.LSS
	case token.GTR:
		return token.LEQ
	case token.LEQ:
		return token.GTR
	}
	return token.ILLEGAL
}

// asCmp interprets a boolean value known to be `taken` as a comparison.
func asCmp(v ssa.Value, taken bool) (cmp, bool) {
	for {
		if u, ok := v.(*ssa.UnOp); ok && u.Op == token.NOT {
			v = u.X
			taken = !taken
			continue
		}
		break
	}
	b, ok := v.(*ssa.BinOp)
	if !ok {
		return cmp{}, false
	}
	switch b.Op {
	case token.EQL, token.NEQ, token.LSS, token.LEQ, token.GTR, token.GEQ:
	default:
		return cmp{}, false
	}
	op := b.Op
	if !taken {
		op = negTok(op)
	}
	return cmp{op, b.X, b.Y}, true
}

func isNilConst(v ssa.Value) bool {
	k, ok := v.(*ssa.Const)
	return ok && k.Value == nil
}

func constInt(v ssa.Value) (int64, bool) {
	k, ok := v.(*ssa.Const)
	if !ok || k.Value == nil || k.Value.Kind() != constant.Int {
		return 0, false
	}
	n, ok := constant.Int64Val(k.Value)
	return n, ok
}

func constString(v ssa.Value) (string, bool) {
	k, ok := v.(*ssa.Const)
	if !ok || k.Value == nil || k.Value.Kind() != constant.String {
		return "", false
	}
	return constant.StringVal(k.Value), true
}

func constBool(v ssa.Value) (bool, bool) {
	k, ok := v.(*ssa.Const)
	if !ok || k.Value == nil || k.Value.Kind() != constant.Bool {
		return false, false
	}
	return constant.BoolVal(k.Value), true
}

// knownNil / knownNonNil: is value v known to be nil (resp. non-nil) when
// control reaches instruction at?  same: value identity predicate.
func nilKnowledge(at ssa.Instruction, same func(ssa.Value) bool) (isNil, nonNil bool) {
	return nilKnowledgeOf(dominatingConds(at.Block()), same)
}

// nilKnowledgeOf: the same over an explicit list of condition edges.
func nilKnowledgeOf(conds []condEdge, same func(ssa.Value) bool) (isNil, nonNil bool) {
	for _, ce := range conds {
		cm, ok := ce.asCmp()
		if !ok {
			continue
		}
		var other ssa.Value
		if same(cm.x) {
			other = cm.y
		} else if same(cm.y) {
			other = cm.x
		} else {
			continue
		}
		if !isNilConst(other) {
			continue
		}
		if cm.op == token.EQL {
			isNil = true
		}
		if cm.op == token.NEQ {
			nonNil = true
		}
	}
	return
}

func sameAs(v ssa.Value) func(ssa.Value) bool {
	return func(x ssa.Value) bool { return x == v }
}

// boolKnowledge: is boolean value identified by same() known true/false at `at`.
func boolKnowledge(at ssa.Instruction, same func(ssa.Value) bool) (isTrue, isFalse bool) {
	for _, ce := range dominatingConds(at.Block()) {
		v := ce.cond
		taken := ce.taken
		for {
			if u, ok := v.(*ssa.UnOp); ok && u.Op == token.NOT {
				v = u.X
				taken = !taken
				continue
			}
			break
		}
		if same(v) {
			if taken {
				isTrue = true
			} else {
				isFalse = true
			}
		}
	}
	return
}

// reach: instruction-level search.  Starting just after `from` (or at the
// function entry when from is nil), is there a path to an instruction
// satisfying target that does not pass through an instruction satisfying
// blocked?  Paths follow CFG successors; Panic terminates a path.
func reach(fn *ssa.Function, from ssa.Instruction, target, blocked func(ssa.Instruction) bool) (ssa.Instruction, bool) {
	type pt struct {
		b    *ssa.BasicBlock
		i    int
		pred *ssa.BasicBlock // the block this one was entered from (nil: unknown)
	}
	type edge struct{ from, to *ssa.BasicBlock }
	var start pt
	if from == nil {
		start = pt{fn.Blocks[0], 0, nil}
	} else {
		start = pt{from.Block(), instrIdx(from) + 1, nil}
	}
	seenEdge := map[edge]bool{}
	stack := []pt{start}
	for len(stack) > 0 {
		p := stack[len(stack)-1]
		stack = stack[:len(stack)-1]
		stopped := false
		for i := p.i; i < len(p.b.Instrs); i++ {
			in := p.b.Instrs[i]
			if blocked != nil && blocked(in) {
				stopped = true
				break
			}
			if target(in) {
				return in, true
			}
		}
		if stopped {
			continue
		}
		for _, s := range feasibleSuccs(p.pred, p.b) {
			if !seenEdge[edge{p.b, s}] {
				seenEdge[edge{p.b, s}] = true
				stack = append(stack, pt{s, 0, p.b})
			}
		}
	}
	return nil, false
}

// feasibleSuccs: the successors of b a path entering it from pred can take. A block that merges several values of one
// variable and branches on that variable at once (`err := <merge>; if err != nil`, which is what a helper expanded in
// place leaves behind) only has the successor the incoming value selects.
func feasibleSuccs(pred, b *ssa.BasicBlock) []*ssa.BasicBlock {
	if pred == nil || len(b.Instrs) == 0 || len(b.Succs) != 2 {
		return b.Succs
	}
	iff, ok := b.Instrs[len(b.Instrs)-1].(*ssa.If)
	if !ok {
		return b.Succs
	}
	idx := -1
	for i, q := range b.Preds {
		if q == pred {
			if idx >= 0 {
				return b.Succs // two edges from the same block
			}
			idx = i
		}
	}
	if idx < 0 {
		return b.Succs
	}
	cond := iff.Cond
	neg := false
	for {
		u, ok := cond.(*ssa.UnOp)
		if !ok || u.Op != token.NOT {
			break
		}
		cond, neg = u.X, !neg
	}
	var truth, known bool
	switch x := cond.(type) {
	case *ssa.Phi:
		if x.Block() == b && idx < len(x.Edges) {
			if k, ok := constBool(x.Edges[idx]); ok {
				truth, known = k, true
			}
		}
	case *ssa.BinOp:
		if x.Op != token.EQL && x.Op != token.NEQ {
			return b.Succs
		}
		for _, pr := range [][2]ssa.Value{{x.X, x.Y}, {x.Y, x.X}} {
			phi, ok := pr[0].(*ssa.Phi)
			if !ok || phi.Block() != b || idx >= len(phi.Edges) {
				continue
			}
			in := phi.Edges[idx]
			if isNilConst(pr[1]) {
				switch {
				case isNilConst(in):
					truth, known = true, true
				case producesNonNilError(in) || producesNonNilError(stripConv(in)):
					truth, known = false, true
				}
			} else if k, ok := constInt(pr[1]); ok {
				if k2, ok := constInt(in); ok {
					truth, known = k == k2, true
				}
			}
			if known && x.Op == token.NEQ {
				truth = !truth
			}
			break
		}
	}
	if !known {
		return b.Succs
	}
	if neg {
		truth = !truth
	}
	if truth {
		return b.Succs[:1]
	}
	return b.Succs[1:]
}

// listElem is one element of a list built up locally by appends, with the conditions under which it is appended.
type listElem struct {
	val   ssa.Value
	conds []condEdge
}

// listContents: v is a slice built in this function from the empty list by appends outside loops (`xs := make(T, 0, n);
// xs = append(xs, a); if c { xs = append(xs, b) }`): its elements, each with the conditions under which it was added.
// ok is false for anything else (a parameter, a list filled in a loop, ...).
func listContents(v ssa.Value) ([]listElem, bool) {
	seenApp := map[*ssa.Call]bool{}
	var out []listElem
	ok := true
	seen := map[ssa.Value]bool{}
	var walk func(v ssa.Value, d int)
	walk = func(v ssa.Value, d int) {
		if !ok {
			return
		}
		v = resolve(v)
		if seen[v] {
			if _, isPhi := v.(*ssa.Phi); isPhi {
				return
			}
			return
		}
		seen[v] = true
		if d > 12 {
			ok = false
			return
		}
		if isEmptySliceLit(v) || isNilConst(v) {
			return
		}
		switch x := v.(type) {
		case *ssa.Phi:
			if inLoop(x.Block()) {
				ok = false
				return
			}
			for _, e := range x.Edges {
				walk(e, d+1)
			}
		case *ssa.Call:
			b, isB := x.Call.Value.(*ssa.Builtin)
			if !isB || b.Name() != "append" || len(x.Call.Args) != 2 || inLoop(x.Block()) {
				ok = false
				return
			}
			if !seenApp[x] {
				seenApp[x] = true
				els := varargElems(x.Call.Args[1])
				if len(els) == 0 {
					ok = false
					return
				}
				for _, e := range els {
					out = append(out, listElem{resolve(e), dominatingConds(x.Block())})
				}
			}
			walk(x.Call.Args[0], d+1)
		default:
			ok = false
		}
	}
	walk(v, 0)
	return out, ok && len(out) > 0
}

// enumPaths lists the acyclic paths from the entry of fn to the returns accepted by target, each as the branch
// conditions taken along it (phi-tests resolved edge by edge, as in reach). complete is false when the limit was hit.
func enumPaths(fn *ssa.Function, target func(*ssa.Return) bool, limit int) (paths [][]condEdge, complete bool) {
	ps, complete := enumPathsX(fn, target, limit)
	for _, p := range ps {
		paths = append(paths, p.conds)
	}
	return paths, complete
}

// pathInfo is one acyclic path: the branch conditions taken and the blocks passed through, in order.
type pathInfo struct {
	conds  []condEdge
	blocks []*ssa.BasicBlock
	ret    *ssa.Return
}

// pathValue: the value v has on path p: a phi is what came in over the edge the path took (looked through repeatedly).
func (p pathInfo) pathValue(v ssa.Value) ssa.Value {
	for d := 0; d < 8; d++ {
		phi, ok := v.(*ssa.Phi)
		if !ok {
			return v
		}
		idx := -1
		for i := len(p.blocks) - 1; i >= 1; i-- {
			if p.blocks[i] == phi.Block() {
				for j, q := range phi.Block().Preds {
					if q == p.blocks[i-1] {
						idx = j
					}
				}
				break
			}
		}
		if idx < 0 || idx >= len(phi.Edges) {
			return v
		}
		v = phi.Edges[idx]
	}
	return v
}

// passes: some instruction of the path's blocks satisfies pred.
func (p pathInfo) passes(pred func(ssa.Instruction) bool) bool {
	for _, b := range p.blocks {
		for _, in := range b.Instrs {
			if pred(in) {
				return true
			}
		}
	}
	return false
}

// enumPathsX: like enumPaths, with the blocks of each path; a condition value that was already decided earlier on the path
// is followed only the same way again (`if err != nil { cleanup }; ...; if err != nil { return err }`).
func enumPathsX(fn *ssa.Function, target func(*ssa.Return) bool, limit int) (paths []pathInfo, complete bool) {
	complete = true
	onPath := map[*ssa.BasicBlock]bool{}
	// (conditions are compared by what they compare: go/ssa does not share `err != nil` computed twice)
	type condKey struct {
		op   token.Token
		x, y ssa.Value
		v    ssa.Value
	}
	keyOf := func(v ssa.Value) condKey {
		if bo, ok := v.(*ssa.BinOp); ok {
			switch bo.Op {
			case token.EQL, token.NEQ, token.LSS, token.LEQ, token.GTR, token.GEQ:
				x, y := bo.X, bo.Y
				if _, isC := x.(*ssa.Const); isC {
					if _, isC2 := y.(*ssa.Const); !isC2 && (bo.Op == token.EQL || bo.Op == token.NEQ) {
						x, y = y, x
					}
				}
				if cy, isC := y.(*ssa.Const); isC {
					// constants are not shared either: compare nil / literal by value
					if cy.Value == nil {
						return condKey{op: bo.Op, x: x, v: nil}
					}
				}
				return condKey{op: bo.Op, x: x, y: y}
			}
		}
		return condKey{v: v}
	}
	decided := map[condKey]bool{}
	var blocks []*ssa.BasicBlock
	var walk func(pred, b *ssa.BasicBlock, conds []condEdge)
	walk = func(pred, b *ssa.BasicBlock, conds []condEdge) {
		if !complete || onPath[b] {
			return
		}
		if len(paths) >= limit {
			complete = false
			return
		}
		if len(b.Instrs) == 0 {
			return
		}
		blocks = append(blocks, b)
		defer func() { blocks = blocks[:len(blocks)-1] }()
		last := b.Instrs[len(b.Instrs)-1]
		switch x := last.(type) {
		case *ssa.Return:
			if target(x) && (fn.Recover == nil || b != fn.Recover) {
				paths = append(paths, pathInfo{append([]condEdge{}, conds...), append([]*ssa.BasicBlock{}, blocks...), x})
			}
			return
		case *ssa.Panic:
			return
		}
		onPath[b] = true
		defer func() { onPath[b] = false }()
		feas := feasibleSuccs(pred, b)
		for _, sx := range feas {
			next := conds
			if iff, ok := last.(*ssa.If); ok && len(b.Succs) == 2 {
				cond := iff.Cond
				// a condition merged in this very block (`a && b` evaluated as a value): on this path it is what came in
				if phi, isPhi := cond.(*ssa.Phi); isPhi && phi.Block() == b && pred != nil {
					for i, q := range b.Preds {
						if q == pred && i < len(phi.Edges) {
							cond = phi.Edges[i]
						}
					}
				}
				taken := sx == b.Succs[0]
				mine := false
				// (a comparison of a value merged in this block is, on this path, a comparison of what came in)
				if bo, isBo := cond.(*ssa.BinOp); isBo && pred != nil {
					sub := func(v ssa.Value) ssa.Value {
						if phi, isPhi := v.(*ssa.Phi); isPhi && phi.Block() == b {
							for i, q := range b.Preds {
								if q == pred && i < len(phi.Edges) {
									return phi.Edges[i]
								}
							}
						}
						return v
					}
					if nx, ny := sub(bo.X), sub(bo.Y); nx != bo.X || ny != bo.Y {
						cond = &ssa.BinOp{Op: bo.Op, X: nx, Y: ny}
						// two constants: the outcome is known
						if cx, okx := nx.(*ssa.Const); okx {
							if cy, oky := ny.(*ssa.Const); oky && (bo.Op == token.EQL || bo.Op == token.NEQ) {
								var eq, known bool
								switch {
								case cx.Value == nil && cy.Value == nil:
									eq, known = true, true
								case cx.Value != nil && cy.Value != nil && cx.Value.Kind() == cy.Value.Kind():
									eq, known = constant.Compare(cx.Value, token.EQL, cy.Value), true
								}
								if known && (eq == (bo.Op == token.EQL)) != taken {
									continue
								}
							}
						}
					}
				}
				if _, isConst := cond.(*ssa.Const); !isConst {
					if was, seen := decided[keyOf(cond)]; seen {
						if was != taken {
							continue // the same value was tested earlier on this path with the other outcome
						}
					} else {
						decided[keyOf(cond)] = taken
						mine = true
					}
				}
				next = append(append([]condEdge{}, conds...), condEdge{cond: cond, taken: taken, ifIn: iff})
				walk(b, sx, next)
				if mine {
					delete(decided, keyOf(cond))
				}
				continue
			}
			walk(b, sx, next)
		}
	}
	walk(nil, fn.Blocks[0], nil)
	return paths, complete
}

func isReturn(in ssa.Instruction) bool { _, ok := in.(*ssa.Return); return ok }

// returnsOf lists the Return instructions of fn.
func returnsOf(fn *ssa.Function) []*ssa.Return {
	var out []*ssa.Return
	for _, b := range fn.Blocks {
		if len(b.Instrs) == 0 {
			continue
		}
		if r, ok := b.Instrs[len(b.Instrs)-1].(*ssa.Return); ok {
			out = append(out, r)
		}
	}
	return out
}

// ---------- values ----------

func stripConv(v ssa.Value) ssa.Value {
	for {
		switch x := v.(type) {
		case *ssa.ChangeType:
			v = x.X
		case *ssa.Convert:
			v = x.X
		case *ssa.MakeInterface:
			v = x.X
		case *ssa.ChangeInterface:
			v = x.X
		default:
			return v
		}
	}
}

// fieldOfAddr: if v is &base.f (FieldAddr), returns the field and base.
func fieldOfAddr(v ssa.Value) (*types.Var, ssa.Value, bool) {
	fa, ok := v.(*ssa.FieldAddr)
	if !ok {
		return nil, nil, false
	}
	st := derefStruct(fa.X.Type())
	if st == nil {
		return nil, nil, false
	}
	return st.Field(fa.Field), fa.X, true
}

func derefStruct(t types.Type) *types.Struct {
	if p, ok := t.Underlying().(*types.Pointer); ok {
		t = p.Elem()
	}
	st, _ := t.Underlying().(*types.Struct)
	return st
}

// fieldLoad: if v is a load of base.f (through FieldAddr+deref, or Field on a
// struct value), returns the field and the base value.
func fieldLoad(v ssa.Value) (*types.Var, ssa.Value, bool) {
	switch x := v.(type) {
	case *ssa.ChangeType:
		// a conversion between types with the same underlying type (TargetList <-> []*Target) is still the field's value
		return fieldLoad(x.X)
	case *ssa.UnOp:
		if x.Op == token.MUL {
			// a field of a local struct that holds the snapshot a struct-returning accessor made (`cur := s.slots(); cur.active`)
			if fa, ok := x.X.(*ssa.FieldAddr); ok {
				_, isAlloc := fa.X.(*ssa.Alloc)
				_, isFree := fa.X.(*ssa.FreeVar)
				if isAlloc || isFree {
					if r := localStructField(fa, 0); r != nil {
						if fld, isField := r.(*ssa.Field); isField {
							if call, isCall := fld.X.(*ssa.Call); isCall {
								if f, ok := accessorStructField(call, fld.Field); ok {
									return f, call.Call.Args[0], true
								}
							}
						}
					}
				}
			}
			return fieldOfAddr(x.X)
		}
	case *ssa.Field:
		if call, isCall := x.X.(*ssa.Call); isCall {
			if f, ok := accessorStructField(call, x.Field); ok {
				return f, call.Call.Args[0], true
			}
		}
		st, _ := x.X.Type().Underlying().(*types.Struct)
		if st != nil {
			return st.Field(x.Field), x.X, true
		}
	case *ssa.Call:
		// atomic load of a field: f.Load()
		if n := calleeName(x.Common()); strings.HasPrefix(n, "(*sync/atomic.") && strings.HasSuffix(n, ").Load") && len(x.Call.Args) == 1 {
			return fieldOfAddr(x.Call.Args[0])
		}
		// accessor method of the module returning a receiver field (single result)
		if f, ok := accessorField(x, 0); ok {
			return f, x.Call.Args[0], true
		}
	case *ssa.Extract:
		if call, ok := x.Tuple.(*ssa.Call); ok {
			if f, ok := accessorField(call, x.Index); ok {
				return f, call.Call.Args[0], true
			}
		}
	}
	return nil, nil, false
}

// accessorField: call is a static call of a small module method whose idx-th result is, on every
// return, a load of one field of its receiver (e.g. `func (s *Service) slots() (a, r, c)` under its lock).
func accessorField(call *ssa.Call, idx int) (*types.Var, bool) {
	f := call.Call.StaticCallee()
	if f == nil || f.Blocks == nil || f.Signature.Recv() == nil || f.Pkg == nil || !strings.HasPrefix(f.Pkg.Pkg.Path(), modulePath) || len(call.Call.Args) == 0 {
		return nil, false
	}
	if idx >= f.Signature.Results().Len() {
		return nil, false
	}
	n := 0
	for _, b := range f.Blocks {
		n += len(b.Instrs)
	}
	if n > 60 {
		return nil, false
	}
	var field *types.Var
	for _, ret := range returnsOf(f) {
		if f.Recover != nil && ret.Block() == f.Recover {
			continue
		}
		v := retVal(ret, idx)
		u, ok := v.(*ssa.UnOp)
		if !ok || u.Op != token.MUL {
			return nil, false
		}
		fv, base, ok := fieldOfAddr(u.X)
		if !ok || base != ssa.Value(f.Params[0]) {
			return nil, false
		}
		if field != nil && field != fv {
			return nil, false
		}
		field = fv
	}
	return field, field != nil
}

// accessorStructField: call is a static call of a small module method returning one struct value whose idx-th field is,
// on every return, a load of one field of the receiver (`func (s *Service) slots() serviceSlots { ...; return
// serviceSlots{active: s.active, ...} }`).
func accessorStructField(call *ssa.Call, idx int) (*types.Var, bool) {
	f := call.Call.StaticCallee()
	if f == nil || f.Blocks == nil || f.Signature.Recv() == nil || f.Pkg == nil || !strings.HasPrefix(f.Pkg.Pkg.Path(), modulePath) || len(call.Call.Args) == 0 {
		return nil, false
	}
	if f.Signature.Results().Len() != 1 {
		return nil, false
	}
	st, ok := f.Signature.Results().At(0).Type().Underlying().(*types.Struct)
	if !ok || idx >= st.NumFields() {
		return nil, false
	}
	n := 0
	for _, b := range f.Blocks {
		n += len(b.Instrs)
	}
	if n > 80 {
		return nil, false
	}
	var field *types.Var
	for _, ret := range returnsOf(f) {
		if f.Recover != nil && ret.Block() == f.Recover {
			continue
		}
		u, ok := retVal(ret, 0).(*ssa.UnOp)
		if !ok || u.Op != token.MUL {
			return nil, false
		}
		a, ok := u.X.(*ssa.Alloc)
		if !ok {
			return nil, false
		}
		v := localStructField(&ssa.FieldAddr{X: a, Field: idx}, 0)
		lu, ok := v.(*ssa.UnOp)
		if !ok || lu.Op != token.MUL {
			return nil, false
		}
		fv, base, ok := fieldOfAddr(lu.X)
		if !ok || base != ssa.Value(f.Params[0]) {
			return nil, false
		}
		if field != nil && field != fv {
			return nil, false
		}
		field = fv
	}
	return field, field != nil
}

func isLoadOfField(v ssa.Value, f *types.Var) bool {
	fv, _, ok := fieldLoad(v)
	return ok && fv == f
}

// fieldPathLoad: v loads base.f1.f2...fn; returns the chain of fields.
func fieldPath(v ssa.Value) ([]*types.Var, ssa.Value) {
	var chain []*types.Var
	for {
		switch x := v.(type) {
		case *ssa.UnOp:
			if x.Op != token.MUL {
				return chain, v
			}
			if _, isFA := x.X.(*ssa.FieldAddr); !isFA {
				return chain, v // a load of something that is not a field: this is the base value
			}
			v = x.X
		case *ssa.FieldAddr:
			st := derefStruct(x.X.Type())
			if st == nil {
				return chain, v
			}
			chain = append([]*types.Var{st.Field(x.Field)}, chain...)
			v = x.X
		case *ssa.Field:
			st, _ := x.X.Type().Underlying().(*types.Struct)
			if st == nil {
				return chain, v
			}
			chain = append([]*types.Var{st.Field(x.Field)}, chain...)
			v = x.X
		default:
			return chain, v
		}
	}
}

func pathString(chain []*types.Var) string {
	s := make([]string, len(chain))
	for i, f := range chain {
		s[i] = f.Name()
	}
	return strings.Join(s, ".")
}

// fieldWrite is one store into a struct field somewhere in the module.
type fieldWrite struct {
	fn    *ssa.Function
	instr ssa.Instruction
	val   ssa.Value // nil for map updates / non-store writes
	base  ssa.Value
	how   string // "store" | "mapupdate" | "lit"
}

// writesOfField enumerates every instruction in the module that stores to
// field f (directly through a FieldAddr).  Struct copies (*p = *q) are
// reported by structCopies separately.
func (w *World) writesOfField(f *types.Var) []fieldWrite {
	var out []fieldWrite
	for _, fn := range w.modFuncs {
		for _, b := range fn.Blocks {
			for _, in := range b.Instrs {
				switch x := in.(type) {
				case *ssa.Store:
					if fv, base, ok := fieldOfAddr(x.Addr); ok && fv == f {
						out = append(out, fieldWrite{fn, in, x.Val, base, "store"})
					}
					// a store through a pointer chosen among several fields (`p := &s.active; if rollout { p = &s.rollout }; *p = lb`)
					if phi, isPhi := x.Addr.(*ssa.Phi); isPhi {
						seen := map[*ssa.Phi]bool{}
						var walk func(p *ssa.Phi)
						walk = func(p *ssa.Phi) {
							if seen[p] {
								return
							}
							seen[p] = true
							for _, e := range p.Edges {
								if fv, base, ok := fieldOfAddr(e); ok && fv == f {
									out = append(out, fieldWrite{fn, in, x.Val, base, "store"})
								}
								if p2, ok := e.(*ssa.Phi); ok {
									walk(p2)
								}
							}
						}
						walk(phi)
					}
				case *ssa.MapUpdate:
					if fv, base, ok := fieldLoad(x.Map); ok && fv == f {
						out = append(out, fieldWrite{fn, in, nil, base, "mapupdate"})
					}
				case *ssa.Call:
					if n := calleeName(x.Common()); strings.HasPrefix(n, "(*sync/atomic.") && strings.HasSuffix(n, ").Store") && len(x.Call.Args) == 2 {
						if fv, base, ok := fieldOfAddr(x.Call.Args[0]); ok && fv == f {
							out = append(out, fieldWrite{fn, in, x.Call.Args[1], base, "atomic-store"})
						}
					}
				}
			}
		}
	}
	return out
}

// readsOfField enumerates loads of field f in fn (through FieldAddr+deref or Field).
func readsOfFieldIn(fn *ssa.Function, f *types.Var) []ssa.Instruction {
	var out []ssa.Instruction
	for _, b := range fn.Blocks {
		for _, in := range b.Instrs {
			switch x := in.(type) {
			case *ssa.UnOp:
				if x.Op == token.MUL {
					if fv, _, ok := fieldOfAddr(x.X); ok && fv == f {
						out = append(out, in)
					}
				}
			case *ssa.Field:
				st, _ := x.X.Type().Underlying().(*types.Struct)
				if st != nil && st.Field(x.Field) == f {
					out = append(out, in)
				}
			}
		}
	}
	return out
}

// fieldAddrsIn lists FieldAddr instructions of field f in fn.
func fieldAddrsIn(fn *ssa.Function, f *types.Var) []*ssa.FieldAddr {
	var out []*ssa.FieldAddr
	for _, b := range fn.Blocks {
		for _, in := range b.Instrs {
			if fa, ok := in.(*ssa.FieldAddr); ok {
				if fv, _, ok := fieldOfAddr(fa); ok && fv == f {
					out = append(out, fa)
				}
			}
		}
	}
	return out
}

// closure plumbing -------------------------------------------------------

// makeClosureOf finds the MakeClosure instruction in the parent that creates fn.
func makeClosureOf(fn *ssa.Function) *ssa.MakeClosure {
	p := fn.Parent()
	if p == nil {
		return nil
	}
	for _, b := range p.Blocks {
		for _, in := range b.Instrs {
			if mc, ok := in.(*ssa.MakeClosure); ok && mc.Fn == fn {
				return mc
			}
		}
	}
	return nil
}

// cellValue: if v is an Alloc (captured variable cell) written exactly once,
// returns the value stored; otherwise nil.
func cellValue(v ssa.Value) ssa.Value {
	a, ok := v.(*ssa.Alloc)
	if !ok {
		return nil
	}
	// exactly one store anywhere (the variable's own function and the closures capturing it)
	sts := storesToCell(a)
	if len(sts) == 1 {
		return sts[0].Val
	}
	return nil
}

// resolve follows loads of single-assignment cells and closure free
// variables up to the defining value in an enclosing function.
func resolve(v ssa.Value) ssa.Value {
	for i := 0; i < 20; i++ {
		switch x := v.(type) {
		case *ssa.UnOp:
			if x.Op != token.MUL {
				return v
			}
			switch a := x.X.(type) {
			case *ssa.Alloc:
				if cv := cellValue(a); cv != nil {
					v = cv
					continue
				}
				return v
			case *ssa.FreeVar:
				b := freeVarBinding(a)
				// (captured again by a function literal nested in the capturing one)
				for d := 0; d < 4; d++ {
					fv2, again := b.(*ssa.FreeVar)
					if !again {
						break
					}
					b = freeVarBinding(fv2)
				}
				if b == nil {
					return v
				}
				if cv := cellValue(b); cv != nil {
					v = cv
					continue
				}
				return v
			case *ssa.FieldAddr:
				// a field of a local struct that is written exactly once (a struct literal used to carry several values
				// around: `snap := waitSnapshot{state: s, ...}; ... snap.state`)
				if fv := localStructField(a, 0); fv != nil {
					v = fv
					continue
				}
				return v
			default:
				return v
			}
		case *ssa.FreeVar:
			b := freeVarBinding(x)
			if b == nil {
				return v
			}
			v = b
			continue
		case *ssa.ChangeType:
			v = x.X
		case *ssa.MakeInterface:
			v = x.X
		default:
			return v
		}
	}
	return v
}

func freeVarBinding(fv *ssa.FreeVar) ssa.Value {
	fn := fv.Parent()
	mc := makeClosureOf(fn)
	if mc == nil {
		return nil
	}
	for i, f := range fn.FreeVars {
		if f == fv {
			return mc.Bindings[i]
		}
	}
	return nil
}

// sameResolved compares two values after resolving cells / free variables.
func sameResolved(a, b ssa.Value) bool { return resolve(a) == resolve(b) }

// tupleResult: value is Extract(call, idx) -> returns the call.
func extractOf(v ssa.Value) (*ssa.Call, int, bool) {
	e, ok := v.(*ssa.Extract)
	if !ok {
		return nil, 0, false
	}
	c, ok := e.Tuple.(*ssa.Call)
	return c, e.Index, ok
}

// errResultOf returns the SSA value of the error result of a call (the call
// itself for a single error result, the Extract for tuples); nil if unused.
func errResultOf(call *ssa.Call) ssa.Value {
	sig := call.Common().Signature()
	res := sig.Results()
	if res.Len() == 0 {
		return nil
	}
	last := res.Len() - 1
	if !isErrorType(res.At(last).Type()) {
		return nil
	}
	if res.Len() == 1 {
		return call
	}
	for _, r := range *call.Referrers() {
		if e, ok := r.(*ssa.Extract); ok && e.Index == last {
			return e
		}
	}
	return nil
}

func resultOf(call *ssa.Call, idx int) ssa.Value {
	res := call.Common().Signature().Results()
	if res.Len() == 1 && idx == 0 {
		return call
	}
	for _, r := range *call.Referrers() {
		if e, ok := r.(*ssa.Extract); ok && e.Index == idx {
			return e
		}
	}
	return nil
}

func isErrorType(t types.Type) bool {
	return types.Identical(t, types.Universe.Lookup("error").Type())
}

// valueReaches: does value `src` flow (through phis, conversions, cells) into `dst`?
func flowsTo(src, dst ssa.Value) bool {
	seen := map[ssa.Value]bool{}
	var walk func(v ssa.Value) bool
	walk = func(v ssa.Value) bool {
		if v == nil || seen[v] {
			return false
		}
		seen[v] = true
		if v == src {
			return true
		}
		switch x := v.(type) {
		case *ssa.Phi:
			for _, e := range x.Edges {
				if walk(e) {
					return true
				}
			}
		case *ssa.ChangeType:
			return walk(x.X)
		case *ssa.Convert:
			return walk(x.X)
		case *ssa.MakeInterface:
			return walk(x.X)
		case *ssa.ChangeInterface:
			return walk(x.X)
		case *ssa.UnOp:
			if x.Op == token.MUL {
				if a, ok := x.X.(*ssa.Alloc); ok {
					for _, r := range *a.Referrers() {
						if st, ok := r.(*ssa.Store); ok && st.Addr == a && walk(st.Val) {
							return true
						}
					}
				}
				if fv, ok := x.X.(*ssa.FreeVar); ok {
					if b := freeVarBinding(fv); b != nil {
						if a, ok := b.(*ssa.Alloc); ok {
							for _, r := range *a.Referrers() {
								if st, ok := r.(*ssa.Store); ok && st.Addr == a && walk(st.Val) {
									return true
								}
							}
						}
					}
				}
			}
		}
		return false
	}
	return walk(dst)
}

// phiSources expands v through phis into its non-phi sources.
func phiSources(v ssa.Value) []ssa.Value {
	seen := map[ssa.Value]bool{}
	var out []ssa.Value
	var walk func(v ssa.Value)
	walk = func(v ssa.Value) {
		if seen[v] {
			return
		}
		seen[v] = true
		if p, ok := v.(*ssa.Phi); ok {
			for _, e := range p.Edges {
				walk(e)
			}
			return
		}
		out = append(out, v)
	}
	walk(v)
	return out
}

func typeString(t types.Type) string {
	return types.TypeString(t, func(p *types.Package) string { return p.Path() })
}

func recvNamed(fn *ssa.Function) *types.Named {
	if fn.Signature.Recv() == nil {
		return nil
	}
	t := fn.Signature.Recv().Type()
	if p, ok := t.(*types.Pointer); ok {
		t = p.Elem()
	}
	n, _ := t.(*types.Named)
	return n
}

// ---------- facts ----------

type intFact struct {
	op token.Token // value op k
	k  int64
}

func flipTok(t token.Token) token.Token {
	switch t {
	case token.LSS:
		return token.GTR
	case token.GTR:
		return token.LSS
	case token.LEQ:
		return token.GEQ
	case token.GEQ:
		return token.LEQ
	}
	return t
}

// intFacts collects comparisons with integer constants known to hold at
// `at` about values identified by same().
func intFacts(at ssa.Instruction, same func(ssa.Value) bool) []intFact {
	return intFactsOf(dominatingConds(at.Block()), same)
}

// intFactsOf: the same over an explicit list of condition edges.
func intFactsOf(conds []condEdge, same func(ssa.Value) bool) []intFact {
	var out []intFact
	for _, ce := range conds {
		cm, ok := ce.asCmp()
		if !ok {
			continue
		}
		if same(cm.x) {
			if k, ok := constInt(cm.y); ok {
				out = append(out, intFact{cm.op, k})
			}
		} else if same(cm.y) {
			if k, ok := constInt(cm.x); ok {
				out = append(out, intFact{flipTok(cm.op), k})
			}
		}
	}
	return out
}

const (
	negInf = -1 << 62
	posInf = 1 << 62
)

// interval folds facts into [lo,hi]; neq facts are returned separately.
func interval(facts []intFact) (lo, hi int64, neq []int64) {
	lo, hi = negInf, posInf
	for _, f := range facts {
		switch f.op {
		case token.EQL:
			if f.k > lo {
				lo = f.k
			}
			if f.k < hi {
				hi = f.k
			}
		case token.NEQ:
			neq = append(neq, f.k)
		case token.LSS:
			if f.k-1 < hi {
				hi = f.k - 1
			}
		case token.LEQ:
			if f.k < hi {
				hi = f.k
			}
		case token.GTR:
			if f.k+1 > lo {
				lo = f.k + 1
			}
		case token.GEQ:
			if f.k > lo {
				lo = f.k
			}
		}
	}
	return
}

// boolFacts: is the boolean identified by same() known true / false at `at`;
// understands v, !v, v == true/false, v != true/false.
func boolFacts(at ssa.Instruction, same func(ssa.Value) bool) (isTrue, isFalse bool) {
	return boolFactsOf(dominatingConds(at.Block()), same)
}

// boolFactsOf: the same over an explicit list of condition edges (e.g. those holding on one edge into a phi).
func boolFactsOf(conds []condEdge, same func(ssa.Value) bool) (isTrue, isFalse bool) {
	for _, ce := range conds {
		v, taken := ce.cond, ce.taken
		for {
			if u, ok := v.(*ssa.UnOp); ok && u.Op == token.NOT {
				v, taken = u.X, !taken
				continue
			}
			break
		}
		if same(v) || same(ce.sub(v)) {
			if taken {
				isTrue = true
			} else {
				isFalse = true
			}
			continue
		}
		if b, ok := v.(*ssa.BinOp); ok && (b.Op == token.EQL || b.Op == token.NEQ) {
			var k bool
			var kok bool
			if same(b.X) {
				k, kok = constBool(b.Y)
			} else if same(b.Y) {
				k, kok = constBool(b.X)
			}
			if !kok {
				continue
			}
			val := k
			if b.Op == token.NEQ {
				val = !val
			}
			if !taken {
				// the comparison is false: value is the opposite
				val = !val
			}
			if val {
				isTrue = true
			} else {
				isFalse = true
			}
		}
	}
	return
}

// matchResolved: value identity after following cells / free variables.
func matchResolved(target ssa.Value) func(ssa.Value) bool {
	t := resolve(target)
	return func(v ssa.Value) bool { return v == target || resolve(v) == t }
}

// matchFieldLoad: any load of field f (object-insensitive).
func matchFieldLoad(f *types.Var) func(ssa.Value) bool {
	return func(v ssa.Value) bool { return isLoadOfField(v, f) }
}

// selectArm: which state index of a blocking/non-blocking Select is known at `at`.
func selectArm(at ssa.Instruction, sel *ssa.Select) (int, bool) {
	facts := intFacts(at, func(v ssa.Value) bool {
		e, ok := v.(*ssa.Extract)
		return ok && e.Tuple == sel && e.Index == 0
	})
	for _, f := range facts {
		if f.op == token.EQL {
			return int(f.k), true
		}
	}
	return 0, false
}

func selectsIn(fn *ssa.Function) []*ssa.Select {
	var out []*ssa.Select
	for _, b := range fn.Blocks {
		for _, in := range b.Instrs {
			if s, ok := in.(*ssa.Select); ok {
				out = append(out, s)
			}
		}
	}
	return out
}

// normalReturns excludes the synthetic recover block.
func normalReturns(fn *ssa.Function) []*ssa.Return {
	var out []*ssa.Return
	for _, r := range returnsOf(fn) {
		if fn.Recover != nil && r.Block() == fn.Recover {
			continue
		}
		out = append(out, r)
	}
	return out
}

// constName renders an integer constant of a named enum type by name.
func (c *Ctx) enumName(t types.Type, k int64) string {
	nt, ok := t.(*types.Named)
	if !ok {
		return fmt.Sprint(k)
	}
	scope := nt.Obj().Pkg().Scope()
	for _, n := range scope.Names() {
		if cn, ok := scope.Lookup(n).(*types.Const); ok && types.Identical(cn.Type(), t) {
			if v, ok := constant.Int64Val(cn.Val()); ok && v == k {
				return n
			}
		}
	}
	return fmt.Sprint(k)
}

func (c *Ctx) enumVal(pkg *ssa.Package, name string) int64 {
	nc := c.constant(pkg, name)
	v, _ := constant.Int64Val(nc.Value.Value)
	return v
}

// inLoop reports whether the block is part of a CFG cycle.
func inLoop(b *ssa.BasicBlock) bool {
	seen := map[*ssa.BasicBlock]bool{}
	stack := append([]*ssa.BasicBlock{}, b.Succs...)
	for len(stack) > 0 {
		x := stack[len(stack)-1]
		stack = stack[:len(stack)-1]
		if x == b {
			return true
		}
		if seen[x] {
			continue
		}
		seen[x] = true
		stack = append(stack, x.Succs...)
	}
	return false
}

// parentName: name of the outermost enclosing declared function.
func outer(fn *ssa.Function) *ssa.Function {
	for fn.Parent() != nil {
		fn = fn.Parent()
	}
	return fn
}

// ---------- captured cells ----------

// cellOfAddr: the Alloc a pointer value denotes, following closure free variables.
func cellOfAddr(v ssa.Value) *ssa.Alloc {
	for i := 0; i < 10; i++ {
		switch x := v.(type) {
		case *ssa.Alloc:
			return x
		case *ssa.FreeVar:
			b := freeVarBinding(x)
			if b == nil {
				return nil
			}
			v = b
		default:
			return nil
		}
	}
	return nil
}

// cellOfLoad: v is a load (*cell) of a local/captured variable cell.
func cellOfLoad(v ssa.Value) *ssa.Alloc {
	u, ok := v.(*ssa.UnOp)
	if !ok || u.Op != token.MUL {
		return nil
	}
	return cellOfAddr(u.X)
}

// storesToCell: every Store into the cell from its function and nested closures.
func storesToCell(a *ssa.Alloc) []*ssa.Store {
	var out []*ssa.Store
	for _, f := range withAnon(a.Parent()) {
		for _, b := range f.Blocks {
			for _, in := range b.Instrs {
				if st, ok := in.(*ssa.Store); ok && cellOfAddr(st.Addr) == a {
					out = append(out, st)
				}
			}
		}
	}
	return out
}

// retVal returns the i-th result of a return, looking through the result
// cells go/ssa introduces in functions with defer ("*t2 = v; rundefers; t9 = *t2; return t9").
func retVal(ret *ssa.Return, i int) ssa.Value {
	if i < 0 || i >= len(ret.Results) {
		return nil
	}
	v := ret.Results[i]
	u, ok := v.(*ssa.UnOp)
	if !ok || u.Op != token.MUL {
		return v
	}
	a, ok := u.X.(*ssa.Alloc)
	if !ok || a.Heap {
		return v
	}
	// last store to the cell before the return in the same block
	instrs := ret.Block().Instrs
	for j := len(instrs) - 1; j >= 0; j-- {
		if st, ok := instrs[j].(*ssa.Store); ok && st.Addr == a {
			return st.Val
		}
	}
	// otherwise a unique store anywhere
	if cv := cellValue(a); cv != nil {
		return cv
	}
	return v
}

func lastRet(ret *ssa.Return) ssa.Value { return retVal(ret, len(ret.Results)-1) }

// proxyFuncs: functions of internal/server that are part of the shipped proxy
// (testing.go holds helpers used only by the test suite).
func (c *Ctx) proxyFuncs() []*ssa.Function {
	var out []*ssa.Function
	for _, f := range c.modFuncs {
		o := outer(f)
		if o.Pkg != c.server {
			continue
		}
		if strings.HasSuffix(c.fset.Position(o.Pos()).Filename, "/testing.go") {
			continue
		}
		out = append(out, f)
	}
	return out
}

// edgeCond: the branch condition under which control goes from block from to block to (if from ends in an If).
func edgeCond(from, to *ssa.BasicBlock) []condEdge {
	if len(from.Instrs) == 0 {
		return nil
	}
	ifi, ok := from.Instrs[len(from.Instrs)-1].(*ssa.If)
	if !ok || from.Succs[0] == from.Succs[1] {
		return nil
	}
	if from.Succs[0] == to {
		return []condEdge{{cond: ifi.Cond, taken: true, ifIn: ifi}}
	}
	if from.Succs[1] == to {
		return []condEdge{{cond: ifi.Cond, taken: false, ifIn: ifi}}
	}
	return nil
}

// nonNilSource: a value merged with nil constants only (e.g. the result of an inlined helper that returns
// `nil, err` on failure) is represented by its single non-nil source; other values are returned unchanged.
func nonNilSource(v ssa.Value) ssa.Value {
	phi, ok := v.(*ssa.Phi)
	if !ok {
		return v
	}
	var src ssa.Value
	for _, e := range phiSources(phi) {
		if isNilConst(e) {
			continue
		}
		if src != nil && src != e {
			return v
		}
		src = e
	}
	if src == nil {
		return v
	}
	return src
}

// retCase is one way a function can return: the values returned and the branch conditions known on that way. A return
// whose results are phis (typically the merge an inlined helper leaves behind: `err := h(); if err != nil { return err }`)
// is split into one case per incoming edge, so that rules written as "for every return ..." see through the merge.
type retCase struct {
	ret   *ssa.Return
	vals  []ssa.Value
	conds []condEdge
	pos   token.Pos
}

func retCases(fn *ssa.Function) []retCase {
	var out []retCase
	var expand func(rc retCase, depth int)
	expand = func(rc retCase, depth int) {
		var phi *ssa.Phi
		if depth < 6 && len(out) < 128 {
			for _, v := range rc.vals {
				if p, ok := v.(*ssa.Phi); ok {
					phi = p
					break
				}
			}
		}
		if phi == nil {
			out = append(out, rc)
			return
		}
		for i, pred := range phi.Block().Preds {
			nv := make([]ssa.Value, len(rc.vals))
			for j, v := range rc.vals {
				if p, ok := v.(*ssa.Phi); ok && p.Block() == phi.Block() {
					nv[j] = p.Edges[i]
				} else {
					nv[j] = v
				}
			}
			// an edge that contradicts what is known about the merged value at the return is not a way to get there
			feasible := true
			for _, ce := range rc.conds {
				cm, ok := ce.asCmp()
				if !ok || (cm.op != token.EQL && cm.op != token.NEQ) {
					continue
				}
				for _, pr := range [][2]ssa.Value{{cm.x, cm.y}, {cm.y, cm.x}} {
					p, isP := pr[0].(*ssa.Phi)
					if !isP || p.Block() != phi.Block() || !isNilConst(pr[1]) {
						continue
					}
					e := p.Edges[i]
					if isNilConst(e) && cm.op == token.NEQ {
						feasible = false
					}
					if cm.op == token.EQL && !isNilConst(e) {
						if _, isPhi := e.(*ssa.Phi); !isPhi {
							if _, isCall := e.(*ssa.Call); isCall || isSentinelError(e) {
								// a freshly made error / sentinel is not nil
								if isErrorType(e.Type()) && producesNonNilError(e) {
									feasible = false
								}
							}
						}
					}
				}
			}
			if !feasible {
				continue
			}
			conds := append(append(append([]condEdge{}, dominatingConds(pred)...), edgeCond(pred, phi.Block())...), rc.conds...)
			pos := rc.pos
			if in, ok := nv[len(nv)-1].(ssa.Instruction); ok && in.Pos().IsValid() {
				pos = in.Pos()
			}
			expand(retCase{ret: rc.ret, vals: nv, conds: conds, pos: pos}, depth+1)
		}
	}
	for _, ret := range normalReturns(fn) {
		vals := make([]ssa.Value, len(ret.Results))
		for i := range ret.Results {
			vals[i] = retVal(ret, i) // looks through the result cells of functions with defer
		}
		expand(retCase{ret: ret, vals: vals, conds: dominatingConds(ret.Block()), pos: ret.Pos()}, 0)
	}
	return out
}

func isSentinelError(v ssa.Value) bool {
	u, ok := v.(*ssa.UnOp)
	if !ok || u.Op != token.MUL {
		return false
	}
	g, ok := u.X.(*ssa.Global)
	return ok && strings.HasPrefix(g.Name(), "Err")
}

// producesNonNilError: fmt.Errorf / errors.New results and Err* sentinels.
func producesNonNilError(v ssa.Value) bool {
	if isSentinelError(v) {
		return true
	}
	if call, ok := v.(*ssa.Call); ok {
		switch calleeName(call.Common()) {
		case "fmt.Errorf", "errors.New":
			return true
		}
	}
	return false
}

// constStringDeep: a string that is constant after following single-assignment cells (locals captured by closures) and
// constant concatenation, e.g. the "kamal-proxy."+method of a helper inlined with method = "Pause".
func constStringDeep(v ssa.Value) (string, bool) {
	for depth := 0; depth < 8; depth++ {
		if s, ok := constString(v); ok {
			return s, true
		}
		switch x := v.(type) {
		case *ssa.BinOp:
			if x.Op != token.ADD {
				return "", false
			}
			a, ok1 := constStringDeep(x.X)
			b, ok2 := constStringDeep(x.Y)
			return a + b, ok1 && ok2
		case *ssa.ChangeType:
			v = x.X
		case *ssa.Convert:
			v = x.X
		case *ssa.UnOp:
			r := resolve(v)
			if r == v {
				return "", false
			}
			v = r
		case *ssa.Phi:
			val, ok := "", false
			for i, e := range x.Edges {
				s, isC := constStringDeep(e)
				if !isC || (i > 0 && s != val) {
					return "", false
				}
				val, ok = s, true
			}
			return val, ok
		default:
			return "", false
		}
	}
	return "", false
}

// valCase is one value an expression can have together with the branch conditions known when it has it. A value that
// is a merge (phi) - possibly behind single-assignment local cells - is split into one case per incoming edge, so that
// "the new state is computed by a pure function and stored once" reads like "one store per outcome".
type valCase struct {
	val   ssa.Value
	conds []condEdge
}

func valueCases(v ssa.Value, at *ssa.BasicBlock) []valCase {
	var out []valCase
	var expand func(v ssa.Value, conds []condEdge, depth int)
	expand = func(v ssa.Value, conds []condEdge, depth int) {
		if depth < 6 && len(out) < 64 {
			r := resolve(v)
			if phi, ok := r.(*ssa.Phi); ok {
				for i, pred := range phi.Block().Preds {
					if edgeContradicts(phi.Block(), i, conds) {
						continue // what is known at the use about another variable merged in the same place rules this edge out
					}
					ec := append(append(append([]condEdge{}, dominatingConds(pred)...), edgeCond(pred, phi.Block())...), conds...)
					expand(phi.Edges[i], ec, depth+1)
				}
				return
			}
			v = r
		}
		out = append(out, valCase{v, conds})
	}
	expand(v, dominatingConds(at), 0)
	return out
}

// edgeContradicts: one of the conditions tests a value merged in block b (a phi of b) and does not hold for what comes
// in over b's i-th edge (`ok, err := <merge>; if ok { return }; ... err ...`: the edges with ok == true are not ways to
// reach the use of err).
func edgeContradicts(b *ssa.BasicBlock, i int, conds []condEdge) bool {
	for _, ce := range conds {
		cond, taken := ce.cond, ce.taken
		for {
			u, ok := cond.(*ssa.UnOp)
			if !ok || u.Op != token.NOT {
				break
			}
			cond, taken = u.X, !taken
		}
		switch x := cond.(type) {
		case *ssa.Phi:
			if x.Block() == b && i < len(x.Edges) {
				if k, ok := constBool(x.Edges[i]); ok && k != taken {
					return true
				}
			}
		case *ssa.BinOp:
			if x.Op != token.EQL && x.Op != token.NEQ {
				continue
			}
			for _, pr := range [][2]ssa.Value{{x.X, x.Y}, {x.Y, x.X}} {
				phi, ok := pr[0].(*ssa.Phi)
				if !ok || phi.Block() != b || i >= len(phi.Edges) {
					continue
				}
				in := phi.Edges[i]
				var eq, known bool
				if isNilConst(pr[1]) {
					switch {
					case isNilConst(in):
						eq, known = true, true
					case producesNonNilError(in) || producesNonNilError(stripConv(in)):
						eq, known = false, true
					}
				} else if k, ok := constInt(pr[1]); ok {
					if k2, ok := constInt(in); ok {
						eq, known = k == k2, true
					}
				}
				if known && (eq == (x.Op == token.EQL)) != taken {
					return true
				}
			}
		}
	}
	return false
}

// throughStructCopy: a field read from a local struct variable that was assigned exactly once, as a whole
// (`options := service.options; ... options.TLSEnabled`), is the same field of the struct copied in. Returns v unchanged
// when that is not the situation.
func throughStructCopy(v ssa.Value) ssa.Value {
	for depth := 0; depth < 4; depth++ {
		chain, base := fieldPath(v)
		a, isLocal := base.(*ssa.Alloc)
		if !isLocal || len(chain) == 0 || a.Referrers() == nil {
			return v
		}
		var whole []*ssa.Store
		for _, r := range *a.Referrers() {
			if st, ok := r.(*ssa.Store); ok && st.Addr == ssa.Value(a) {
				whole = append(whole, st)
			}
		}
		if len(whole) != 1 {
			return v
		}
		// rebuild the access path on the copied-in value
		cur := whole[0].Val
		ok := true
		for _, f := range chain {
			st, _ := cur.Type().Underlying().(*types.Struct)
			if st == nil {
				ok = false
				break
			}
			idx := -1
			for i := 0; i < st.NumFields(); i++ {
				if st.Field(i) == f {
					idx = i
				}
			}
			if idx < 0 {
				ok = false
				break
			}
			fld := &ssa.Field{X: cur, Field: idx}
			cur = fld
		}
		if !ok {
			return v
		}
		v = cur
	}
	return v
}

// unobservedNewField: the field does not exist in the reference tree and is read only by functions that do not exist
// there either (a new counter / timestamp with its new accessor). Such a field cannot influence anything the existing
// code does, so rules that classify every field of a type (persisted or not, ...) leave it alone. Races on it are still
// C18's business.
func (c *Ctx) unobservedNewField(typ string, f *types.Var) bool {
	if f.Pkg() == nil || baselineFields[f.Pkg().Path()+"."+typ+"."+f.Name()] {
		return false
	}
	for _, a := range c.accessesOf(f) {
		if a.write {
			// an address that escapes is reported as a write; treat escapes conservatively as observation by old code
			if _, isStore := a.instr.(*ssa.Store); !isStore {
				if _, isFA := a.instr.(*ssa.FieldAddr); !isFA {
					continue
				}
			}
			continue
		}
		if u, ok := a.instr.(*ssa.UnOp); ok && u.Op == token.MUL && onlyFeedsItselfOrLogs(u, u.X, 0) {
			continue // x.f++ and the like: the value read goes nowhere but back into the field (or a log line)
		}
		if c.runByExistingCode()[outer(a.fn)] {
			return false
		}
	}
	return true
}

// onlyFeedsItselfOrLogs: every use of the value ends in a store back into the same location (x = x + 1) or in an
// argument of a log/slog call: the value does not steer anything.
func onlyFeedsItselfOrLogs(v ssa.Value, addr ssa.Value, depth int) bool {
	if depth > 6 || v.Referrers() == nil {
		return depth <= 6
	}
	for _, r := range *v.Referrers() {
		switch x := r.(type) {
		case *ssa.DebugRef:
		case *ssa.Store:
			if x.Val == v {
				if x.Addr == addr {
					continue
				}
				// same field of the same base through a second FieldAddr instruction
				if f1, b1, ok1 := fieldOfAddr(x.Addr); ok1 {
					if f2, b2, ok2 := fieldOfAddr(addr); ok2 && f1 == f2 && b1 == b2 {
						continue
					}
				}
				// an element of a variadic argument list handed to log/slog
				if ia, ok := x.Addr.(*ssa.IndexAddr); ok {
					if a, ok := ia.X.(*ssa.Alloc); ok && a.Comment == "varargs" && varargsOnlyToSlog(a) {
						continue
					}
				}
				return false
			}
		case *ssa.BinOp:
			if x.Op == token.ADD || x.Op == token.SUB {
				if !onlyFeedsItselfOrLogs(x, addr, depth+1) {
					return false
				}
				continue
			}
			return false
		case *ssa.Convert, *ssa.ChangeType, *ssa.MakeInterface:
			if !onlyFeedsItselfOrLogs(r.(ssa.Value), addr, depth+1) {
				return false
			}
		case ssa.CallInstruction:
			if !strings.HasPrefix(calleeName(x.Common()), "log/slog.") {
				return false
			}
			if cv, ok := r.(ssa.Value); ok && !onlyFeedsItselfOrLogs(cv, addr, depth+1) {
				return false
			}
		default:
			return false
		}
	}
	return true
}

func varargsOnlyToSlog(a *ssa.Alloc) bool {
	for _, r := range *a.Referrers() {
		sl, ok := r.(*ssa.Slice)
		if !ok {
			continue
		}
		for _, rr := range *sl.Referrers() {
			ci, ok := rr.(ssa.CallInstruction)
			if !ok || !strings.HasPrefix(calleeName(ci.Common()), "log/slog.") {
				return false
			}
		}
	}
	return true
}

// ownerListed: the function belongs to one of the types the property lists (its receiver, else the type it constructs,
// else the type of its first parameter); package-level state is charged to the properties of the code that reads it.
func ownerListed(owners []string, fn *ssa.Function) bool {
	name := ""
	if rn := recvNamed(fn); rn != nil {
		name = rn.Obj().Name()
	} else {
		sig := fn.Signature
		pick := func(t types.Type) string {
			if p, ok := t.(*types.Pointer); ok {
				t = p.Elem()
			}
			if n, ok := t.(*types.Named); ok {
				return n.Obj().Name()
			}
			return ""
		}
		if sig.Results().Len() > 0 {
			name = pick(sig.Results().At(0).Type())
		}
		if name == "" || name == "error" {
			if sig.Params().Len() > 0 {
				name = pick(sig.Params().At(0).Type())
			}
		}
	}
	for _, o := range owners {
		if o == name {
			return true
		}
	}
	return false
}

var existingCodeCache map[*ssa.Function]bool

// runByExistingCode: the functions of the reference tree plus everything they can call statically (a new helper that
// could not be expanded is still run on behalf of the old code that calls it). What is left are functions only new
// code reaches: new accessors, new RPC methods, new commands.
func (c *Ctx) runByExistingCode() map[*ssa.Function]bool {
	if existingCodeCache != nil {
		return existingCodeCache
	}
	set := map[*ssa.Function]bool{}
	var work []*ssa.Function
	for _, fn := range c.modFuncs {
		o := outer(fn)
		if o != fn {
			continue
		}
		base := false
		if o.Object() == nil {
			base = o.Name() == "init"
		} else if fo, ok := o.Object().(*types.Func); ok && baselineFuncs[fo.FullName()] {
			base = true
		}
		if base {
			set[o] = true
			work = append(work, o)
		}
	}
	for len(work) > 0 {
		fn := work[len(work)-1]
		work = work[:len(work)-1]
		for _, f := range withAnon(fn) {
			for _, cs := range callsIn(f) {
				callee := cs.common().StaticCallee()
				if callee == nil {
					continue
				}
				if callee.Origin() != nil {
					callee = callee.Origin()
				}
				co := outer(callee)
				if co != nil && c.inModule(co) && !set[co] {
					set[co] = true
					work = append(work, co)
				}
			}
			// method values / function values taken of module functions
			for _, b := range f.Blocks {
				for _, in := range b.Instrs {
					for _, op := range in.Operands(nil) {
						if g, ok := (*op).(*ssa.Function); ok && c.inModule(g) {
							if go_ := outer(g); go_ != nil && !set[go_] {
								set[go_] = true
								work = append(work, go_)
							}
						}
					}
				}
			}
		}
	}
	existingCodeCache = set
	return set
}

// ---------- new state observed by existing code ----------

// newStateOwners: which struct types (and whether package-level variables) carry state a property depends on.
var newStateOwners = map[string][]string{
	// types all of whose methods are the property's concern; functions of other types count when the property's rules
	// anchor on them (looked them up by name during this run)
	"C01": {"LoadBalancer", "HealthCheck"},
	"C02": {},
	"C03": {"inflightRequest"},
	"C04": {"ServiceMap", "pathBinding", "routingContext"},
	"C05": {"ServiceMap", "pathBinding"},
	"C06": {"StaticCertManager"},
	"C07": {"PauseController"},
	"C08": {"PauseController", "errorResponse"},
	"C09": {"LoadBalancer", "HealthCheck"},
	"C10": {"RolloutController"},
	"C11": {"marshalledService"},
	"C12": {},
	"C13": {"BufferPool", "Buffer", "RequestIDMiddleware", "RequestStartMiddleware", "routingContext"},
	"C14": {"Buffer", "bufferedResponseWriter", "RequestBufferMiddleware", "ResponseBufferMiddleware"},
	"C15": {"ErrorPageMiddleware", "errorResponse"},
	"C16": {"StaticCertManager"},
	"C17": {"HealthCheck"},
	"C19": {"LoggingMiddleware", "loggerResponseWriter", "loggingRequestContext"},
}

// newStateRule: state that does not exist in the reference tree (a struct field of one of the property's types, or a
// package-level variable) and that existing code READS makes the behaviour of that code depend on something none of the
// rules knows about - typically a cache, a memo or a shared pool, whose coherence (per service? per prefix? across a
// failed command? across a restart?) is exactly what the properties quantify over. New state that only new functions
// read (a counter with its accessor) is left alone.
func (c *Ctx) newStateRule(rule string) {
	owners := newStateOwners[c.prop]
	isBaselineFn := func(fn *ssa.Function) bool { return c.runByExistingCode()[outer(fn)] }
	// the reader is code this property reasons about: a function its rules looked up, or a method of one of its types
	relevant := func(fn *ssa.Function) bool {
		if c.prop == "C11" {
			return true // nothing outside the state file survives a restart: any new state existing code reads matters
		}
		o := outer(fn)
		return c.anchored[o.String()] || ownerListed(owners, o)
	}
	// a use of the address of the state: does it observe the state's value?
	observes := func(addr ssa.Value) (ssa.Instruction, bool) {
		if addr.Referrers() == nil {
			return nil, false
		}
		for _, r := range *addr.Referrers() {
			switch x := r.(type) {
			case *ssa.UnOp:
				if x.Op == token.MUL && !onlyFeedsItselfOrLogs(x, addr, 0) {
					return x, true
				}
			case *ssa.Store:
				if x.Addr != addr {
					return x, true // the address itself is stored somewhere
				}
			case *ssa.FieldAddr, *ssa.IndexAddr:
				// a component of it: treat reads of components as reads
				if v, ok := r.(ssa.Value); ok && v.Referrers() != nil {
					for _, rr := range *v.Referrers() {
						if u, ok := rr.(*ssa.UnOp); ok && u.Op == token.MUL {
							return u, true
						}
					}
				}
			case ssa.CallInstruction:
				cc := x.Common()
				name := ""
				if f := cc.StaticCallee(); f != nil {
					name = f.Name()
				} else if cc.IsInvoke() {
					name = cc.Method.Name()
				}
				switch name {
				case "Store", "Delete", "Put", "Clear", "Lock", "Unlock", "RLock", "RUnlock", "Do", "Wait", "Done":
					// writes / synchronisation only
				case "Add", "Swap", "CompareAndSwap", "Or", "And":
					if v, ok := r.(ssa.Value); ok && v.Referrers() != nil && len(*v.Referrers()) > 0 && !onlyFeedsItselfOrLogs(v, addr, 0) {
						return r, true
					}
				default:
					return r, true // Load, LoadOrStore, Get, Range, or handed to some function
				}
			case *ssa.MakeClosure, *ssa.Phi, *ssa.MakeInterface, *ssa.Return:
				return r, true
			}
		}
		return nil, false
	}
	n := 0
	all := []string{"*globals"}
	for name, m := range c.server.Members {
		if t, ok := m.(*ssa.Type); ok {
			if _, isStruct := t.Type().Underlying().(*types.Struct); isStruct {
				all = append(all, name)
			}
		}
	}
	sort.Strings(all)
	for _, tn := range all {
		if tn == "*globals" {
			for _, pkg := range []*ssa.Package{c.server, c.cmd} {
				for name, m := range pkg.Members {
					g, ok := m.(*ssa.Global)
					if !ok || strings.HasPrefix(name, "init$") || baselineFields[pkg.Pkg.Path()+".var."+name] {
						continue
					}
					// (go/ssa keeps no referrer lists for globals: scan the instructions)
					mutated := false
					var reader ssa.Instruction
					for _, fn := range c.modFuncs {
						for _, b := range fn.Blocks {
							for _, in := range b.Instrs {
								uses := false
								for _, op := range in.Operands(nil) {
									if *op == ssa.Value(g) {
										uses = true
									}
								}
								if !uses {
									continue
								}
								obs := false
								switch x := in.(type) {
								case *ssa.Store:
									if x.Addr == ssa.Value(g) {
										if outer(fn).Name() != "init" {
											mutated = true
										}
									} else {
										obs = true
									}
								case *ssa.UnOp:
									obs = x.Op == token.MUL
								case *ssa.FieldAddr, *ssa.IndexAddr:
									if _, o2 := observes(in.(ssa.Value)); o2 {
										obs = true
									}
								case ssa.CallInstruction:
									name := ""
									if f := x.Common().StaticCallee(); f != nil {
										name = f.Name()
									}
									switch name {
									case "Store", "Delete", "Put", "Clear", "Lock", "Unlock", "RLock", "RUnlock", "Do", "Wait", "Done":
										mutated = mutated || name == "Store" || name == "Delete" || name == "Put" || name == "Clear"
									case "Add", "Swap", "CompareAndSwap":
										mutated = true
										if v, ok := in.(ssa.Value); ok && v.Referrers() != nil && len(*v.Referrers()) > 0 {
											obs = true
										}
									default:
										obs = true
									}
								default:
									obs = true
								}
								if obs && isBaselineFn(fn) && relevant(fn) {
									reader = in
								}
							}
						}
					}
					// containers and sync objects are mutated through methods / map updates
					if !mutated {
						ts := typeString(g.Type())
						mutated = strings.Contains(ts, "map[") || strings.Contains(ts, "sync.") || strings.Contains(ts, "atomic.")
					}
					n++
					c.ob(rule, "new package-level state "+name, g.Pos(), !(mutated && reader != nil), true, func() string {
						if reader != nil {
							return "a package-level variable that does not exist in the reference tree, changes at run time and is read by existing code (" + fname(outer(reader.Parent())) + "): process-wide state is shared by all services, survives failed commands and is not in the state file"
						}
						return ""
					}())
				}
			}
			continue
		}
		pkg := c.server
		nt, ok := pkg.Members[tn].(*ssa.Type)
		if !ok {
			continue
		}
		st, ok := nt.Type().Underlying().(*types.Struct)
		if !ok {
			continue
		}
		if c.transientNewStruct(pkg, tn, nt.Type()) {
			// a struct type the reference tree does not have whose values live only in locals, parameters and results
			// (no field, package variable or interface ever holds one): it carries values within one call, not state
			continue
		}
		for i := 0; i < st.NumFields(); i++ {
			f := st.Field(i)
			if baselineFields[pkg.Pkg.Path()+"."+tn+"."+f.Name()] {
				continue
			}
			if _, renamed := renamedFieldsOf(pkg.Pkg.Path(), tn, st)[f.Name()]; renamed {
				continue
			}
			n++
			var reader ssa.Instruction
			for _, fn := range c.modFuncs {
				if !isBaselineFn(fn) || !relevant(fn) {
					continue
				}
				for _, b := range fn.Blocks {
					for _, in := range b.Instrs {
						switch x := in.(type) {
						case *ssa.FieldAddr:
							if s2 := derefStruct(x.X.Type()); s2 != nil && s2.Field(x.Field) == f {
								if _, obs := observes(x); obs {
									reader = in
								}
							}
						case *ssa.Field:
							if s2, _ := x.X.Type().Underlying().(*types.Struct); s2 != nil && s2.Field(x.Field) == f {
								reader = in
							}
						}
					}
				}
			}
			c.ob(rule, "new state "+tn+"."+f.Name(), f.Pos(), reader == nil, true, func() string {
				if reader != nil {
					return "a field that does not exist in the reference tree and is read by existing code (" + fname(outer(reader.Parent())) + " at " + c.pos(reader.Pos()) + "): what that code does now depends on state none of this property's rules covers (a cache or memo must be shown coherent per service / prefix / command outcome / restart, which is what the property quantifies over)"
				}
				return ""
			}())
		}
	}
	c.note("new-state rule: %d fields / variables not in the reference tree examined", n)
}

// transientNewStruct: the struct type tn has no field in the reference tree (the type is new) and nothing that outlives a
// call can hold one of its values: no struct field or package-level variable has a type containing it, and no value of it
// (or pointer to it) is converted to an interface or sent on a channel.
func (c *Ctx) transientNewStruct(pkg *ssa.Package, tn string, t types.Type) bool {
	pre := pkg.Pkg.Path() + "." + tn + "."
	for k := range baselineFields {
		if strings.HasPrefix(k, pre) {
			return false
		}
	}
	var contains func(u types.Type, seen map[types.Type]bool) bool
	contains = func(u types.Type, seen map[types.Type]bool) bool {
		if types.Identical(u, t) {
			return true
		}
		if seen[u] {
			return false
		}
		seen[u] = true
		switch x := u.(type) {
		case *types.Named:
			return contains(x.Underlying(), seen)
		case *types.Pointer:
			return contains(x.Elem(), seen)
		case *types.Slice:
			return contains(x.Elem(), seen)
		case *types.Array:
			return contains(x.Elem(), seen)
		case *types.Chan:
			return contains(x.Elem(), seen)
		case *types.Map:
			return contains(x.Key(), seen) || contains(x.Elem(), seen)
		case *types.Struct:
			for i := 0; i < x.NumFields(); i++ {
				if contains(x.Field(i).Type(), seen) {
					return true
				}
			}
		case *types.Signature:
			for _, tp := range []*types.Tuple{x.Params(), x.Results()} {
				for i := 0; i < tp.Len(); i++ {
					if contains(tp.At(i).Type(), seen) {
						return true
					}
				}
			}
		}
		return false
	}
	for _, p := range []*ssa.Package{c.server, c.cmd} {
		for name, m := range p.Members {
			switch x := m.(type) {
			case *ssa.Global:
				if contains(x.Type(), map[types.Type]bool{}) {
					return false
				}
			case *ssa.Type:
				if p == pkg && name == tn {
					continue
				}
				if st, ok := x.Type().Underlying().(*types.Struct); ok {
					for i := 0; i < st.NumFields(); i++ {
						if contains(st.Field(i).Type(), map[types.Type]bool{}) {
							return false
						}
					}
				}
			}
		}
	}
	for _, fn := range c.modFuncs {
		for _, b := range fn.Blocks {
			for _, in := range b.Instrs {
				switch x := in.(type) {
				case *ssa.MakeInterface:
					if contains(x.X.Type(), map[types.Type]bool{}) {
						return false
					}
				case *ssa.Send:
					if contains(x.X.Type(), map[types.Type]bool{}) {
						return false
					}
				}
				// (a closure capturing one still holds a per-call value)
			}
		}
	}
	return true
}

// renamedMethod: the reference tree's method `name` of type nt is gone; if exactly one baseline method of that type is
// missing and exactly one new method of that type exists, the new one is the old one renamed.
func (c *Ctx) renamedMethod(pkg *ssa.Package, nt *types.Named, name string) *ssa.Function {
	typeName := nt.Obj().Name()
	missing := 0
	prefixes := []string{"(*" + pkg.Pkg.Path() + "." + typeName + ").", "(" + pkg.Pkg.Path() + "." + typeName + ")."}
	present := map[string]*ssa.Function{}
	for _, t := range []types.Type{types.NewPointer(nt), nt} {
		ms := c.prog.MethodSets.MethodSet(t)
		for i := 0; i < ms.Len(); i++ {
			if fn := c.prog.MethodValue(ms.At(i)); fn != nil && fn.Synthetic == "" {
				present[fn.Name()] = fn
			}
		}
	}
	for full := range baselineFuncs {
		for _, pre := range prefixes {
			if strings.HasPrefix(full, pre) {
				if _, ok := present[strings.TrimPrefix(full, pre)]; !ok {
					missing++
				}
			}
		}
	}
	var fresh []*ssa.Function
	for n, fn := range present {
		isBase := false
		for _, pre := range prefixes {
			if baselineFuncs[pre+n] {
				isBase = true
			}
		}
		if !isBase {
			fresh = append(fresh, fn)
		}
	}
	if missing == 1 && len(fresh) == 1 {
		return fresh[0]
	}
	return nil
}

func (c *Ctx) renamedFunc(pkg *ssa.Package, name string) *ssa.Function {
	missing := 0
	var fresh []*ssa.Function
	pre := pkg.Pkg.Path() + "."
	for full := range baselineFuncs {
		if strings.HasPrefix(full, pre) && !strings.Contains(strings.TrimPrefix(full, pre), ".") && !strings.HasPrefix(full, "(") {
			if pkg.Func(strings.TrimPrefix(full, pre)) == nil {
				missing++
			}
		}
	}
	for n, m := range pkg.Members {
		if fn, ok := m.(*ssa.Function); ok && fn.Synthetic == "" && !baselineFuncs[pre+n] && n != "init" {
			fresh = append(fresh, fn)
		}
	}
	if missing == 1 && len(fresh) == 1 {
		return fresh[0]
	}
	return nil
}

func (c *Ctx) renamedMethodByMap(pkg *ssa.Package, nt *types.Named, name string) *ssa.Function {
	for _, pre := range []string{"(*" + pkg.Pkg.Path() + "." + nt.Obj().Name() + ").", "(" + pkg.Pkg.Path() + "." + nt.Obj().Name() + ")."} {
		if nu, ok := renamedAnchors[pre+name]; ok {
			newName := nu[strings.LastIndex(nu, ".")+1:]
			for _, t := range []types.Type{types.NewPointer(nt), nt} {
				if sel := c.prog.MethodSets.MethodSet(t).Lookup(pkg.Pkg, newName); sel != nil {
					if fn := c.prog.MethodValue(sel); fn != nil && fn.Synthetic == "" {
						return fn
					}
				}
			}
		}
	}
	return nil
}

func (c *Ctx) renamedFuncByMap(pkg *ssa.Package, name string) *ssa.Function {
	if nu, ok := renamedAnchors[pkg.Pkg.Path()+"."+name]; ok {
		return pkg.Func(nu[strings.LastIndex(nu, ".")+1:])
	}
	return nil
}

// renamedFieldsOf: fields of the struct that are fields of the reference tree under a new name (new name -> old name):
// the only missing field and the only new one, or - with several - the pairs whose type is unique on both sides.
func renamedFieldsOf(pkgPath, typ string, st *types.Struct) map[string]string {
	pre := pkgPath + "." + typ + "."
	var missing []string
	for full := range baselineFields {
		if strings.HasPrefix(full, pre) && !strings.Contains(strings.TrimPrefix(full, pre), ".") {
			n := strings.TrimPrefix(full, pre)
			found := false
			for i := 0; i < st.NumFields(); i++ {
				if st.Field(i).Name() == n {
					found = true
				}
			}
			if !found {
				missing = append(missing, n)
			}
		}
	}
	var fresh []*types.Var
	for i := 0; i < st.NumFields(); i++ {
		if !baselineFields[pre+st.Field(i).Name()] {
			fresh = append(fresh, st.Field(i))
		}
	}
	out := map[string]string{}
	if len(missing) == 1 && len(fresh) == 1 {
		out[fresh[0].Name()] = missing[0]
		return out
	}
	for _, m := range missing {
		want := baselineFieldType[pre+m]
		if want == "" {
			continue
		}
		nm := 0
		for _, m2 := range missing {
			if baselineFieldType[pre+m2] == want {
				nm++
			}
		}
		var cands []*types.Var
		for _, f := range fresh {
			if types.TypeString(f.Type(), nil) == want {
				cands = append(cands, f)
			}
		}
		if nm == 1 && len(cands) == 1 {
			out[cands[0].Name()] = m
			continue
		}
		// several fields of that type were renamed at once: the new name that contains the old one (healthy ->
		// healthyTargets, index -> lastIndex), when that singles one out on both sides
		var byName []*types.Var
		for _, f := range cands {
			if strings.Contains(strings.ToLower(f.Name()), strings.ToLower(m)) {
				byName = append(byName, f)
			}
		}
		if len(byName) == 1 {
			claimed := 0
			for _, m2 := range missing {
				if baselineFieldType[pre+m2] == want && strings.Contains(strings.ToLower(byName[0].Name()), strings.ToLower(m2)) {
					claimed++
				}
			}
			if claimed == 1 {
				out[byName[0].Name()] = m
			}
		}
	}
	return out
}

// localStructField: fa addresses field f of a local struct variable whose address does not escape; the value that field
// holds, when it is determined: the single store to that field, or - when the variable is only ever assigned as a whole
// from another such local - the same field of that one.
func localStructField(fa *ssa.FieldAddr, depth int) ssa.Value {
	if depth > 4 {
		return nil
	}
	if fv, isFree := fa.X.(*ssa.FreeVar); isFree {
		// the captured variable itself, seen from inside the closure
		if b := freeVarBinding(fv); b != nil {
			return localStructField(&ssa.FieldAddr{X: b, Field: fa.Field}, depth+1)
		}
		return nil
	}
	a, ok := fa.X.(*ssa.Alloc)
	if !ok || a.Referrers() == nil {
		return nil
	}
	var fieldStores, wholeStores []*ssa.Store
	for _, r := range *a.Referrers() {
		switch x := r.(type) {
		case *ssa.FieldAddr:
			for _, rr := range *x.Referrers() {
				switch y := rr.(type) {
				case *ssa.Store:
					if y.Addr == ssa.Value(x) {
						if x.Field == fa.Field {
							fieldStores = append(fieldStores, y)
						}
					} else {
						return nil // the field's address is stored somewhere
					}
				case *ssa.UnOp, *ssa.DebugRef, *ssa.FieldAddr, *ssa.IndexAddr:
				default:
					if x.Field == fa.Field {
						return nil // address of this field handed to a call etc.
					}
				}
			}
		case *ssa.Store:
			if x.Addr == ssa.Value(a) {
				wholeStores = append(wholeStores, x)
			} else {
				return nil
			}
		case *ssa.UnOp, *ssa.DebugRef:
		case *ssa.MakeClosure:
			// captured by a function literal that only reads its fields
			for i, b := range x.Bindings {
				if b != ssa.Value(a) {
					continue
				}
				cl, _ := x.Fn.(*ssa.Function)
				if cl == nil || i >= len(cl.FreeVars) || cl.FreeVars[i].Referrers() == nil {
					return nil
				}
				for _, fr := range *cl.FreeVars[i].Referrers() {
					switch y := fr.(type) {
					case *ssa.DebugRef:
					case *ssa.FieldAddr:
						for _, rr := range *y.Referrers() {
							switch rr.(type) {
							case *ssa.UnOp, *ssa.DebugRef:
							default:
								return nil
							}
						}
					case *ssa.UnOp:
					default:
						return nil
					}
				}
			}
		default:
			return nil // escapes (call argument, interface ...)
		}
	}
	switch {
	case len(fieldStores) == 1 && len(wholeStores) == 0:
		return fieldStores[0].Val
	case len(fieldStores) == 0 && len(wholeStores) == 1:
		src := wholeStores[0].Val
		if u, ok := src.(*ssa.UnOp); ok && u.Op == token.MUL {
			if b, ok := u.X.(*ssa.Alloc); ok {
				return localStructField(&ssa.FieldAddr{X: b, Field: fa.Field}, depth+1)
			}
		}
		// a struct value computed elsewhere (call result, phi): the field of that value
		return &ssa.Field{X: src, Field: fa.Field}
	}
	return nil
}
