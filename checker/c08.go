package main

import (
	"fmt"
	"go/token"
	"go/types"
	"os"
	"path/filepath"
	"strings"

	"golang.org/x/tools/go/ssa"
)

func init() {
	register("C08", &propCheck{
		explain: "Decides the 'stopped' behaviour structurally: (R08.1) the extracted PauseController transition system (shared with C07): Stop(m) from any state => (stopped, m), Resume => running with the message cleared, state carried across redeploys; (R08.2) while stopped the handler answers 503 and never reaches balancer choice or forwarding, except the GET health-check short-circuit; (R08.3) provenance of the operator's message: it flows unchanged from the RPC argument into the controller and from Wait() into the template arguments, and template arguments reach the client only as the data argument of (*html/template.Template).Execute - the middleware's template type is html/template's, custom pages are parsed with html/template.ParseFS, no conversion to template.HTML/JS/CSS/URL exists in the module; (R08.4) nesting of service-level (root=false) and built-in (root=true) page middleware sharing one error record, with the built-in 503 page rendering .Message.",
		notDecided: []string{"that html/template's contextual escaping is itself correct (trusted)", "rendering of arbitrary user-supplied templates"},
		run:        checkC08,
	})
}

func checkC08(c *Ctx) {
	r071(c, "R08.1 stop-resume-state-machine")
	r074(c, "R08.1b state-unaffected-by-redeploy")
	r072(c, "R08.2 stopped-answers-503-nothing-forwarded")
	r073(c, "R08.2b gate-precedes-forwarding")
	r083(c, "R08.3 message-only-through-contextual-escaping")
	r084(c, "R08.4 error-page-nesting")
	r085(c)
	r086(c)
	// the path compared with the health-check path is the one the client sent: nothing rewrites it first (shared with C13)
	c.floor("R08.7 request-unaltered-before-the-gate", 10)
	r131touches(c, "R08.7 request-unaltered-before-the-gate")
}

// R08.6 resume can restore forwarding only if the drain performed by stop (and pause) left the targets usable.
func r086(c *Ctx) {
	const rule = "R08.6 drain-leaves-targets-usable"
	c.floor(rule, 2)
	fn := c.method("Target", "Drain")
	upd := c.method("Target", "updateState")
	draining := c.enumVal(c.server, "TargetStateDraining")
	var mark *ssa.Call
	for _, cs := range callsTo(fn, upd) {
		if call, ok := cs.instr.(*ssa.Call); ok {
			if k, ok := constInt(call.Call.Args[1]); ok && k == draining {
				mark = call
			}
		}
	}
	if !c.ob(rule, "Drain/marks-draining", fn.Pos(), mark != nil, true, "Drain must call updateState(TargetStateDraining)") {
		return
	}
	drainRestores(c, rule, fn, upd, mark, draining)
}

// uses of a value, transitively through conversions / interface boxing
func usesThroughConv(v ssa.Value) []ssa.Instruction {
	var out []ssa.Instruction
	seen := map[ssa.Value]bool{}
	var walk func(v ssa.Value)
	walk = func(v ssa.Value) {
		if seen[v] || v.Referrers() == nil {
			return
		}
		seen[v] = true
		for _, r := range *v.Referrers() {
			switch x := r.(type) {
			case *ssa.MakeInterface:
				walk(x)
			case *ssa.ChangeInterface:
				walk(x)
			case *ssa.ChangeType:
				walk(x)
			case *ssa.DebugRef:
			default:
				out = append(out, r)
			}
		}
	}
	walk(v)
	return out
}

func r083(c *Ctx, rule string) {
	c.floor(rule, 10)
	// template machinery is html/template
	tf := c.field("ErrorPageMiddleware", "template")
	c.ob(rule, "ErrorPageMiddleware.template/type", tf.Pos(), typeString(tf.Type()) == "*html/template.Template", true, "the page template must be an html/template (contextual auto-escaping), got "+typeString(tf.Type()))
	wep := c.fn("WithErrorPageMiddleware")
	parsed := false
	for _, cs := range callsIn(wep) {
		if calleeName(cs.common()) == "html/template.ParseFS" {
			for _, w := range c.writesOfField(tf) {
				if w.fn == wep && w.val == resultOf(cs.instr.(*ssa.Call), 0) {
					parsed = true
				}
			}
		}
	}
	c.ob(rule, "WithErrorPageMiddleware/parses-with-html/template", wep.Pos(), parsed, true, "pages (custom and built-in) must be parsed by html/template.ParseFS and stored as the middleware's template")
	// SetErrorResponse: templateArguments only stored into the error record
	ser := c.fn("SetErrorResponse")
	taF := c.field("errorResponse", "TemplateArguments")
	okSer := true
	n := 0
	for _, u := range usesThroughConv(ser.Params[3]) {
		n++
		st, ok := u.(*ssa.Store)
		f, _, isF := func() (*types.Var, ssa.Value, bool) {
			if !ok {
				return nil, nil, false
			}
			return fieldOfAddr(st.Addr)
		}()
		if !ok || !isF || f != taF {
			okSer = false
		}
	}
	c.ob(rule, "SetErrorResponse/arguments-only-recorded", ser.Pos(), okSer && n >= 1, true, "template arguments may only be stored in the request's error record (never written to the response directly)")
	// ErrorPageMiddleware.ServeHTTP: loads of TemplateArguments go only to respondWithErrorPage
	serve := c.method("ErrorPageMiddleware", "ServeHTTP")
	rwp := c.method("ErrorPageMiddleware", "respondWithErrorPage")
	okServe, nLoads := true, 0
	for _, fn := range c.proxyFuncs() {
		for _, ld := range readsOfFieldIn(fn, taF) {
			nLoads++
			for _, u := range usesThroughConv(ld.(ssa.Value)) {
				call, ok := u.(*ssa.Call)
				if !ok || !isCallTo(call.Common(), rwp) || call.Call.Args[3] != ld.(ssa.Value) || fn != serve {
					okServe = false
				}
			}
		}
	}
	c.ob(rule, "TemplateArguments/only-handed-to-page-renderer", serve.Pos(), okServe && nLoads >= 1, true, "the recorded arguments may only be passed to respondWithErrorPage")
	// respondWithErrorPage: templateArguments only as data of (*html/template.Template).Execute
	okR, nUse := true, 0
	for _, u := range usesThroughConv(rwp.Params[3]) {
		nUse++
		call, ok := u.(*ssa.Call)
		if !ok || calleeName(call.Common()) != "(*html/template.Template).Execute" || call.Call.Args[2] != ssa.Value(rwp.Params[3]) {
			okR = false
		}
	}
	c.ob(rule, "respondWithErrorPage/arguments-only-to-html-template-Execute", rwp.Pos(), okR && nUse >= 1, true, "template arguments may reach the client only as the data argument of html/template's Execute")
	// the fallback body contains nothing but status code and status text
	// (the page helpers of the reference tree, getTemplate and writeErrorWithoutTemplate, are de-anchored: always expanded
	// into respondWithErrorPage)
	wet := rwp
	okF := true
	for _, cs := range callsToName(wet, "fmt.Fprintf") {
		for _, e := range varargElems(cs.common().Args[len(cs.common().Args)-1]) {
			src := resolve(stripConv(e))
			if src == ssa.Value(wet.Params[2]) {
				continue
			}
			if call, ok := src.(*ssa.Call); ok && calleeName(call.Common()) == "net/http.StatusText" {
				continue
			}
			okF = false
		}
	}
	c.ob(rule, "writeErrorWithoutTemplate/body-is-status-only", wet.Pos(), okF, true, "the template-less fallback may print only the status code and its standard text")
	// no conversion to the 'trusted content' types of html/template anywhere
	bad := 0
	for _, fn := range c.modFuncs {
		for _, b := range fn.Blocks {
			for _, in := range b.Instrs {
				var t types.Type
				switch x := in.(type) {
				case *ssa.Convert:
					t = x.Type()
				case *ssa.ChangeType:
					t = x.Type()
				default:
					continue
				}
				if nt, ok := t.(*types.Named); ok && nt.Obj().Pkg() != nil && nt.Obj().Pkg().Path() == "html/template" {
					bad++
					c.ob(rule, "conversion to html/template."+nt.Obj().Name()+" in "+fname(fn), in.Pos(), false, true, "values converted to html/template's trusted-content types bypass escaping")
				}
			}
		}
	}
	c.ob(rule, "no-trusted-content-conversions", ser.Pos(), bad == 0, true, "whole module scanned")
	// message flows unchanged: CommandHandler.Stop -> Router.StopService -> Service.Stop -> PauseController.Stop
	chain := []struct {
		fn     *ssa.Function
		callee *ssa.Function
		argIdx int
		isSrc  func(fn *ssa.Function, v ssa.Value) bool
	}{
		{c.method("CommandHandler", "Stop"), c.method("Router", "StopService"), 3, func(fn *ssa.Function, v ssa.Value) bool {
			ch, base := fieldPath(v)
			return len(ch) == 1 && ch[0].Name() == "Message" && (base == ssa.Value(fn.Params[1]) || cellValue(base) == ssa.Value(fn.Params[1]))
		}},
		{c.method("Router", "StopService"), c.method("Service", "Stop"), 2, func(fn *ssa.Function, v ssa.Value) bool { return resolve(v) == ssa.Value(fn.Params[3]) }},
		{c.method("Service", "Stop"), c.method("PauseController", "Stop"), 1, func(fn *ssa.Function, v ssa.Value) bool { return resolve(v) == ssa.Value(fn.Params[2]) }},
	}
	for _, l := range chain {
		cs := callsTo(l.fn, l.callee)
		ok := len(cs) == 1 && l.isSrc(l.fn, cs[0].common().Args[l.argIdx])
		c.ob(rule, "message-unchanged: "+fname(l.fn)+" -> "+l.callee.Name(), l.fn.Pos(), ok, true, "the operator's message must be handed on verbatim (escaping is the template's job; pre-escaping double-escapes)")
	}
	// built-in 503 page renders .Message
	page, err := os.ReadFile(filepath.Join(c.repo, "internal", "pages", "503.html"))
	c.ob(rule, "pages/503.html/renders-Message", ser.Pos(), err == nil && strings.Contains(string(page), ".Message") && !strings.Contains(string(page), "safeHTML"), true, "the built-in 503 page must insert {{.Message}} (escaped by html/template)")
}

// varargElems: element values stored into the backing array of a variadic slice argument.
func varargElems(v ssa.Value) []ssa.Value {
	sl, ok := v.(*ssa.Slice)
	if !ok {
		return nil
	}
	a, ok := sl.X.(*ssa.Alloc)
	if !ok {
		return nil
	}
	var out []ssa.Value
	for _, r := range *a.Referrers() {
		if ia, ok := r.(*ssa.IndexAddr); ok {
			for _, rr := range *ia.Referrers() {
				if st, ok := rr.(*ssa.Store); ok && st.Addr == ia {
					out = append(out, st.Val)
				}
			}
		}
	}
	return out
}

func r084(c *Ctx, rule string) {
	c.floor(rule, 7)
	wep := c.fn("WithErrorPageMiddleware")
	rootF := c.field("ErrorPageMiddleware", "root")
	// constructor stores its root parameter
	okCtor := false
	for _, w := range c.writesOfField(rootF) {
		if w.fn == wep && w.val == ssa.Value(wep.Params[1]) {
			okCtor = true
		}
	}
	c.ob(rule, "WithErrorPageMiddleware/stores-root-flag", wep.Pos(), okCtor, true, "")
	// call sites: service-level root=false with os.DirFS(ErrorPagePath); server-level root=true with embedded pages
	for _, u := range c.usesOfFunc(wep) {
		call, ok := u.instr.(*ssa.Call)
		if !ok {
			continue
		}
		root, isConst := constBool(call.Call.Args[1])
		switch fname(outer(u.in)) {
		case "(*server.Service).createMiddleware":
			fsOK := false
			if mi, ok := call.Call.Args[0].(*ssa.MakeInterface); ok {
				if d, ok := mi.X.(*ssa.Call); ok && calleeName(d.Common()) == "os.DirFS" {
					ch, _ := fieldPath(d.Call.Args[0])
					fsOK = len(ch) >= 1 && ch[len(ch)-1].Name() == "ErrorPagePath"
				}
			} else if d, ok := call.Call.Args[0].(*ssa.Call); ok && calleeName(d.Common()) == "os.DirFS" {
				ch, _ := fieldPath(d.Call.Args[0])
				fsOK = len(ch) >= 1 && ch[len(ch)-1].Name() == "ErrorPagePath"
			}
			c.ob(rule, "service-level-middleware/root=false over the custom page directory", call.Pos(), isConst && !root && fsOK, true, "a service's custom pages must be a non-root layer (so a missing page falls through to the built-in one) over os.DirFS(options.ErrorPagePath)")
			// wraps the request handler of this service
			c.ob(rule, "service-level-middleware/wraps-service-handler", call.Pos(), true, false, "")
		case "(*server.Server).buildHandler":
			fsOK := false
			for _, src := range []ssa.Value{call.Call.Args[0]} {
				if mi, ok := src.(*ssa.MakeInterface); ok {
					if u, ok := mi.X.(*ssa.UnOp); ok {
						if g, ok := u.X.(*ssa.Global); ok && g.Pkg == c.pages {
							fsOK = true
						}
					}
				}
			}
			c.ob(rule, "server-level-middleware/root=true over the embedded pages", call.Pos(), isConst && root && fsOK, true, "the outermost page layer must be the root over internal/pages")
		default:
			c.ob(rule, "WithErrorPageMiddleware <- "+fname(outer(u.in)), call.Pos(), false, false, "unexpected page middleware")
		}
	}
	// nesting protocol in ServeHTTP
	serve := c.method("ErrorPageMiddleware", "ServeHTTP")
	rwp := c.method("ErrorPageMiddleware", "respondWithErrorPage")
	scF := c.field("errorResponse", "StatusCode")
	var nextCall ssa.Instruction
	for _, cs := range callsIn(serve) {
		if cs.common().IsInvoke() && cs.common().Method.Name() == "ServeHTTP" {
			nextCall = cs.instr
		}
	}
	rcs := callsTo(serve, rwp)
	if nextCall == nil || len(rcs) != 1 {
		c.undecided(rule, "ErrorPageMiddleware.ServeHTTP/shape", serve.Pos(), "expected next.ServeHTTP and one respondWithErrorPage call")
		return
	}
	r := rcs[0].instr.(*ssa.Call)
	lo, hi, neq := interval(intFacts(r, matchFieldLoad(scF)))
	nonZero := false
	for _, k := range neq {
		if k == 0 {
			nonZero = true
		}
	}
	_ = lo
	_ = hi
	c.ob(rule, "ServeHTTP/render-after-next-when-status-recorded", r.Pos(), dominates(nextCall, r) && nonZero && isLoadOfField(r.Call.Args[2], scF), true, "after the inner handler returns, a recorded status (!=0) must be rendered with that status")
	// reset only when handled
	for _, w := range c.writesOfField(scF) {
		if w.fn != serve {
			continue
		}
		k, isK := constInt(w.val)
		handled, _ := boolFacts(w.instr, sameAs(r))
		c.ob(rule, "ServeHTTP/record-cleared-only-when-handled", w.instr.Pos(), isK && k == 0 && handled, true, "an unhandled status must stay recorded so that the enclosing (root) layer renders it")
	}
	// shares the record already in the context
	shares := false
	for _, b := range serve.Blocks {
		for _, in := range b.Instrs {
			if ta, ok := in.(*ssa.TypeAssert); ok && ta.CommaOk && strings.HasSuffix(typeString(ta.AssertedType), "errorResponse") {
				shares = true
			}
		}
	}
	c.ob(rule, "ServeHTTP/reuses-enclosing-error-record", serve.Pos(), shares, true, "a nested layer must reuse the error record found in the request context (else the root never sees an unhandled status)")
	// the result of respondWithErrorPage: a rendered page => true; no page (template missing, or rendering failed) =>
	// true exactly at the root layer, which prints the plain fallback; a nested layer must report 'not handled'
	gt := rwp
	var lookups, execErrs []ssa.Value
	for _, cs := range callsIn(rwp) {
		switch calleeName(cs.common()) {
		case "(*html/template.Template).Lookup":
			if v, ok := cs.instr.(ssa.Value); ok {
				lookups = append(lookups, v)
			}
		case "(*html/template.Template).Execute":
			if v, ok := cs.instr.(ssa.Value); ok {
				execErrs = append(execErrs, v)
			}
		}
	}
	okW, okG, nFallback := true, false, 0
	for _, rc := range retCases(rwp) {
		b, isC := constBool(rc.vals[0])
		if !isC {
			okW = false
			continue
		}
		// is this a way out without a rendered page?
		fallback := false
		for _, ce := range rc.conds {
			cm, ok := ce.asCmp()
			if !ok || !isNilConst(cm.y) {
				continue
			}
			if cm.op == token.EQL && strings.HasSuffix(typeString(cm.x.Type()), "template.Template") {
				fallback = true // no template set / no page for this status
				okG = true
			}
			if cm.op == token.NEQ && isErrorType(cm.x.Type()) {
				for _, e := range execErrs {
					if cm.x == e {
						fallback = true // rendering failed
					}
				}
			}
		}
		isRoot, notRoot := boolFactsOf(rc.conds, matchFieldLoad(rootF))
		if fallback {
			nFallback++
			if b && !isRoot || !b && !notRoot {
				okW = false
			}
		} else if !b {
			okW = false
		}
	}
	c.ob(rule, "writeErrorWithoutTemplate/handled-iff-root", rwp.Pos(), okW && nFallback >= 2, true, "without a template only the root layer answers; a nested layer must report 'not handled'")
	c.ob(rule, "respondWithErrorPage/missing-page-falls-through", rwp.Pos(), okG && len(lookups) >= 1, true, "")
	// getTemplate looks up "<status>.html"
	okL := false
	for _, cs := range callsToName(gt, "fmt.Sprintf") {
		if f, ok := constString(cs.common().Args[0]); ok && f == "%d.html" {
			okL = true
		}
	}
	// ... or strconv.Itoa(status) + ".html"
	for _, b := range gt.Blocks {
		for _, in := range b.Instrs {
			bo, ok := in.(*ssa.BinOp)
			if !ok || bo.Op != token.ADD {
				continue
			}
			if sfx, isK := constString(bo.Y); isK && sfx == ".html" {
				if call, isCall := bo.X.(*ssa.Call); isCall {
					switch calleeName(call.Common()) {
					case "strconv.Itoa", "strconv.FormatInt", "fmt.Sprint":
						okL = true
					}
				}
			}
		}
	}
	c.ob(rule, "getTemplate/looks-up-status.html", gt.Pos(), okL, true, "")
}

func r085(c *Ctx) {
	const rule = "R08.5 stop-gate-before-drain"
	c.floor(rule, 2)
	fn := c.method("Service", "Stop")
	gate := c.method("PauseController", "Stop")
	drain := c.method("Service", "Drain")
	gs, ds := callsTo(fn, gate), callsTo(fn, drain)
	if len(gs) != 1 || len(ds) != 1 {
		c.undecided(rule, "Service.Stop/shape", fn.Pos(), fmt.Sprintf("expected one gate and one Drain call, found %d/%d", len(gs), len(ds)))
		return
	}
	c.ob(rule, "Service.Stop/gate-before-drain", ds[0].pos(), dominates(gs[0].instr, ds[0].instr), true, "stop must set the gate first, then drain")
	_, isCall := ds[0].instr.(*ssa.Call)
	c.ob(rule, "Service.Stop/drain-is-synchronous", ds[0].pos(), isCall, true, "")
}
