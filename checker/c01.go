package main

import (
	"fmt"
	"go/token"
	"go/types"
	"sort"
	"strings"

	"golang.org/x/tools/go/ssa"
)

func init() {
	register("C01", &propCheck{
		explain:    "Decides the ordering/ownership skeleton of 'traffic only after every new target passed a probe': (R01.1) in the deploy routine every publication of the new balancer (slot update, table install) is dominated by the nil-error branch of the all-targets health wait on the same balancer value and the failing branch returns a non-nil error after disposing it; (R01.2) complete who-may-write/who-may-call inventory for the balancer slots, UpdateLoadBalancer, ServiceMap.Set, NewLoadBalancer, MarkAllHealthy; (R01.3) the wait is a conjunction over all targets; (R01.4) the Target typestate extracted from every store to Target.state: only a successful probe promotes, failure never does, becameHealthy is closed only on adding->healthy; (R01.5) probe success is exactly 'no transport error and status in [200,299]' under a timeout context; (R01.6) the rotation is only ever filled with targets whose State()==healthy and claims only come from the rotation. Every path of those functions is covered (dominance on SSA), not sampled schedules.",
		notDecided: []string{"'within the deploy timeout' as elapsed time (the bounded-wait shape is under C17)", "behaviour of net/http client and timers"},
		run:        checkC01,
	})
}

// deployShape is the resolved skeleton of Router.deployTargetsIntoService,
// shared by C01, C02, C03, C06, C17.
type deployShape struct {
	fn       *ssa.Function
	newLB    *ssa.Call // NewLoadBalancer(...)
	wait     *ssa.Call // lb.WaitUntilHealthy(...)
	waitErr  ssa.Value
	update   *ssa.Call   // service.UpdateLoadBalancer(lb, slot)
	restores []*ssa.Call // service.UpdateLoadBalancer(replaced, slot): undo on a failing path
	install  *ssa.Call   // r.installService(service)
	instErr  ssa.Value
	replaced ssa.Value
}

func (c *Ctx) deployShape(rule string) *deployShape {
	fn := c.method("Router", "deployTargetsIntoService")
	d := &deployShape{fn: fn}
	one := func(callee *ssa.Function, what string) *ssa.Call {
		cs := callsTo(fn, callee)
		if len(cs) != 1 {
			c.undecided(rule, "deployTargetsIntoService/"+what, fn.Pos(), fmt.Sprintf("expected exactly one call of %s in the deploy routine, found %d (unrecognised form)", what, len(cs)))
			return nil
		}
		call, ok := cs[0].instr.(*ssa.Call)
		if !ok {
			c.undecided(rule, "deployTargetsIntoService/"+what, cs[0].pos(), what+" is invoked by go/defer (unrecognised form)")
			return nil
		}
		return call
	}
	d.newLB = one(c.fn("NewLoadBalancer"), "NewLoadBalancer")
	d.wait = one(c.method("LoadBalancer", "WaitUntilHealthy"), "LoadBalancer.WaitUntilHealthy")
	d.install = one(c.method("Router", "installService"), "Router.installService")
	if d.newLB == nil || d.wait == nil || d.install == nil {
		return nil
	}
	// the publishing slot update is the one that stores the new balancer; any
	// other call must put back the value the publishing call returned (undo)
	for _, cs := range callsTo(fn, c.method("Service", "UpdateLoadBalancer")) {
		call, ok := cs.instr.(*ssa.Call)
		if !ok {
			c.undecided(rule, "deployTargetsIntoService/UpdateLoadBalancer", cs.pos(), "slot update by go/defer (unrecognised form)")
			return nil
		}
		if sameBalancer(call.Call.Args[1], d.newLB) {
			if d.update != nil {
				c.undecided(rule, "deployTargetsIntoService/UpdateLoadBalancer", cs.pos(), "the new balancer is published twice (unrecognised form)")
				return nil
			}
			d.update = call
		} else {
			d.restores = append(d.restores, call)
		}
	}
	if d.update == nil {
		c.undecided(rule, "deployTargetsIntoService/UpdateLoadBalancer", fn.Pos(), "no slot update publishing the value of NewLoadBalancer found (unrecognised form)")
		return nil
	}
	d.waitErr = errResultOf(d.wait)
	d.instErr = errResultOf(d.install)
	d.replaced = d.update
	return d
}

func checkC01(c *Ctx) {
	r011(c, "R01.1 health-gate-dominates-publication")
	r012(c)
	r013(c)
	r014(c)
	r015(c)
	r016n(c, "R01.6 rotation-subset-of-healthy")
	r017(c, "R01.7 failure-is-reported")
	r171b(c)
	// the health wait ends at the deploy timeout: one timer per wait, created outside any loop (shared with C17)
	r171(c, "R01.8 health-wait-bounded-by-the-deploy-timeout")
}

// R01.1 health gate dominates publication.
func r011(c *Ctx, rule string) {
	c.floor(rule, 5)
	d := c.deployShape(rule)
	if d == nil {
		return
	}
	_ = ssa.Value(d.newLB)
	c.ob(rule, "deploy/gate-is-on-the-new-balancer", d.wait.Pos(), sameBalancer(d.wait.Call.Args[0], d.newLB), true,
		"WaitUntilHealthy must be invoked on the value returned by NewLoadBalancer")
	c.ob(rule, "deploy/published-balancer-is-the-gated-one", d.update.Pos(), len(d.update.Call.Args) >= 2 && sameBalancer(d.update.Call.Args[1], d.newLB), true,
		"UpdateLoadBalancer must publish the value returned by NewLoadBalancer")
	if d.waitErr == nil {
		c.ob(rule, "deploy/gate-result-used", d.wait.Pos(), false, true, "the error of WaitUntilHealthy is discarded")
		return
	}
	for _, pub := range []*ssa.Call{d.update, d.install} {
		isNil, _ := nilKnowledge(pub, sameAs(d.waitErr))
		c.ob(rule, "deploy/publisher:"+calleeName(pub.Common()), pub.Pos(), isNil, true,
			"publisher must be reachable only through the nil-error branch of lb.WaitUntilHealthy")
	}
	for _, rs := range d.restores {
		_, instFailed := nilKnowledge(rs, sameAs(d.instErr))
		ok := rs.Call.Args[1] == ssa.Value(d.update) && rs.Call.Args[0] == d.update.Call.Args[0] && rs.Call.Args[2] == d.update.Call.Args[2] && instFailed
		c.ob(rule, "deploy/slot-undo-restores-replaced-balancer", rs.Pos(), ok, true,
			"any further slot update in the deploy routine must put the replaced balancer back into the same slot of the same service, on the branch where installService failed")
	}
	// the failing branch reports failure, disposes the new balancer, publishes nothing - path by path (the gate may sit
	// in a helper expanded in place, whose error arrives merged with other errors)
	dispose := c.method("LoadBalancer", "Dispose")
	n := 0
	ps, complete := enumPathsX(d.fn, func(*ssa.Return) bool { return true }, 4096)
	if !complete {
		c.undecided(rule, "deploy/unhealthy-branch", d.fn.Pos(), "too many paths through the deploy routine to enumerate")
	}
	type verdict struct{ errOK, dispOK bool }
	byRet := map[*ssa.Return]*verdict{}
	var order []*ssa.Return
	for _, p := range ps {
		_, nonNil := nilKnowledgeOf(p.conds, sameAs(d.waitErr))
		if !nonNil {
			continue
		}
		n++
		v := byRet[p.ret]
		if v == nil {
			v = &verdict{true, true}
			byRet[p.ret] = v
			order = append(order, p.ret)
		}
		res := p.pathValue(lastRet(p.ret))
		if isNilConst(res) {
			v.errOK = false
		}
		if !p.passes(func(in ssa.Instruction) bool {
			call, ok := in.(*ssa.Call)
			return ok && isCallTo(call.Common(), dispose) && sameBalancer(call.Call.Args[0], d.newLB)
		}) {
			v.dispOK = false
		}
	}
	for _, ret := range order {
		c.ob(rule, "deploy/unhealthy-branch-returns-error", ret.Pos(), byRet[ret].errOK, true,
			"on the unhealthy branch the command must report a non-nil error")
		c.ob(rule, "deploy/unhealthy-branch-disposes-new-balancer", ret.Pos(), byRet[ret].dispOK, true,
			"on the unhealthy branch the new balancer must be disposed (probes stopped) before returning")
	}
	c.ob(rule, "deploy/unhealthy-branch-exists", d.wait.Pos(), n >= 1, true, "there must be a return taken when the wait fails")
}

// ownerNames maps instructions' functions to the declared function they belong to.
func ownerSet[T any](items []T, f func(T) *ssa.Function) []string {
	m := map[string]bool{}
	for _, it := range items {
		m[fname(outer(f(it)))] = true
	}
	out := make([]string, 0, len(m))
	for k := range m {
		out = append(out, k)
	}
	sort.Strings(out)
	return out
}

func (c *Ctx) whoMay(rule, what string, pos token.Pos, got []string, allowed map[string]string) {
	for _, g := range got {
		reason, ok := allowed[g]
		c.ob(rule, what+" <- "+g, pos, ok, false, func() string {
			if ok {
				return "allowed: " + reason
			}
			return "not in the frozen allow-table for " + what
		}())
	}
}

// R01.2 who may publish.
func r012(c *Ctx) {
	const rule = "R01.2 who-may-publish"
	c.floor(rule, 10)
	for _, f := range []string{"active", "rollout"} {
		fv := c.field("Service", f)
		ws := c.writesOfField(fv)
		c.whoMay(rule, "write Service."+f, fv.Pos(), ownerSet(ws, func(w fieldWrite) *ssa.Function { return w.fn }), map[string]string{
			"(*server.Service).UpdateLoadBalancer": "the slot setter (parameter value)",
			"(*server.Service).CopyWithOptions":    "copies the slot of an already-installed service into the fresh copy",
			"(*server.Service).UnmarshalJSON":      "restore licence (C11): restored targets are presumed healthy",
		})
	}
	uses := func(fn *ssa.Function) []string {
		return ownerSet(c.usesOfFunc(fn), func(u funcUse) *ssa.Function { return u.in })
	}
	upd := c.method("Service", "UpdateLoadBalancer")
	c.whoMay(rule, "call Service.UpdateLoadBalancer", upd.Pos(), uses(upd), map[string]string{
		"(*server.Router).deployTargetsIntoService": "the gated deploy routine (R01.1)",
	})
	set := c.method("ServiceMap", "Set")
	c.whoMay(rule, "call ServiceMap.Set", set.Pos(), uses(set), map[string]string{
		"(*server.Router).installService":        "install under the write lock after the availability check",
		"(*server.Router).RestoreLastSavedState": "reload of a table this proxy wrote",
	})
	nlb := c.fn("NewLoadBalancer")
	c.whoMay(rule, "call NewLoadBalancer", nlb.Pos(), uses(nlb), map[string]string{
		"(*server.Router).deployTargetsIntoService": "deploy",
		"(*server.Service).UnmarshalJSON":           "restore",
	})
	mah := c.method("LoadBalancer", "MarkAllHealthy")
	c.whoMay(rule, "call LoadBalancer.MarkAllHealthy", mah.Pos(), uses(mah), map[string]string{
		"(*server.Service).UnmarshalJSON": "restore licence only",
	})
	inst := c.method("Router", "installService")
	c.whoMay(rule, "call Router.installService", inst.Pos(), uses(inst), map[string]string{
		"(*server.Router).deployTargetsIntoService": "after the gate (R01.1)",
	})
}

// R01.3 the gate is a conjunction over all targets.
func r013(c *Ctx) {
	const rule = "R01.3 gate-is-conjunction"
	c.floor(rule, 6)
	fn := c.method("LoadBalancer", "WaitUntilHealthy")
	waits := callsToName(fn, "(*sync.WaitGroup).Wait")
	loads := callsToName(fn, "(*sync/atomic.Bool).Load")
	targetsFn := c.method("LoadBalancer", "Targets")
	allField := c.field("LoadBalancer", "all")
	isAllTargets := func(v ssa.Value) bool {
		if call, ok := v.(*ssa.Call); ok && isCallTo(call.Common(), targetsFn) {
			return true
		}
		return isLoadOfField(v, allField)
	}
	// every nil return is after the join and on the not-failed branch
	nilReturns := 0
	for _, ret := range normalReturns(fn) {
		if !isNilConst(retVal(ret, 0)) {
			continue
		}
		nilReturns++
		joined := false
		for _, w := range waits {
			if dominates(w.instr, ret) {
				joined = true
			}
		}
		c.ob(rule, "WaitUntilHealthy/nil-return-after-join", ret.Pos(), joined, true, "success must be reported only after wg.Wait() joined every per-target waiter")
		notFailed := false
		for _, l := range loads {
			if v, ok := l.instr.(*ssa.Call); ok {
				if _, f := boolFacts(ret, sameAs(v)); f && dominates(l.instr, ret) {
					// the load itself must come after the join
					for _, w := range waits {
						if dominates(w.instr, l.instr) {
							notFailed = true
						}
					}
				}
			}
		}
		c.ob(rule, "WaitUntilHealthy/nil-return-only-if-none-failed", ret.Pos(), notFailed, true, "success must be on the false branch of failed.Load() read after the join")
	}
	c.ob(rule, "WaitUntilHealthy/has-nil-return", fn.Pos(), nilReturns >= 1, false, "")
	// one waiter goroutine per target of the balancer
	var gos []*ssa.Go
	for _, cs := range callsIn(fn) {
		if g, ok := cs.instr.(*ssa.Go); ok {
			gos = append(gos, g)
		}
	}
	if len(gos) != 1 {
		c.undecided(rule, "WaitUntilHealthy/waiter-goroutine", fn.Pos(), fmt.Sprintf("expected one go statement launching the per-target waiter, found %d", len(gos)))
		return
	}
	g := gos[0]
	// loop over all targets
	rangeOK := false
	var ranged ssa.Value
	if inLoop(g.Block()) {
		// find the IndexAddr feeding the closure's target binding
		for _, in := range g.Block().Instrs {
			if ia, ok := in.(*ssa.IndexAddr); ok && isAllTargets(ia.X) {
				ranged = ia.X
				rangeOK = true
			}
		}
	}
	c.ob(rule, "WaitUntilHealthy/one-waiter-per-target", g.Pos(), rangeOK, true, "the waiter goroutine must be launched inside a loop over all targets of the balancer (Targets()/lb.all)")
	// wg.Add(len(all targets))
	addOK := false
	for _, a := range callsToName(fn, "(*sync.WaitGroup).Add") {
		arg := a.common().Args[1]
		if call, ok := arg.(*ssa.Call); ok {
			if b, ok := call.Call.Value.(*ssa.Builtin); ok && b.Name() == "len" && isAllTargets(call.Call.Args[0]) {
				addOK = true
			}
		}
	}
	c.ob(rule, "WaitUntilHealthy/join-counts-all-targets", fn.Pos(), addOK, true, "wg.Add must count len(all targets)")
	_ = ranged
	// the closure: false result => failed.Store(true) before Done on every path
	mc, _ := g.Call.Value.(*ssa.MakeClosure)
	if mc == nil {
		c.undecided(rule, "WaitUntilHealthy/waiter-closure", g.Pos(), "go statement does not launch a closure literal")
		return
	}
	cl := mc.Fn.(*ssa.Function)
	c.touched(cl.String())
	tw := callsTo(cl, c.method("Target", "WaitUntilHealthy"))
	if len(tw) != 1 {
		c.undecided(rule, "waiter/calls-Target.WaitUntilHealthy", cl.Pos(), fmt.Sprintf("expected one call, found %d", len(tw)))
		return
	}
	res, _ := tw[0].instr.(*ssa.Call)
	isStoreTrue := func(in ssa.Instruction) bool {
		call, ok := in.(*ssa.Call)
		if !ok || calleeName(call.Common()) != "(*sync/atomic.Bool).Store" {
			return false
		}
		b, ok := constBool(call.Call.Args[1])
		return ok && b
	}
	// from every point where res is known false, no path to return avoids Store(true)
	bad := false
	found := false
	for _, b := range cl.Blocks {
		if len(b.Instrs) == 0 {
			continue
		}
		_, isF := boolFacts(b.Instrs[0], sameAs(res))
		if !isF {
			continue
		}
		// entry of the false-branch region: its idom does not know it
		if b.Idom() != nil {
			if _, f2 := boolFacts(b.Idom().Instrs[0], sameAs(res)); f2 {
				continue
			}
		}
		found = true
		if isStoreTrue(b.Instrs[0]) {
			continue
		}
		if _, ok := reach(cl, b.Instrs[0], isReturn, isStoreTrue); ok {
			bad = true
		}
	}
	if found && bad {
		// (the verdict may be tested twice - once to log, once to record: a way out is followed with what it already
		// decided about the verdict)
		if paths, complete := enumPathsX(cl, func(*ssa.Return) bool { return true }, 4000); complete {
			bad = false
			for _, pth := range paths {
				isFalse := false
				for _, ce := range pth.conds {
					v, taken := ce.cond, ce.taken
					for {
						u, ok := v.(*ssa.UnOp)
						if !ok || u.Op != token.NOT {
							break
						}
						v, taken = u.X, !taken
					}
					if v == res && !taken {
						isFalse = true
					}
				}
				if isFalse && !pth.passes(isStoreTrue) {
					bad = true
				}
			}
		}
	}
	c.ob(rule, "waiter/failure-is-recorded", res.Pos(), found && !bad, true, "when Target.WaitUntilHealthy returns false every path must execute failed.Store(true)")
	// the target waited on is the loop element, timeout is the parameter
	timeoutOK := false
	if len(res.Call.Args) == 2 {
		timeoutOK = resolve(res.Call.Args[1]) == ssa.Value(fn.Params[1])
	}
	c.ob(rule, "waiter/bounded-by-deploy-timeout", res.Pos(), timeoutOK, true, "the per-target wait must be bounded by the timeout parameter of the gate")
}

// stateStore describes one store to Target.state with the facts known there.
type stateStore struct {
	fn       *ssa.Function
	instr    *ssa.Store
	val      int64
	constVal bool
	succT    bool // success known true
	succF    bool
	prevEq   []int64 // state known == k
	prevNeq  []int64
}

func (c *Ctx) targetStateStores() []stateStore {
	stateF := c.field("Target", "state")
	isState := func(v ssa.Value) bool { return isLoadOfField(v, stateF) || isLoadOfField(resolve(v), stateF) }
	var out []stateStore
	for _, w := range c.writesOfField(stateF) {
		st, ok := w.instr.(*ssa.Store)
		if !ok {
			continue
		}
		of := outer(w.fn)
		// one (virtual) store per value the stored expression can take: `t.state = f(t.state, success)` with f a pure
		// function that was inlined is a merge of constants, each under its own conditions
		cases := []valCase{{st.Val, dominatingConds(st.Block())}}
		if _, isK := constInt(st.Val); !isK && st.Val != ssa.Value(firstParamOrNil(of, 1)) {
			cases = valueCases(st.Val, st.Block())
		}
		for _, vc := range cases {
			if len(cases) > 1 && isState(vc.val) {
				continue // this outcome leaves the state as it is
			}
			s := stateStore{fn: w.fn, instr: st}
			s.val, s.constVal = constInt(vc.val)
			if s.constVal && len(cases) > 1 {
				same := false
				for _, f := range intFactsOf(vc.conds, isState) {
					if f.op == token.EQL && f.k == s.val {
						same = true
					}
				}
				if same {
					continue // writes back the value the state is known to have
				}
			}
			// success parameter of the enclosing declared function, if any
			for _, p := range of.Params {
				if p.Name() == "success" && types.Identical(p.Type(), types.Typ[types.Bool]) {
					s.succT, s.succF = boolFactsOf(vc.conds, matchResolved(p))
				}
			}
			for _, f := range intFactsOf(vc.conds, isState) {
				switch f.op {
				case token.EQL:
					s.prevEq = append(s.prevEq, f.k)
				case token.NEQ:
					s.prevNeq = append(s.prevNeq, f.k)
				}
			}
			out = append(out, s)
		}
	}
	return out
}

func firstParamOrNil(fn *ssa.Function, i int) *ssa.Parameter {
	if fn == nil || i >= len(fn.Params) {
		return nil
	}
	return fn.Params[i]
}

// R01.4 a target is promoted only by a successful probe.
func r014(c *Ctx) {
	const rule = "R01.4 promotion-only-by-successful-probe"
	c.floor(rule, 6)
	healthy := c.enumVal(c.server, "TargetStateHealthy")
	adding := c.enumVal(c.server, "TargetStateAdding")
	stT := c.named("TargetState")
	hcc := c.method("Target", "HealthCheckCompleted")
	upd := c.method("Target", "updateState")
	for i, s := range c.targetStateStores() {
		of := outer(s.fn)
		key := fmt.Sprintf("store#%d in %s", i, fname(of))
		switch of {
		case hcc:
			if !s.constVal {
				c.undecided(rule, key, s.instr.Pos(), "HealthCheckCompleted stores a non-constant state (unrecognised form)")
				continue
			}
			nm := c.enumName(stT, s.val)
			if s.val == healthy {
				c.ob(rule, "HealthCheckCompleted/store "+nm+" requires success", s.instr.Pos(), s.succT && !s.succF, true,
					"a store of TargetStateHealthy in HealthCheckCompleted must be dominated by success==true")
			} else {
				c.ob(rule, "HealthCheckCompleted/store "+nm, s.instr.Pos(), !(s.succT && false), false, "non-promoting store")
			}
			if s.succF {
				c.ob(rule, "HealthCheckCompleted/failure-never-promotes ("+nm+")", s.instr.Pos(), s.val != healthy, true, "under success==false no store may set healthy")
			}
		case upd:
			c.ob(rule, "updateState/parameter-store", s.instr.Pos(), s.instr.Val == ssa.Value(upd.Params[1]), false, "updateState stores its parameter; its callers are constrained below")
		default:
			if isConstructorLit(s.instr) {
				c.ob(rule, "constructor-literal in "+fname(of), s.instr.Pos(), s.constVal && s.val == adding, true, "a new target must start in TargetStateAdding")
			} else {
				c.ob(rule, "write Target.state <- "+fname(of), s.instr.Pos(), false, false, "unexpected writer of Target.state (allowed: NewTarget literal, updateState, HealthCheckCompleted)")
			}
		}
	}
	// callers of updateState: Drain (draining / restore), MarkAllHealthy (restore licence)
	for _, u := range c.usesOfFunc(upd) {
		o := fname(outer(u.in))
		switch o {
		case "(*server.Target).Drain":
			c.ob(rule, "call updateState <- "+o, u.instr.Pos(), true, false, "drain marks draining and restores the pre-drain state (C03)")
		case "(*server.LoadBalancer).MarkAllHealthy":
			c.ob(rule, "call updateState <- "+o, u.instr.Pos(), true, false, "restore licence; MarkAllHealthy callers are restricted by R01.2")
		default:
			c.ob(rule, "call updateState <- "+o, u.instr.Pos(), false, false, "unexpected caller of Target.updateState")
		}
	}
	// close(becameHealthy) only on adding -> healthy under success
	bh := c.field("Target", "becameHealthy")
	stateF := c.field("Target", "state")
	nclose := 0
	for _, fn := range c.modFuncs {
		for _, cs := range callsIn(fn) {
			b, ok := cs.common().Value.(*ssa.Builtin)
			if !ok || b.Name() != "close" || !isLoadOfField(cs.common().Args[0], bh) {
				continue
			}
			nclose++
			okOwner := outer(fn) == hcc
			// the facts that license a release: success==true and state==adding
			licensedOf := func(at ssa.Instruction, conds []condEdge) bool {
				wasAdding := false
				for _, f := range intFactsOf(conds, func(v ssa.Value) bool { return isLoadOfField(v, stateF) || isLoadOfField(resolve(v), stateF) }) {
					if f.op == token.EQL && f.k == adding {
						wasAdding = true
					}
				}
				succT := false
				for _, p := range outer(at.Parent()).Params {
					if p.Name() == "success" {
						succT, _ = boolFactsOf(conds, matchResolved(p))
					}
				}
				return wasAdding && succT
			}
			licensed := func(at ssa.Instruction) bool { return licensedOf(at, dominatingConds(at.Block())) }
			succTOf := func(at ssa.Instruction, conds []condEdge) bool {
				for _, p := range outer(at.Parent()).Params {
					if p.Name() == "success" {
						t, _ := boolFactsOf(conds, matchResolved(p))
						return t
					}
				}
				return false
			}
			isStateIsAdding := func(v ssa.Value) bool {
				bo, ok := v.(*ssa.BinOp)
				if !ok || bo.Op != token.EQL {
					return false
				}
				for _, pr := range [][2]ssa.Value{{bo.X, bo.Y}, {bo.Y, bo.X}} {
					if k, isK := constInt(pr[1]); isK && k == adding && (isLoadOfField(pr[0], stateF) || isLoadOfField(resolve(pr[0]), stateF)) {
						return true
					}
				}
				return false
			}
			ok = licensed(cs.instr)
			how := "directly under success==true and state==adding"
			if !ok {
				// or through a local flag that is set only under those facts
				for _, ce := range dominatingConds(cs.instr.Block()) {
					cell := cellOfLoad(ce.cond)
					if cell == nil || !ce.taken {
						continue
					}
					all := true
					nTrue := 0
					for _, st := range storesToCell(cell) {
						for _, vc := range valueCases(st.Val, st.Block()) {
							b, isConst := constBool(vc.val)
							switch {
							case isConst && !b:
							case isConst && b && licensedOf(st, vc.conds):
								nTrue++
							case isStateIsAdding(vc.val) && succTOf(st, vc.conds):
								// `flag = success && previous == adding`: true exactly under the licensing facts
								nTrue++
							default:
								all = false
							}
						}
					}
					if all && nTrue >= 1 {
						ok = true
						how = "through local flag '" + cell.Comment + "' set only under success==true and state==adding"
					}
				}
			}
			if !ok {
				// or on an observed transition: the state read was adding and the state stored after it (what the typestate
				// obligations above constrain: only a successful probe stores healthy over adding) is healthy
				healthy := c.enumVal(c.server, "TargetStateHealthy")
				var prevLoad ssa.Instruction
				isNew := false
				for pass := 0; pass < 2; pass++ {
					for _, ce := range dominatingConds(cs.instr.Block()) {
						cm, isCmp := ce.asCmp()
						if !isCmp || cm.op != token.EQL {
							continue
						}
						for _, pr := range [][2]ssa.Value{{cm.x, cm.y}, {cm.y, cm.x}} {
							k, isK := constInt(pr[1])
							if !isK {
								continue
							}
							v := resolve(pr[0])
							if k == adding && isLoadOfField(v, stateF) {
								prevLoad, _ = v.(ssa.Instruction)
							}
							if k == healthy {
								for _, w := range c.writesOfField(stateF) {
									if outer(w.fn) == hcc && w.val != nil && resolve(w.val) == v && prevLoad != nil && prevLoad.Parent() == w.fn && dominates(prevLoad, w.instr) {
										isNew = true
									}
								}
							}
						}
					}
				}
				if prevLoad != nil && isNew {
					ok = true
					how = "on the observed transition: state read == adding and the state stored after it == healthy"
				}
			}
			c.ob(rule, "close(becameHealthy) in "+fname(outer(fn)), cs.pos(), okOwner && ok, true,
				"becameHealthy may be closed only in HealthCheckCompleted, under success==true and state==adding (hence at most once per target): "+how)
		}
	}
	c.ob(rule, "close(becameHealthy)/exists", hcc.Pos(), nclose >= 1, false, "waiters must be released somewhere")
	// Target.WaitUntilHealthy returns true only on the becameHealthy arm
	wfn := c.method("Target", "WaitUntilHealthy")
	sels := selectsIn(wfn)
	if len(sels) != 1 {
		c.undecided(rule, "Target.WaitUntilHealthy/select", wfn.Pos(), fmt.Sprintf("expected one select, found %d", len(sels)))
		return
	}
	sel := sels[0]
	for _, ret := range normalReturns(wfn) {
		b, isConst := constBool(retVal(ret, 0))
		if !isConst {
			c.undecided(rule, "Target.WaitUntilHealthy/return", ret.Pos(), "non-constant result (unrecognised form)")
			continue
		}
		if !b {
			continue
		}
		arm, known := selectArm(ret, sel)
		ok := known && arm < len(sel.States) && sel.States[arm].Dir == types.RecvOnly && isLoadOfField(sel.States[arm].Chan, bh)
		c.ob(rule, "Target.WaitUntilHealthy/true-only-on-becameHealthy", ret.Pos(), ok, true, "the per-target wait may report success only on the arm receiving from becameHealthy")
	}
}

// isConstructorLit: the store initialises a field of a freshly allocated object.
func isConstructorLit(st *ssa.Store) bool {
	_, base, ok := fieldOfAddr(st.Addr)
	if !ok {
		return false
	}
	_, isAlloc := base.(*ssa.Alloc)
	return isAlloc
}

// R01.5 probe success <=> 2xx within timeout.
func r015(c *Ctx) {
	const rule = "R01.5 probe-success-is-2xx-within-timeout"
	c.floor(rule, 4)
	fn := c.method("HealthCheck", "check")
	// where the verdict is handed to the consumer: consumer.HealthCheckCompleted(success) - the reporting helper of the
	// reference tree (reportResult) is always expanded into check (de-anchored), so that a reshaped or inlined helper
	// reads the same
	var verdicts []callSite
	for _, cs := range callsIn(fn) {
		if cs.common().IsInvoke() && cs.common().Method.Name() == "HealthCheckCompleted" && len(cs.common().Args) == 1 {
			verdicts = append(verdicts, cs)
		}
	}
	var doCalls []*ssa.Call
	for _, cs := range callsIn(fn) {
		if n := calleeName(cs.common()); n == "(*net/http.Client).Do" {
			if call, ok := cs.instr.(*ssa.Call); ok {
				doCalls = append(doCalls, call)
			}
		}
	}
	if len(doCalls) != 1 {
		c.undecided(rule, "check/http-call", fn.Pos(), fmt.Sprintf("expected one (*http.Client).Do call, found %d", len(doCalls)))
		return
	}
	do := doCalls[0]
	doErr := errResultOf(do)
	isStatus := func(v ssa.Value) bool {
		chain, _ := fieldPath(v)
		return len(chain) >= 1 && chain[len(chain)-1].Name() == "StatusCode" && chain[len(chain)-1].Pkg() != nil && chain[len(chain)-1].Pkg().Path() == "net/http"
	}
	nTrue := 0
	for _, cs := range verdicts {
		// the ways this call can report success, each with the conditions known on that way: a constant true, or
		// `x == nil` for an error x that is a merge of nil / freshly made errors (an inlined "statusError(code)" helper)
		type succCase struct{ conds []condEdge }
		var trueCases []succCase
		arg := resolve(cs.common().Args[0])
		if b, isConst := constBool(arg); isConst {
			if b {
				trueCases = append(trueCases, succCase{dominatingConds(cs.instr.Block())})
			}
		} else {
			decided := false
			if bo, ok := arg.(*ssa.BinOp); ok && (bo.Op == token.EQL || bo.Op == token.NEQ) {
				x := bo.X
				if isNilConst(x) {
					x = bo.Y
				} else if !isNilConst(bo.Y) {
					x = nil
				}
				if x != nil && isErrorType(x.Type()) {
					decided = true
					for _, vc := range valueCases(x, cs.instr.Block()) {
						isNil, nonNil := isNilConst(vc.val), producesNonNilError(vc.val)
						if !isNil && !nonNil {
							isNil, nonNil = nilKnowledgeOf(vc.conds, sameAs(vc.val))
						}
						switch {
						case isNil == nonNil:
							decided = false
						case isNil == (bo.Op == token.EQL):
							trueCases = append(trueCases, succCase{vc.conds})
						}
					}
				}
			}
			if !decided {
				c.undecided(rule, "check/reportResult-arg", cs.pos(), "non-constant success argument (unrecognised form)")
				continue
			}
		}
		for _, tc := range trueCases {
			nTrue++
			isNil := false
			if doErr != nil {
				isNil, _ = nilKnowledgeOf(tc.conds, sameAs(doErr))
			}
			c.ob(rule, "check/success-requires-no-transport-error", cs.pos(), isNil, true, "reportResult(true) must be on the nil-error branch of http.Client.Do")
			lo, hi, _ := interval(intFactsOf(tc.conds, isStatus))
			c.ob(rule, "check/success-status-interval", cs.pos(), lo == 200 && hi == 299, true,
				fmt.Sprintf("status codes for which success is reported: [%s,%s]; must be exactly [200,299]", boundStr(lo), boundStr(hi)))
		}
	}
	c.ob(rule, "check/reports-success-somewhere", fn.Pos(), nTrue >= 1, false, "")
	// the configured probe timeout / interval reach the right slots
	nhc := c.fn("NewHealthCheck")
	c.argsFromFields(rule, nhc, map[string]string{"interval": "Interval", "timeout": "Timeout"})
	c.paramsToFields(rule, nhc, "HealthCheck", map[string]string{"interval": "interval", "timeout": "timeout", "consumer": "consumer", "endpoint": "endpoint"})
	// the request is bounded by context.WithTimeout(hc.ctx, hc.timeout)
	ctxF, toF := c.field("HealthCheck", "ctx"), c.field("HealthCheck", "timeout")
	var wt *ssa.Call
	for _, cs := range callsToName(fn, "context.WithTimeout") {
		if call, ok := cs.instr.(*ssa.Call); ok && isLoadOfField(call.Call.Args[0], ctxF) && isLoadOfField(call.Call.Args[1], toF) {
			wt = call
		}
	}
	c.ob(rule, "check/timeout-context", fn.Pos(), wt != nil, true, "the probe must run under context.WithTimeout(hc.ctx, hc.timeout)")
	if wt != nil {
		ok := false
		for _, cs := range callsToName(fn, "net/http.NewRequestWithContext") {
			if resultOf(wt, 0) != nil && cs.common().Args[0] == resultOf(wt, 0) {
				// and this request is the one sent
				if call, ok2 := cs.instr.(*ssa.Call); ok2 && nonNilSource(do.Call.Args[1]) == resultOf(call, 0) {
					ok = true
				}
			}
		}
		c.ob(rule, "check/request-uses-timeout-context", wt.Pos(), ok, true, "the request passed to Do must be built with that timeout context")
	}
}

// argsFromFields: at every call of callee in fn, the argument for each named
// parameter must be a load of the field with the given name (guards against
// swapping same-typed arguments, which compiles).
func (c *Ctx) argsFromFields(rule string, callee *ssa.Function, want map[string]string) {
	n := 0
	for _, u := range c.usesOfFunc(callee) {
		call, ok := u.instr.(ssa.CallInstruction)
		if !ok || u.kind == "value" {
			continue
		}
		n++
		for i, p := range callee.Params {
			fieldName, ok := want[p.Name()]
			if !ok {
				continue
			}
			chain, _ := fieldPath(resolve(call.Common().Args[i]))
			got := "<not a field>"
			if len(chain) > 0 {
				got = chain[len(chain)-1].Name()
			}
			// passed through unchanged by a function that receives it under the field's name and whose own callers feed
			// that parameter from the field (one constructor building on another)
			if pp, isParam := resolve(call.Common().Args[i]).(*ssa.Parameter); isParam && got != fieldName {
				encl := outer(u.in)
				if w, subject := want[pp.Name()]; subject && w == fieldName && pp.Parent() == encl && encl != callee {
					through, nUp := true, 0
					for _, up := range c.usesOfFunc(encl) {
						uc, ok := up.instr.(ssa.CallInstruction)
						if !ok || up.kind == "value" {
							through = false
							continue
						}
						nUp++
						for j, ep := range encl.Params {
							if ep == pp {
								ch, _ := fieldPath(resolve(uc.Common().Args[j]))
								if len(ch) == 0 || ch[len(ch)-1].Name() != fieldName {
									through = false
								}
							}
						}
					}
					if through && nUp >= 1 {
						got = fieldName
					}
				}
			}
			c.ob(rule, fmt.Sprintf("%s(%s:) in %s", callee.Name(), p.Name(), fname(outer(u.in))), u.instr.Pos(), got == fieldName, true,
				fmt.Sprintf("parameter %q must be fed from field %q, got %q", p.Name(), fieldName, got))
		}
	}
	c.ob(rule, callee.Name()+"/has-call-site", callee.Pos(), n >= 1, false, "")
}

// paramsToFields: in constructor fn, the composite literal's field must be initialised from the parameter of the given name.
func (c *Ctx) paramsToFields(rule string, fn *ssa.Function, typ string, want map[string]string) {
	for field, param := range want {
		fv := c.field(typ, field)
		ok := false
		for _, w := range c.writesOfField(fv) {
			if w.fn != fn {
				continue
			}
			for _, p := range fn.Params {
				if p.Name() == param && resolve(w.val) == ssa.Value(p) {
					ok = true
				}
			}
		}
		// ... or hands the parameter to another constructor that stores its like-named parameter in the field
		if !ok {
			for _, cs := range callsIn(fn) {
				g := cs.common().StaticCallee()
				if g == nil || g == fn || g.Blocks == nil {
					continue
				}
				for j, gp := range g.Params {
					if gp.Name() != param || j >= len(cs.common().Args) {
						continue
					}
					pp, isParam := resolve(cs.common().Args[j]).(*ssa.Parameter)
					if !isParam || pp.Parent() != fn || pp.Name() != param {
						continue
					}
					for _, w := range c.writesOfField(fv) {
						if w.fn == g && resolve(w.val) == ssa.Value(gp) {
							ok = true
						}
					}
				}
			}
		}
		c.ob(rule, fmt.Sprintf("%s/%s.%s<-param %s", fn.Name(), typ, field, param), fn.Pos(), ok, true, "constructor must initialise the field from the like-named parameter")
	}
}

func boundStr(v int64) string {
	if v <= negInf {
		return "-inf"
	}
	if v >= posInf {
		return "+inf"
	}
	return fmt.Sprint(v)
}

// R01.6 rotation is a subset of healthy targets; claims come from the rotation.
func r016n(c *Ctx, rule string) {
	c.floor(rule, 5)
	healthyF := c.field("LoadBalancer", "healthy")
	healthy := c.enumVal(c.server, "TargetStateHealthy")
	stateFn := c.method("Target", "State")
	uht := c.method("LoadBalancer", "updateHealthyTargets")
	for _, w := range c.writesOfField(healthyF) {
		st, ok := w.instr.(*ssa.Store)
		if !ok {
			c.ob(rule, "write LoadBalancer.healthy/"+w.how, w.instr.Pos(), false, false, "unexpected non-store write")
			continue
		}
		of := fname(outer(w.fn))
		// empty literal: slice of a zero-length array alloc
		if isEmptySliceLit(st.Val) {
			c.ob(rule, "write LoadBalancer.healthy (empty) in "+of, st.Pos(), true, false, "reset to the empty list")
			continue
		}
		if outer(w.fn) != uht {
			c.ob(rule, "write LoadBalancer.healthy in "+of, st.Pos(), false, false, "only updateHealthyTargets may fill the rotation")
			continue
		}
		// the list stored is built only from the empty list by appending targets tested State()==healthy at that point
		// (directly into lb.healthy, or into a local list that is stored afterwards)
		elemGuarded := func(e ssa.Value, at *ssa.BasicBlock) bool {
			for _, f := range dominatingConds(at) {
				cm, ok := asCmp(f.cond, f.taken)
				if !ok || cm.op != token.EQL {
					continue
				}
				for _, pair := range [][2]ssa.Value{{cm.x, cm.y}, {cm.y, cm.x}} {
					call, ok := pair[0].(*ssa.Call)
					if ok && isCallTo(call.Common(), stateFn) && call.Call.Args[0] == e {
						if k, ok := constInt(pair[1]); ok && k == healthy {
							return true
						}
					}
				}
			}
			return false
		}
		seen := map[ssa.Value]bool{}
		unknown := false
		var healthyOnly func(v ssa.Value) bool
		healthyOnly = func(v ssa.Value) bool {
			if seen[v] {
				return true
			}
			seen[v] = true
			if isEmptySliceLit(v) || isNilConst(v) || isLoadOfField(v, healthyF) {
				return true
			}
			switch x := v.(type) {
			case *ssa.Phi:
				for _, e := range x.Edges {
					if !healthyOnly(e) {
						return false
					}
				}
				return true
			case *ssa.ChangeType:
				return healthyOnly(x.X)
			case *ssa.Call:
				if b, isB := x.Call.Value.(*ssa.Builtin); isB && b.Name() == "append" {
					if !healthyOnly(x.Call.Args[0]) {
						return false
					}
					elems := appendedElems(x)
					if len(elems) == 0 {
						return false
					}
					for _, e := range elems {
						if !elemGuarded(e, x.Block()) {
							return false
						}
					}
					return true
				}
			}
			unknown = true
			return false
		}
		okAll := healthyOnly(st.Val)
		if !okAll && unknown {
			c.undecided(rule, "updateHealthyTargets/fill", st.Pos(), "rotation filled by something other than the empty list / append(list, target) (unrecognised form)")
			continue
		}
		c.ob(rule, "updateHealthyTargets/append-guarded-by-State()==healthy", st.Pos(), okAll, true, "each appended target must be tested State()==TargetStateHealthy on the dominating branch")
	}
	// claimTarget starts the request on nil-checked lb.healthy[i] and nothing else (the selection helper of the reference
	// tree, nextTarget, is de-anchored: always expanded into claimTarget)
	ct := c.method("LoadBalancer", "claimTarget")
	sr := c.method("Target", "StartRequest")
	for _, cs := range callsTo(ct, sr) {
		recv := cs.common().Args[0]
		okSrc, nSrc := true, 0
		for _, src := range phiSources(recv) {
			if isNilConst(src) {
				continue
			}
			nSrc++
			u, isU := src.(*ssa.UnOp)
			if !isU || u.Op != token.MUL {
				okSrc = false
				continue
			}
			if ia, isIA := u.X.(*ssa.IndexAddr); !isIA || !isLoadOfField(ia.X, healthyF) {
				okSrc = false
			}
		}
		c.ob(rule, "claimTarget/target-is-an-element-of-the-rotation", cs.pos(), okSrc && nSrc >= 1, true, "the claimed target must be lb.healthy[i]")
		_, nonNil := nilKnowledge(cs.instr, sameAs(recv))
		mayBeNil := false
		for _, src := range phiSources(recv) {
			if isNilConst(src) {
				mayBeNil = true
			}
		}
		c.ob(rule, "claimTarget/nil-target-not-used", cs.pos(), nonNil || !mayBeNil, true, "StartRequest must be on the non-nil branch (when 'no target' is represented by nil)")
	}
	for _, u := range c.usesOfFunc(sr) {
		o := fname(outer(u.in))
		c.ob(rule, "call Target.StartRequest <- "+o, u.instr.Pos(), o == "(*server.LoadBalancer).claimTarget", false, "requests may be started on a target only through claimTarget")
	}
	// SendRequest only from LoadBalancer.ServeHTTP on the claimed target
	send := c.method("Target", "SendRequest")
	for _, u := range c.usesOfFunc(send) {
		o := fname(outer(u.in))
		c.ob(rule, "call Target.SendRequest <- "+o, u.instr.Pos(), o == "(*server.LoadBalancer).ServeHTTP", false, "requests are sent only by LoadBalancer.ServeHTTP")
	}
}

func isEmptySliceLit(v ssa.Value) bool {
	// make(T, 0, n) (possibly converted to a named slice type): an empty list with room to grow
	if ms, isMake := stripConv(v).(*ssa.MakeSlice); isMake {
		if k, isK := constInt(ms.Len); isK && k == 0 {
			return true
		}
	}
	sl, ok := v.(*ssa.Slice)
	if !ok {
		if k, ok := v.(*ssa.Const); ok && k.Value == nil {
			return true
		}
		return false
	}
	a, ok := sl.X.(*ssa.Alloc)
	if !ok {
		return false
	}
	p, ok := a.Type().Underlying().(*types.Pointer)
	if !ok {
		return false
	}
	arr, ok := p.Elem().Underlying().(*types.Array)
	if ok && arr.Len() == 0 {
		return true
	}
	// make(T, 0, <constant>): a fresh array sliced [:0]
	if ok && sl.High != nil && a.Comment == "makeslice" {
		if k, isK := constInt(sl.High); isK && k == 0 {
			return true
		}
	}
	return false
}

// appendedElems: for append(s, e1, e2...) built from a varargs array, the element values.
func appendedElems(app *ssa.Call) []ssa.Value {
	if len(app.Call.Args) != 2 {
		return nil
	}
	sl, ok := app.Call.Args[1].(*ssa.Slice)
	if !ok {
		return nil
	}
	a, ok := sl.X.(*ssa.Alloc)
	if !ok {
		return nil
	}
	var out []ssa.Value
	for _, r := range *a.Referrers() {
		ia, ok := r.(*ssa.IndexAddr)
		if !ok {
			continue
		}
		for _, rr := range *ia.Referrers() {
			if st, ok := rr.(*ssa.Store); ok && st.Addr == ia {
				out = append(out, st.Val)
			}
		}
	}
	return out
}

var _ = strings.Contains

// R01.7: the commands built on the deploy routine report its failure unchanged.
func r017(c *Ctx, rule string) {
	c.floor(rule, 4)
	dep := c.method("Router", "deployTargetsIntoService")
	for _, name := range []string{"DeployService", "SetRolloutTargets"} {
		fn := c.method("Router", name)
		cs := callsTo(fn, dep)
		if len(cs) != 1 {
			c.undecided(rule, "Router."+name+"/shape", fn.Pos(), "expected one deployTargetsIntoService call")
			continue
		}
		call, ok := cs[0].instr.(*ssa.Call)
		if !ok {
			c.ob(rule, "Router."+name+"/deploy-is-synchronous", cs[0].pos(), false, true, "")
			continue
		}
		okErr := false
		for _, ret := range normalReturns(fn) {
			if _, failed := nilKnowledge(ret, sameAs(call)); failed {
				okErr = lastRet(ret) == ssa.Value(call)
				if !okErr {
					break
				}
			}
		}
		if !okErr {
			// (`if err == nil { log }; return err`: every way out after the call returns the call's error, or the error
			// is known to be nil there)
			if paths, complete := enumPathsX(fn, func(*ssa.Return) bool { return true }, 4000); complete {
				n, good := 0, 0
				for _, pth := range paths {
					if pth.ret == nil || !pth.passes(func(in ssa.Instruction) bool { return in == ssa.Instruction(call) }) {
						continue
					}
					n++
					isNil, _ := nilKnowledgeOf(pth.conds, sameAs(call))
					if pth.pathValue(lastRet(pth.ret)) == ssa.Value(call) || isNil {
						good++
					}
				}
				okErr = n > 0 && good == n
			}
		}
		c.ob(rule, "Router."+name+"/returns-the-deploy-error", fn.Pos(), okErr, true, "when the deploy routine fails (unhealthy targets, host conflict) the command must return that error")
		// success only when the deploy routine succeeded
		okNil := true
		for _, ret := range normalReturns(fn) {
			if isNilConst(lastRet(ret)) {
				if isNil, _ := nilKnowledge(ret, sameAs(call)); !isNil {
					okNil = false
				}
			}
		}
		c.ob(rule, "Router."+name+"/success-only-after-successful-deploy", fn.Pos(), okNil, true, "")
		// no deferred closure rewrites the result
		rewrites := false
		for _, cl := range fn.AnonFuncs {
			for _, b := range cl.Blocks {
				for _, in := range b.Instrs {
					if st, ok := in.(*ssa.Store); ok {
						if a := cellOfAddr(st.Addr); a != nil && a.Parent() == fn && isErrorType(a.Type().Underlying().(*types.Pointer).Elem()) {
							rewrites = true
						}
					}
				}
			}
		}
		c.ob(rule, "Router."+name+"/result-not-rewritten-by-closures", fn.Pos(), !rewrites, true, "a deferred closure assigning the named error result can replace the deploy failure with nil")
	}
	// the RPC handlers return the router's result (shared with C20)
	for _, pair := range [][2]string{{"Deploy", "DeployService"}, {"RolloutDeploy", "SetRolloutTargets"}} {
		h := c.method("CommandHandler", pair[0])
		ok := false
		for _, ret := range normalReturns(h) {
			if call, isC := lastRet(ret).(*ssa.Call); isC && isCallTo(call.Common(), c.method("Router", pair[1])) {
				ok = true
			}
		}
		c.ob(rule, "CommandHandler."+pair[0]+"/returns-router-error", h.Pos(), ok, true, "")
	}
}

// sameBalancer: v is the balancer made by the NewLoadBalancer call nb - directly, or merged with the nil a helper that
// builds-and-gates it returns on its failing ways (`lb, err := newHealthyLoadBalancer(...)` expanded in place).
func sameBalancer(v ssa.Value, nb *ssa.Call) bool {
	if nb == nil {
		return false
	}
	r := resolve(v)
	return r == ssa.Value(nb) || nonNilSource(r) == ssa.Value(nb)
}
