package main

import (
	"fmt"
	"go/constant"
	"go/token"
	"go/types"
	"sort"
	"strings"

	"golang.org/x/tools/go/ssa"
)

// A small abstract interpreter over go/ssa for objects with a finite control
// state (E5).  It executes the methods of one receiver type on an abstract
// object whose fields hold abstract values; integers/bools/enum constants are
// tracked precisely, channels by identity and open/closed status, everything
// else by opaque tokens.  Branches whose condition is not determined fork.
// Sibling methods on the same receiver are inlined.  It is used to extract
// the transition system of PauseController from its current source.

type aKind int

const (
	kUnknown aKind = iota
	kInt
	kBool
	kNil
	kChan
	kRecv
	kFieldAddr
	kCellAddr
	kTok
	kTuple
)

type aVal struct {
	k    aKind
	i    int64
	b    bool
	f    *types.Var
	cell *ssa.Alloc
	tok  string
	tup  []aVal
}

func (v aVal) String() string {
	switch v.k {
	case kInt:
		return fmt.Sprint(v.i)
	case kBool:
		return fmt.Sprint(v.b)
	case kNil:
		return "nil"
	case kChan:
		return fmt.Sprintf("chan#%d", v.i)
	case kTok:
		return "tok:" + v.tok
	case kRecv:
		return "recv"
	}
	return "?"
}

type aObj struct {
	fields map[*types.Var]aVal
	chans  map[int64]string // "open" | "closed"
	nextCh int64
	events []string // would-be panics
	trace  []string
}

func (o *aObj) clone() *aObj {
	n := &aObj{fields: map[*types.Var]aVal{}, chans: map[int64]string{}, nextCh: o.nextCh}
	for k, v := range o.fields {
		n.fields[k] = v
	}
	for k, v := range o.chans {
		n.chans[k] = v
	}
	n.events = append([]string{}, o.events...)
	n.trace = append([]string{}, o.trace...)
	return n
}

type aFrame struct {
	regs  map[ssa.Value]aVal
	cells map[*ssa.Alloc]aVal
	defers []*ssa.Defer
}

func (f *aFrame) clone() *aFrame {
	n := &aFrame{regs: map[ssa.Value]aVal{}, cells: map[*ssa.Alloc]aVal{}}
	for k, v := range f.regs {
		n.regs[k] = v
	}
	for k, v := range f.cells {
		n.cells[k] = v
	}
	n.defers = append([]*ssa.Defer{}, f.defers...)
	return n
}

type aOutcome struct {
	ret []aVal
	obj *aObj
}

type absInterp struct {
	c        *Ctx
	recvType *types.Named
	steps    int
	bail     string // non-empty: unsupported construct encountered
	decode   func(obj *aObj) []*aObj // models json.Unmarshal into the receiver
}

func zeroOf(t types.Type) aVal {
	switch u := t.Underlying().(type) {
	case *types.Basic:
		switch {
		case u.Info()&types.IsInteger != 0:
			return aVal{k: kInt, i: 0}
		case u.Info()&types.IsBoolean != 0:
			return aVal{k: kBool}
		case u.Info()&types.IsString != 0:
			return aVal{k: kTok, tok: `""`}
		}
	case *types.Chan, *types.Pointer, *types.Map, *types.Slice, *types.Interface, *types.Signature:
		return aVal{k: kNil}
	}
	return aVal{k: kUnknown}
}

func (ai *absInterp) field(obj *aObj, f *types.Var) aVal {
	if v, ok := obj.fields[f]; ok {
		return v
	}
	return zeroOf(f.Type())
}

func (ai *absInterp) eval(fr *aFrame, v ssa.Value) aVal {
	switch x := v.(type) {
	case *ssa.Const:
		if x.Value == nil {
			return aVal{k: kNil}
		}
		switch x.Value.Kind() {
		case constant.Int:
			n, _ := constant.Int64Val(x.Value)
			return aVal{k: kInt, i: n}
		case constant.Bool:
			return aVal{k: kBool, b: constant.BoolVal(x.Value)}
		case constant.String:
			return aVal{k: kTok, tok: fmt.Sprintf("%q", constant.StringVal(x.Value))}
		}
		return aVal{k: kUnknown}
	}
	if r, ok := fr.regs[v]; ok {
		return r
	}
	return aVal{k: kUnknown}
}

func (ai *absInterp) isRecvPtr(t types.Type) bool {
	p, ok := t.Underlying().(*types.Pointer)
	if !ok {
		return false
	}
	n, ok := p.Elem().(*types.Named)
	return ok && n.Obj() == ai.recvType.Obj()
}

// call executes fn with the given arguments on obj; returns all outcomes.
func (ai *absInterp) call(fn *ssa.Function, args []aVal, obj *aObj, depth int) []aOutcome {
	if depth > 8 {
		ai.bail = "inlining depth exceeded in " + fn.Name()
		return nil
	}
	fr := &aFrame{regs: map[ssa.Value]aVal{}, cells: map[*ssa.Alloc]aVal{}}
	for i, p := range fn.Params {
		if i < len(args) {
			fr.regs[p] = args[i]
		}
	}
	return ai.runBlock(fn, fn.Blocks[0], nil, 0, fr, obj, depth)
}

func (ai *absInterp) runBlock(fn *ssa.Function, b, prev *ssa.BasicBlock, start int, fr *aFrame, obj *aObj, depth int) []aOutcome {
	for i := start; i < len(b.Instrs); i++ {
		ai.steps++
		if ai.steps > 200000 {
			ai.bail = "step limit exceeded (loop?) in " + fn.Name()
			return nil
		}
		switch in := b.Instrs[i].(type) {
		case *ssa.Phi:
			for j, p := range b.Preds {
				if p == prev {
					fr.regs[in] = ai.eval(fr, in.Edges[j])
				}
			}
		case *ssa.Alloc:
			if ai.isRecvPtr(in.Type()) {
				fr.regs[in] = aVal{k: kRecv}
			} else {
				fr.regs[in] = aVal{k: kCellAddr, cell: in}
				fr.cells[in] = zeroOf(in.Type().Underlying().(*types.Pointer).Elem())
			}
		case *ssa.FieldAddr:
			if ai.eval(fr, in.X).k == kRecv {
				st := derefStruct(in.X.Type())
				fr.regs[in] = aVal{k: kFieldAddr, f: st.Field(in.Field)}
			} else {
				fr.regs[in] = aVal{k: kUnknown}
			}
		case *ssa.UnOp:
			x := ai.eval(fr, in.X)
			switch in.Op {
			case token.MUL:
				switch x.k {
				case kFieldAddr:
					fr.regs[in] = ai.field(obj, x.f)
				case kCellAddr:
					fr.regs[in] = fr.cells[x.cell]
				default:
					fr.regs[in] = aVal{k: kUnknown}
				}
			case token.NOT:
				if x.k == kBool {
					fr.regs[in] = aVal{k: kBool, b: !x.b}
				} else {
					fr.regs[in] = aVal{k: kUnknown}
				}
			default:
				fr.regs[in] = aVal{k: kUnknown}
			}
		case *ssa.Store:
			a := ai.eval(fr, in.Addr)
			v := ai.eval(fr, in.Val)
			switch a.k {
			case kFieldAddr:
				obj.fields[a.f] = v
			case kCellAddr:
				fr.cells[a.cell] = v
			}
		case *ssa.BinOp:
			fr.regs[in] = ai.binop(in.Op, ai.eval(fr, in.X), ai.eval(fr, in.Y))
		case *ssa.MakeChan:
			obj.nextCh++
			obj.chans[obj.nextCh] = "open"
			fr.regs[in] = aVal{k: kChan, i: obj.nextCh}
		case *ssa.ChangeType:
			fr.regs[in] = ai.eval(fr, in.X)
		case *ssa.Convert:
			fr.regs[in] = ai.eval(fr, in.X)
		case *ssa.MakeInterface:
			fr.regs[in] = ai.eval(fr, in.X)
		case *ssa.ChangeInterface:
			fr.regs[in] = ai.eval(fr, in.X)
		case *ssa.Extract:
			t := ai.eval(fr, in.Tuple)
			if t.k == kTuple && in.Index < len(t.tup) {
				fr.regs[in] = t.tup[in.Index]
			} else {
				fr.regs[in] = aVal{k: kUnknown}
			}
		case *ssa.Defer:
			if _, isLock := lockOpOf(in.Common()); !isLock {
				fr.defers = append(fr.defers, in)
			}
		case *ssa.RunDefers:
			outs := []aOutcome{{nil, obj}}
			for j := len(fr.defers) - 1; j >= 0; j-- {
				d := fr.defers[j]
				var next []aOutcome
				for _, o := range outs {
					next = append(next, ai.doCall(fn, d.Common(), fr, o.obj, depth)...)
				}
				outs = next
			}
			fr.defers = nil
			if len(outs) != 1 {
				var res []aOutcome
				for _, o := range outs {
					res = append(res, ai.runBlock(fn, b, prev, i+1, fr.clone(), o.obj, depth)...)
				}
				return res
			}
			obj = outs[0].obj
		case *ssa.Call:
			outs := ai.doCall(fn, in.Common(), fr, obj, depth)
			if ai.bail != "" {
				return nil
			}
			if len(outs) == 1 {
				obj = outs[0].obj
				fr.regs[in] = tupleOrSingle(outs[0].ret)
				continue
			}
			var res []aOutcome
			for _, o := range outs {
				nfr := fr.clone()
				nfr.regs[in] = tupleOrSingle(o.ret)
				res = append(res, ai.runBlock(fn, b, prev, i+1, nfr, o.obj, depth)...)
			}
			return res
		case *ssa.If:
			cv := ai.eval(fr, in.Cond)
			if cv.k == kBool {
				s := b.Succs[1]
				if cv.b {
					s = b.Succs[0]
				}
				return ai.runBlock(fn, s, b, 0, fr, obj, depth)
			}
			r1 := ai.runBlock(fn, b.Succs[0], b, 0, fr.clone(), obj.clone(), depth)
			r2 := ai.runBlock(fn, b.Succs[1], b, 0, fr, obj, depth)
			return append(r1, r2...)
		case *ssa.Jump:
			return ai.runBlock(fn, b.Succs[0], b, 0, fr, obj, depth)
		case *ssa.Return:
			var ret []aVal
			for _, r := range in.Results {
				ret = append(ret, ai.eval(fr, r))
			}
			return []aOutcome{{ret, obj}}
		case *ssa.Panic:
			obj.events = append(obj.events, "explicit panic in "+fn.Name())
			return []aOutcome{{nil, obj}}
		case *ssa.Go:
			// not modelled
		case *ssa.DebugRef:
		default:
			if v, ok := in.(ssa.Value); ok {
				fr.regs[v] = aVal{k: kUnknown}
			}
			switch in.(type) {
			case *ssa.Select, *ssa.Range, *ssa.Next, *ssa.Send:
				ai.bail = fmt.Sprintf("unsupported instruction %T in %s", in, fn.Name())
				return nil
			}
		}
	}
	return nil
}

func tupleOrSingle(ret []aVal) aVal {
	if len(ret) == 1 {
		return ret[0]
	}
	return aVal{k: kTuple, tup: ret}
}

func (ai *absInterp) binop(op token.Token, x, y aVal) aVal {
	eq := func() (bool, bool) {
		switch {
		case x.k == kInt && y.k == kInt:
			return x.i == y.i, true
		case x.k == kBool && y.k == kBool:
			return x.b == y.b, true
		case x.k == kNil && y.k == kNil:
			return true, true
		case (x.k == kChan && y.k == kNil) || (x.k == kNil && y.k == kChan):
			return false, true
		case x.k == kChan && y.k == kChan:
			return x.i == y.i, true
		case x.k == kTok && y.k == kTok && x.tok == y.tok:
			return true, true
		}
		return false, false
	}
	switch op {
	case token.EQL:
		if r, ok := eq(); ok {
			return aVal{k: kBool, b: r}
		}
	case token.NEQ:
		if r, ok := eq(); ok {
			return aVal{k: kBool, b: !r}
		}
	case token.LSS, token.LEQ, token.GTR, token.GEQ:
		if x.k == kInt && y.k == kInt {
			var r bool
			switch op {
			case token.LSS:
				r = x.i < y.i
			case token.LEQ:
				r = x.i <= y.i
			case token.GTR:
				r = x.i > y.i
			case token.GEQ:
				r = x.i >= y.i
			}
			return aVal{k: kBool, b: r}
		}
	}
	return aVal{k: kUnknown}
}

func (ai *absInterp) doCall(fn *ssa.Function, cc *ssa.CallCommon, fr *aFrame, obj *aObj, depth int) []aOutcome {
	if b, ok := cc.Value.(*ssa.Builtin); ok {
		if b.Name() == "close" {
			v := ai.eval(fr, cc.Args[0])
			switch v.k {
			case kNil:
				obj.events = append(obj.events, "close of nil channel in "+fn.Name())
			case kChan:
				if obj.chans[v.i] == "closed" {
					obj.events = append(obj.events, "close of closed channel in "+fn.Name())
				}
				obj.chans[v.i] = "closed"
			default:
				obj.events = append(obj.events, "close of a channel of unknown status in "+fn.Name())
			}
		}
		return []aOutcome{{[]aVal{{k: kUnknown}}, obj}}
	}
	if _, isLock := lockOpOf(cc); isLock {
		return []aOutcome{{nil, obj}}
	}
	name := calleeName(cc)
	if name == "encoding/json.Unmarshal" && len(cc.Args) == 2 && ai.eval(fr, cc.Args[1]).k == kRecv && ai.decode != nil {
		var outs []aOutcome
		for _, o := range ai.decode(obj) {
			outs = append(outs, aOutcome{[]aVal{{k: kNil}}, o})
		}
		return outs
	}
	if sc := cc.StaticCallee(); sc != nil && sc.Blocks != nil && !cc.IsInvoke() {
		if rn := recvNamed(sc); rn != nil && rn.Obj() == ai.recvType.Obj() && len(cc.Args) > 0 && ai.eval(fr, cc.Args[0]).k == kRecv {
			var args []aVal
			for _, a := range cc.Args {
				args = append(args, ai.eval(fr, a))
			}
			return ai.call(sc, args, obj, depth+1)
		}
	}
	// unknown callee: result is an opaque token naming the callee (so time.After(x) etc. stay distinguishable)
	n := cc.Signature().Results().Len()
	ret := make([]aVal, n)
	for i := range ret {
		ret[i] = aVal{k: kTok, tok: name + "(...)"}
	}
	return []aOutcome{{ret, obj}}
}

// ---- PauseController model ----

type pcState struct {
	state   int64
	ch      string // nil | open | closed | unknown
	msg     string
	fail    string
	origin  string
}

func (s pcState) key() string { return fmt.Sprintf("%d|%s|%s|%s", s.state, s.ch, s.msg, s.fail) }

type pcModel struct {
	ai                        *absInterp
	stateF, chF, msgF, failF  *types.Var
	states                    map[string]pcState
	transitions               int
	running, paused, stopped  int64
}

func (m *pcModel) abstract(o *aObj, origin string) pcState {
	s := pcState{origin: origin}
	sv := m.ai.field(o, m.stateF)
	if sv.k == kInt {
		s.state = sv.i
	} else {
		s.state = -1
	}
	cv := m.ai.field(o, m.chF)
	switch cv.k {
	case kNil:
		s.ch = "nil"
	case kChan:
		s.ch = o.chans[cv.i]
	default:
		s.ch = "unknown"
	}
	s.msg = m.ai.field(o, m.msgF).String()
	s.fail = m.ai.field(o, m.failF).String()
	return s
}

func (m *pcModel) concretize(s pcState) *aObj {
	o := &aObj{fields: map[*types.Var]aVal{}, chans: map[int64]string{}}
	o.fields[m.stateF] = aVal{k: kInt, i: s.state}
	switch s.ch {
	case "nil":
		o.fields[m.chF] = aVal{k: kNil}
	case "open", "closed":
		o.nextCh = 1
		o.chans[1] = s.ch
		o.fields[m.chF] = aVal{k: kChan, i: 1}
	default:
		o.fields[m.chF] = aVal{k: kUnknown}
	}
	o.fields[m.msgF] = aVal{k: kTok, tok: strings.TrimPrefix(s.msg, "tok:")}
	o.fields[m.failF] = aVal{k: kTok, tok: strings.TrimPrefix(s.fail, "tok:")}
	return o
}

func sortedKeys[V any](m map[string]V) []string {
	out := make([]string, 0, len(m))
	for k := range m {
		out = append(out, k)
	}
	sort.Strings(out)
	return out
}
