package main

import (
	"fmt"
	"go/token"
	"go/types"
	"strings"

	"golang.org/x/tools/go/ssa"
)

func init() {
	register("C09", &propCheck{
		explain: "Decides the exclusion and refresh clauses structurally: (R09.1) the rotation is filled only with targets whose State()==healthy and claims come only from it; (R09.2) the probe callback compares states read under the target lock and notifies the balancer on every change, and the balancer rebuilds the rotation from ALL its targets; (R09.3) the extracted Target typestate contains healthy-(failed probe)->unhealthy and unhealthy-(successful probe)->healthy; (R09.4) an empty rotation is tested before the modulo and becomes ErrorNoHealthyTargets -> 503; (R09.5) rotation and cursor are only accessed under LoadBalancer.lock (lockset analysis); (R09.6) the probe loop probes once at start, then synchronously on every tick of a ticker built from the configured interval, until cancelled, and only removal / replacement / failed deploy dispose a balancer; (R09.7) the cursor advances by exactly one position of the healthy list per claim, wrapping at its length.",
		notDecided: []string{"the floor(n/k)/ceil(n/k) bound as arithmetic over all n,k (only the cursor-advance shape is decided)", "probe cadence as elapsed time"},
		run:        checkC09,
	})
}

func checkC09(c *Ctx) {
	r016n(c, "R09.1 rotation-subset-of-healthy")
	r092(c)
	r093(c)
	r094(c)
	r095(c)
	r096(c, "R09.6 probing-continues")
	r097(c)
	// the deploy routine disposes only what left service (shared with C02)
	r021(c, "R09.8 deploy-disposes-only-what-left-service")
	// ... and what left service is the occupant of the slot that was overwritten (shared with C02)
	rSlotSwap(c, "R09.9 replaced-balancer-is-the-slot's-previous-occupant")
	rRotationOnlyRefreshed(c, "R09.10 rotation-written-only-by-the-refresh")
	rDrainKeepsHealthVerdict(c, "R09.11 drain-keeps-the-health-verdict")
	// the balancer that was put in service is not disposed by the command that installed it (shared with C01)
	r011(c, "R09.12 health-gate-dominates-publication")
	rRefreshAlwaysPublishes(c, "R09.13 refresh-always-publishes")
}

func r092(c *Ctx) {
	const rule = "R09.2 every-health-transition-refreshes-rotation"
	c.floor(rule, 9)
	hcc := c.method("Target", "HealthCheckCompleted")
	stateF := c.field("Target", "state")
	consF := c.field("Target", "stateConsumer")
	lock := c.field("Target", "inflightLock")
	li := c.lockInfo()
	// the notification
	var notify ssa.Instruction
	for _, cs := range callsIn(hcc) {
		if cs.common().IsInvoke() && cs.common().Method.Name() == "TargetStateChanged" {
			notify = cs.instr
		}
	}
	if !c.ob(rule, "HealthCheckCompleted/notifies-consumer", hcc.Pos(), notify != nil, true, "the probe callback must call stateConsumer.TargetStateChanged") {
		return
	}
	// guarded only by newState != previousState and consumer != nil, where both states are readings of t.state taken
	// under the lock (held in a local, in a variable shared with the locked closure, or returned by a helper)
	var cmpOK, extra bool
	var sideA, sideB ssa.Value
	for _, ce := range dominatingConds(notify.Block()) {
		cm, ok := ce.asCmp()
		if !ok {
			extra = true
			continue
		}
		if cm.op == token.NEQ && (isNilConst(cm.x) || isNilConst(cm.y)) {
			v := cm.x
			if isNilConst(v) {
				v = cm.y
			}
			if isLoadOfField(v, consF) {
				continue
			}
			extra = true
			continue
		}
		if cm.op == token.NEQ && sideA == nil && cm.x != cm.y && types.Identical(cm.x.Type(), c.named("TargetState")) && types.Identical(cm.y.Type(), c.named("TargetState")) {
			if _, k1 := cm.x.(*ssa.Const); !k1 {
				if _, k2 := cm.y.(*ssa.Const); !k2 {
					cmpOK = true
					sideA, sideB = cm.x, cm.y
					continue
				}
			}
		}
		extra = true
	}
	c.ob(rule, "HealthCheckCompleted/notify-iff-state-changed", notify.Pos(), cmpOK && !extra, true, "the notification must be conditional only on 'state changed' (and a consumer being set)")
	if sideA != nil {
		var stateStores []ssa.Instruction
		for _, s := range c.targetStateStores() {
			if outer(s.fn) == hcc {
				dup := false
				for _, x := range stateStores {
					if x == ssa.Instruction(s.instr) {
						dup = true
					}
				}
				if !dup {
					stateStores = append(stateStores, s.instr)
				}
			}
		}
		// a reading of the state: a load of t.state, or the very value a state store writes (`t.state = v`): then v is
		// the state as of that store
		type reading struct {
			at     ssa.Instruction
			selfOf ssa.Instruction // the state store this reading coincides with, if any
		}
		allLocked := true
		var readingsOf func(v ssa.Value, at ssa.Instruction, depth int) []reading
		readingsOf = func(v ssa.Value, at ssa.Instruction, depth int) []reading {
			if depth > 6 {
				allLocked = false
				return nil
			}
			// a variable (possibly shared with a closure): every assignment to it
			if cell := cellOfLoad(v); cell != nil {
				var out []reading
				sts := storesToCell(cell)
				if len(sts) == 0 {
					allLocked = false
				}
				for _, st := range sts {
					// the variable's content is what a state store writes
					var via ssa.Instruction
					for _, ss := range stateStores {
						sst := ss.(*ssa.Store)
						if sst.Parent() == st.Parent() && cellOfLoad(sst.Val) == cell && dominates(st, sst) && li.holds(sst, lock, modeW) && li.holds(st, lock, modeW) {
							via = ss
						}
					}
					if via != nil {
						out = append(out, reading{at: via, selfOf: via})
						continue
					}
					out = append(out, readingsOf(st.Val, st, depth+1)...)
				}
				return out
			}
			if isLoadOfField(v, stateF) {
				in, _ := v.(ssa.Instruction)
				if in == nil {
					in = at
				}
				if !li.holds(in, lock, modeW) {
					allLocked = false
				}
				return []reading{{at: in}}
			}
			for _, ss := range stateStores {
				if sst := ss.(*ssa.Store); sst.Val == v {
					if !li.holds(sst, lock, modeW) {
						allLocked = false
					}
					return []reading{{at: ss, selfOf: ss}}
				}
			}
			if phi, ok := v.(*ssa.Phi); ok {
				var out []reading
				for _, e := range phi.Edges {
					out = append(out, readingsOf(e, phi, depth+1)...)
				}
				return out
			}
			allLocked = false
			return nil
		}
		rdA, rdB := readingsOf(sideA, notify, 0), readingsOf(sideB, notify, 0)
		c.ob(rule, "HealthCheckCompleted/both-readings-under-target-lock", notify.Pos(), allLocked && len(rdA) > 0 && len(rdB) > 0, true, "the 'before' and 'after' states compared for change detection must both be read from t.state (or be the very value stored into it) while holding inflightLock (a stale 'before' can hide a change and skip the refresh, and is a data race with Drain)")
		// one side is read before any state store, the other after all of them
		classify := func(rds []reading) string {
			before, after := true, true
			if len(rds) == 0 {
				return "none"
			}
			for _, rd := range rds {
				for _, ss := range stateStores {
					if rd.selfOf == ss {
						before = false // the value of this very store
						continue
					}
					if rd.at.Parent() != ss.Parent() {
						before, after = false, false
						continue
					}
					if _, r := reach(rd.at.Parent(), ss, func(in ssa.Instruction) bool { return in == rd.at }, nil); r {
						before = false // the reading can come after a state store
					}
					if _, r := reach(rd.at.Parent(), rd.at, func(in ssa.Instruction) bool { return in == ss }, nil); r {
						after = false // a state store can come after the reading
					}
				}
			}
			switch {
			case before && !after:
				return "before"
			case after && !before:
				return "after"
			}
			return "mixed"
		}
		k1, k2 := classify(rdA), classify(rdB)
		c.ob(rule, "HealthCheckCompleted/before-and-after-readings", notify.Pos(), (k1 == "before" && k2 == "after") || (k1 == "after" && k2 == "before"), true,
			fmt.Sprintf("one reading must precede every state store and the other follow every state store (got %s/%s)", k1, k2))
	}
	// consumer: LoadBalancer.TargetStateChanged -> updateHealthyTargets unconditionally
	tsc := c.method("LoadBalancer", "TargetStateChanged")
	uht := c.method("LoadBalancer", "updateHealthyTargets")
	_, skip := reach(tsc, nil, isReturn, func(in ssa.Instruction) bool { ci, ok := in.(*ssa.Call); return ok && isCallTo(ci.Common(), uht) })
	c.ob(rule, "LoadBalancer.TargetStateChanged/rebuilds-rotation", tsc.Pos(), !skip, true, "every notification must rebuild the rotation")
	// updateHealthyTargets ranges over lb.all completely
	allF := c.field("LoadBalancer", "all")
	stateFn := c.method("Target", "State")
	okAll := false
	for _, cs := range callsTo(uht, stateFn) {
		if s, full := fullRangeElem(cs.common().Args[0]); full && isLoadOfField(s, allF) {
			okAll = true
		}
	}
	c.ob(rule, "updateHealthyTargets/considers-all-targets", uht.Pos(), okAll, true, "the rebuild must test every element of lb.all")
	// registration: BeginHealthChecks stores its parameter as the consumer; beginHealthChecks registers lb on every target; constructor calls it
	bhc := c.method("Target", "BeginHealthChecks")
	okReg := false
	for _, w := range c.writesOfField(consF) {
		if w.fn == bhc && w.val == ssa.Value(bhc.Params[1]) {
			okReg = true
		}
	}
	c.ob(rule, "BeginHealthChecks/registers-consumer", bhc.Pos(), okReg, true, "")
	// the constructor registers the new balancer as the consumer of every one of its targets, on every path (the helper
	// of the reference tree, beginHealthChecks, is de-anchored: always expanded into NewLoadBalancer)
	nlb := c.fn("NewLoadBalancer")
	okEach := false
	var reg ssa.Instruction
	for _, cs := range callsTo(nlb, bhc) {
		s, full := fullRangeElem(cs.common().Args[0])
		if !full {
			continue
		}
		// the list ranged over is the new balancer's `all` (or the constructor's parameter it was initialised from)
		listOK := isLoadOfField(s, allF) || resolve(s) == ssa.Value(nlb.Params[0])
		if mi, ok := cs.common().Args[1].(*ssa.MakeInterface); ok && listOK {
			if a, isAlloc := resolve(mi.X).(*ssa.Alloc); isAlloc && strings.HasSuffix(typeString(a.Type()), ".LoadBalancer") {
				okEach = true
				reg = cs.instr
			}
		}
	}
	c.ob(rule, "beginHealthChecks/every-target-reports-to-this-balancer", nlb.Pos(), okEach, true, "")
	skipB := true
	if reg != nil {
		// the registration loop is entered on every path to the return
		hdr := loopNext(reg)
		if hdr == nil {
			// index-based range: the loop header is the block of the bound test dominating the call
			_, skipB = reach(nlb, nil, isReturn, func(in ssa.Instruction) bool { return in.Block() == reg.Block().Idom() && in == in.Block().Instrs[0] })
		} else {
			_, skipB = reach(nlb, nil, isReturn, func(in ssa.Instruction) bool { return in == ssa.Instruction(hdr) })
		}
	}
	c.ob(rule, "NewLoadBalancer/starts-health-checks", nlb.Pos(), !skipB, true, "")
	// MarkAllHealthy refreshes after updating
	mah := c.method("LoadBalancer", "MarkAllHealthy")
	_, skipM := reach(mah, nil, isReturn, func(in ssa.Instruction) bool { ci, ok := in.(*ssa.Call); return ok && isCallTo(ci.Common(), uht) })
	c.ob(rule, "MarkAllHealthy/refreshes-rotation", mah.Pos(), !skipM, true, "")
}

func r093(c *Ctx) {
	const rule = "R09.3 failed-probe-demotes-success-restores"
	c.floor(rule, 2)
	hcc := c.method("Target", "HealthCheckCompleted")
	healthy, unhealthy := c.enumVal(c.server, "TargetStateHealthy"), c.enumVal(c.server, "TargetStateUnhealthy")
	adding, draining := c.enumVal(c.server, "TargetStateAdding"), c.enumVal(c.server, "TargetStateDraining")
	var demote, restore bool
	for _, s := range c.targetStateStores() {
		if outer(s.fn) != hcc || !s.constVal {
			continue
		}
		has := func(xs []int64, k int64) bool {
			for _, x := range xs {
				if x == k {
					return true
				}
			}
			return false
		}
		// conditions other than tests of `success` and of t.state make the transition partial
		extra := 0
		stateF := c.field("Target", "state")
		for _, ce := range dominatingConds(s.instr.Block()) {
			v := ce.cond
			for {
				if u, ok := v.(*ssa.UnOp); ok && u.Op == token.NOT {
					v = u.X
					continue
				}
				break
			}
			isSuccess := func(x ssa.Value) bool {
				for _, p := range hcc.Params {
					if p.Name() == "success" && resolve(x) == ssa.Value(p) {
						return true
					}
				}
				return false
			}
			if isSuccess(v) {
				continue
			}
			if bo, ok := v.(*ssa.BinOp); ok && (isSuccess(bo.X) || isSuccess(bo.Y) || isLoadOfField(bo.X, stateF) || isLoadOfField(bo.Y, stateF)) {
				continue
			}
			extra++
		}
		if s.succF && s.val == unhealthy && has(s.prevEq, healthy) && extra == 0 {
			demote = true
		}
		// restore: under success, a store of healthy that is reachable from 'unhealthy' (not excluded by the facts)
		if s.succT && s.val == healthy && !has(s.prevNeq, unhealthy) && (len(s.prevEq) == 0 || has(s.prevEq, unhealthy)) && extra == 0 {
			restore = true
		}
		_ = adding
		_ = draining
	}
	c.ob(rule, "HealthCheckCompleted/healthy-(fail)->unhealthy", hcc.Pos(), demote, true, "a failed probe on a healthy target must mark it unhealthy")
	c.ob(rule, "HealthCheckCompleted/unhealthy-(success)->healthy", hcc.Pos(), restore, true, "a successful probe on an unhealthy target must mark it healthy again")
}

func r094(c *Ctx) {
	const rule = "R09.4 empty-rotation-is-503"
	c.floor(rule, 4)
	nt := c.method("LoadBalancer", "claimTarget") // (nextTarget is de-anchored: expanded into claimTarget)
	healthyF := c.field("LoadBalancer", "healthy")
	isLenHealthy := func(v ssa.Value) bool {
		call, ok := v.(*ssa.Call)
		if !ok {
			return false
		}
		b, ok := call.Call.Value.(*ssa.Builtin)
		return ok && b.Name() == "len" && isLoadOfField(call.Call.Args[0], healthyF)
	}
	// every % and every index into healthy is on the len(healthy) != 0 branch
	n := 0
	for _, b := range nt.Blocks {
		for _, in := range b.Instrs {
			bo, isRem := in.(*ssa.BinOp)
			ia, isIdx := in.(*ssa.IndexAddr)
			if !(isRem && bo.Op == token.REM) && !(isIdx && isLoadOfField(ia.X, healthyF)) {
				continue
			}
			n++
			lo, _, neq := interval(intFacts(in, isLenHealthy))
			nonEmpty := lo >= 1
			for _, k := range neq {
				if k == 0 {
					nonEmpty = true
				}
			}
			c.ob(rule, fmt.Sprintf("nextTarget/guarded-by-nonempty-rotation (%T)", in), in.Pos(), nonEmpty, true, "the modulo / index into lb.healthy must be on the len(lb.healthy)!=0 branch (else: division by zero panic, or index out of range)")
		}
	}
	c.ob(rule, "nextTarget/has-rotation-arithmetic", nt.Pos(), n >= 1, false, "")
	// empty => nil => ErrorNoHealthyTargets => 503
	ct := c.method("LoadBalancer", "claimTarget")
	noHealthy := c.global(c.server, "ErrorNoHealthyTargets")
	okErr, okEmpty := false, false
	for _, cs := range callsTo(ct, c.method("Target", "StartRequest")) {
		recv := cs.common().Args[0]
		for _, ret := range normalReturns(ct) {
			if isNil, _ := nilKnowledge(ret, sameAs(recv)); isNil && isLoadOfGlobal(lastRet(ret), noHealthy) {
				okErr = true
			}
		}
		// (or the empty rotation is answered directly, without a nil target in between)
		emptyKnown := func(conds []condEdge) bool {
			for _, f := range intFactsOf(conds, isLenHealthy) {
				if (f.op == token.EQL && f.k == 0) || (f.op == token.LEQ && f.k == 0) || (f.op == token.LSS && f.k == 1) {
					return true
				}
			}
			return false
		}
		for _, rc := range retCases(ct) {
			if emptyKnown(rc.conds) && isLoadOfGlobal(rc.vals[len(rc.vals)-1], noHealthy) {
				okErr, okEmpty = true, true
			}
		}
		// ... and an empty rotation yields no target: the value is nil on the len(lb.healthy)==0 way
		// (all the values the variable is given, where it is given them: at the claim itself the nil one is already excluded)
		at := cs.instr.Block()
		if def, ok := resolve(recv).(ssa.Instruction); ok && def.Block() != nil {
			at = def.Block()
		}
		for _, vc := range valueCases(recv, at) {
			if !isNilConst(vc.val) {
				continue
			}
			for _, f := range intFactsOf(vc.conds, isLenHealthy) {
				if (f.op == token.EQL && f.k == 0) || (f.op == token.LEQ && f.k == 0) || (f.op == token.LSS && f.k == 1) {
					okEmpty = true
				}
			}
		}
	}
	c.ob(rule, "claimTarget/empty-rotation=>no-target", ct.Pos(), okEmpty, true, "with no healthy target nothing may be claimed")
	c.ob(rule, "claimTarget/no-target=>ErrorNoHealthyTargets", ct.Pos(), okErr, true, "")
	serve := c.method("LoadBalancer", "ServeHTTP")
	ok503 := false
	for _, s := range c.errorSites() {
		if s.fn == serve && s.status == 503 {
			ok503 = true
		}
	}
	c.ob(rule, "LoadBalancer.ServeHTTP/claim-error=>503", serve.Pos(), ok503, true, "")
}

func r095(c *Ctx) {
	const rule = "R09.5 claim-is-serialised"
	c.floor(rule, 5)
	lock := c.field("LoadBalancer", "lock")
	lockOwner[lock] = "LoadBalancer"
	ctor := map[string]string{"server.NewLoadBalancer": "constructor"}
	c.guardedBy(rule, "LoadBalancer", c.field("LoadBalancer", "healthy"), lock, ctor)
	c.guardedBy(rule, "LoadBalancer", c.field("LoadBalancer", "index"), lock, ctor)
}

func r096(c *Ctx, rule string) {
	c.floor(rule, 8)
	run := c.method("HealthCheck", "run")
	check := c.method("HealthCheck", "check")
	intervalF := c.field("HealthCheck", "interval")
	var ticker *ssa.Call
	for _, cs := range callsToName(run, "time.NewTicker") {
		if call, ok := cs.instr.(*ssa.Call); ok && isLoadOfField(call.Call.Args[0], intervalF) {
			ticker = call
		}
	}
	c.ob(rule, "run/ticker-from-configured-interval", run.Pos(), ticker != nil, true, "the probe period must be time.NewTicker(hc.interval)")
	sels := selectsIn(run)
	if len(sels) != 1 {
		c.undecided(rule, "run/select", run.Pos(), fmt.Sprintf("expected one select, found %d", len(sels)))
		return
	}
	sel := sels[0]
	tickArm := -1
	for i, st := range sel.States {
		if st.Dir == types.RecvOnly {
			if f, base, ok := fieldLoad(st.Chan); ok && f.Name() == "C" && ticker != nil && base == ssa.Value(ticker) {
				tickArm = i
			}
		}
	}
	c.ob(rule, "run/loop-waits-on-ticker", sel.Pos(), sel.Blocking && tickArm >= 0 && inLoop(sel.Block()), true, "the loop must block on the ticker channel (and cancellation)")
	// every probe runs synchronously in the loop goroutine; one happens before the first wait; the loop cannot wait twice
	// without probing in between (a tick is always followed by a probe), and it does come back to wait again
	isProbe := func(in ssa.Instruction) bool {
		call, ok := in.(*ssa.Call)
		return ok && isCallTo(call.Common(), check)
	}
	isSel := func(in ssa.Instruction) bool { return in == ssa.Instruction(sel) }
	for _, cs := range callsTo(run, check) {
		if _, isCall := cs.instr.(*ssa.Call); !isCall {
			c.ob(rule, "run/probe-is-synchronous", cs.pos(), false, true, "probes must run one at a time in the loop goroutine (results are applied in probe order); go/defer reorders them")
		}
	}
	_, waitsFirst := reach(run, nil, isSel, isProbe)
	c.ob(rule, "run/first-probe-immediately", run.Pos(), !waitsFirst, true, "one probe must run before the loop starts waiting")
	_, waitsTwice := reach(run, sel, isSel, isProbe)
	_, loops := reach(run, sel, isSel, nil)
	c.ob(rule, "run/probe-on-every-tick", run.Pos(), loops && !waitsTwice, true, "each tick must run a probe, after which the loop continues")
	c.ob(rule, "run/loop-continues-after-probe", sel.Pos(), loops, true, "")
	_ = tickArm
	c.probeLoopStops(rule)
	// NewHealthCheck starts exactly this loop
	nhc := c.fn("NewHealthCheck")
	started := false
	for _, cs := range callsTo(nhc, run) {
		if _, ok := cs.instr.(*ssa.Go); ok {
			started = true
		}
	}
	c.ob(rule, "NewHealthCheck/starts-loop", nhc.Pos(), started, true, "")
	// who may stop probing
	allow := map[string]map[string]string{
		"(*server.HealthCheck).Close":        {"(*server.Target).stopHealthChecks": "the only closer"},
		"(*server.Target).stopHealthChecks":  {"(*server.Target).Dispose": "disposal", "(*server.Target).WaitUntilHealthy": "a target that did not become healthy in time"},
		"(*server.Target).Dispose":           {"(server.TargetList).Dispose": "list disposal"},
		"(server.TargetList).Dispose":        {"(*server.LoadBalancer).Dispose": "balancer disposal"},
		"(*server.LoadBalancer).Dispose":     {"(*server.Service).Dispose": "service removal", "(*server.Router).deployTargetsIntoService": "failed deploy (new balancer) / successful redeploy (replaced balancer)"},
		"(*server.Service).Dispose":          {"(*server.Router).RemoveService": "remove command"},
	}
	for _, fn := range c.proxyFuncs() {
		row, ok := allow[fname(fn)]
		if !ok {
			continue
		}
		for _, u := range c.usesOfFunc(fn) {
			o := fname(outer(u.in))
			reason, ok := row[o]
			c.ob(rule, "call "+fn.Name()+" ("+fname(fn)+") <- "+o, u.instr.Pos(), ok, false, "who may stop probing: "+reason)
		}
	}
	// in the deploy routine only the new balancer (on failure) or the replaced one (on success) is disposed
	if d := c.deployShape(rule); d != nil {
		for _, cs := range callsTo(d.fn, c.method("LoadBalancer", "Dispose")) {
			recv := cs.common().Args[0]
			c.ob(rule, "deploy/disposes-only-new-or-replaced", cs.pos(), sameBalancer(recv, d.newLB) || recv == d.replaced, true, "")
			if recv == d.replaced {
				isNil, _ := nilKnowledge(cs.instr, sameAs(d.instErr))
				c.ob(rule, "deploy/replaced-balancer-disposed-only-after-successful-install", cs.pos(), isNil && dominates(d.install, cs.instr), true, "when the install failed the replaced balancer is put back and is live again: disposing it would stop the probes of the targets that keep serving")
			}
		}
	}
}

func r097(c *Ctx) {
	const rule = "R09.7 cursor-advances-one-healthy-position"
	c.floor(rule, 2)
	nt := c.method("LoadBalancer", "claimTarget") // (nextTarget is de-anchored: expanded into claimTarget)
	healthyF, indexF := c.field("LoadBalancer", "healthy"), c.field("LoadBalancer", "index")
	isLenHealthy := func(v ssa.Value) bool {
		call, ok := v.(*ssa.Call)
		if !ok {
			return false
		}
		b, ok := call.Call.Value.(*ssa.Builtin)
		return ok && b.Name() == "len" && isLoadOfField(call.Call.Args[0], healthyF)
	}
	isIndexPlusOne := func(v ssa.Value) bool {
		bo, ok := v.(*ssa.BinOp)
		if !ok || bo.Op != token.ADD {
			return false
		}
		k, isK := constInt(bo.Y)
		return isK && k == 1 && isLoadOfField(bo.X, indexF)
	}
	// the store to lb.index: (index+1) % len(healthy)
	var stores []*ssa.Store
	for _, w := range c.writesOfField(indexF) {
		if st, ok := w.instr.(*ssa.Store); ok {
			if w.fn != nt {
				c.ob(rule, "write LoadBalancer.index <- "+fname(w.fn), st.Pos(), false, false, "only nextTarget advances the cursor")
				continue
			}
			stores = append(stores, st)
		}
	}
	okAdv := len(stores) == 1
	if okAdv {
		bo, ok := stores[0].Val.(*ssa.BinOp)
		okAdv = ok && bo.Op == token.REM && isIndexPlusOne(bo.X) && isLenHealthy(bo.Y)
	}
	c.ob(rule, "nextTarget/cursor = (cursor+1) mod len(healthy)", nt.Pos(), okAdv, true, "per claim the cursor must advance by one and wrap at the length of the HEALTHY list (wrapping at another length skews the split whenever some target is unhealthy)")
	// the element returned is healthy[cursor] read after that store
	okRet := false
	var claimed []ssa.Value
	for _, cs := range callsTo(nt, c.method("Target", "StartRequest")) {
		claimed = append(claimed, phiSources(cs.common().Args[0])...)
	}
	for _, v := range claimed {
		if isNilConst(v) {
			continue
		}
		if u, ok := v.(*ssa.UnOp); ok {
			if ia, ok := u.X.(*ssa.IndexAddr); ok && isLoadOfField(ia.X, healthyF) {
				idx := ia.Index
				if isLoadOfField(idx, indexF) && len(stores) == 1 && dominates(stores[0], idx.(ssa.Instruction)) {
					okRet = true
				}
				if len(stores) == 1 && idx == stores[0].Val {
					okRet = true
				}
			}
		}
	}
	c.ob(rule, "nextTarget/returns healthy[cursor]", nt.Pos(), okRet, true, "the target returned must be lb.healthy[the advanced cursor]")
}

// rRotationOnlyRefreshed: the rotation (LoadBalancer.healthy) is written by nothing but the refresh that rebuilds it from
// the targets' current states (and the constructor): anything else that empties or replaces it makes healthy targets
// unreachable - requests, including held ones released by resume, are then refused with 503 (shared by C09, C07).
func rRotationOnlyRefreshed(c *Ctx, rule string) {
	c.floor(rule, 1)
	healthyF := c.field("LoadBalancer", "healthy")
	uht := c.method("LoadBalancer", "updateHealthyTargets")
	n := 0
	for _, w := range c.writesOfField(healthyF) {
		n++
		o := outer(w.fn)
		ok := o == uht || fname(o) == "server.NewLoadBalancer"
		if _, isAlloc := w.base.(*ssa.Alloc); isAlloc {
			ok = true // a balancer under construction
		}
		c.ob(rule, "write LoadBalancer.healthy <- "+fname(o), w.instr.Pos(), ok, true, "the rotation may be written only by updateHealthyTargets (which rebuilds it from every target's current state) and while the balancer is being constructed")
	}
	c.ob(rule, "rotation-has-a-writer", uht.Pos(), n >= 1, false, "")
}

// R09.13 the refresh always publishes: every way through updateHealthyTargets stores the rotation (the reset it starts
// with, or the finished list at the end). A refresh that keeps the published list under some condition ("nothing joined
// or left": same length) leaves a target that failed in rotation when another one recovered before the refresh ran.
func rRefreshAlwaysPublishes(c *Ctx, rule string) {
	c.floor(rule, 1)
	fn := c.method("LoadBalancer", "updateHealthyTargets")
	healthyF := c.field("LoadBalancer", "healthy")
	isStore := func(in ssa.Instruction) bool {
		st, ok := in.(*ssa.Store)
		if !ok {
			return false
		}
		f, _, ok := fieldOfAddr(st.Addr)
		return ok && f == healthyF
	}
	isRet := func(in ssa.Instruction) bool { _, ok := in.(*ssa.Return); return ok }
	at, skips := reach(fn, nil, isRet, isStore)
	pos := fn.Pos()
	if skips && at != nil && at.Pos().IsValid() {
		pos = at.Pos()
	}
	c.ob(rule, "updateHealthyTargets/every-way-through-stores-the-rotation", pos, !skips, true, "a way through the refresh that stores nothing into LoadBalancer.healthy keeps a stale rotation")
}
