package main

import (
	"fmt"
	"go/token"
	"go/types"
	"strings"

	"golang.org/x/tools/go/ssa"
)

func init() {
	register("C16", &propCheck{
		explain:    "Decides the TLS policy's shape: (R16.1) redirect and refusal are decided before the pause gate and end the request (shared with C07); redirect exactly when TLSEnabled && TLSRedirect && r.TLS==nil, refusal exactly when !TLSEnabled && r.TLS!=nil -> 503; (R16.2) the redirect Location is \"https://\" + host-part-of(r.Host) + r.URL.RequestURI() with status 301 and nothing else flows into it; (R16.3) a certificate is returned only as the direct result of service.certManager.GetCertificate for the service bound to the SNI name, under ServerName!=\"\", service!=nil, certManager!=nil (no caching layer), a manager exists only for TLSEnabled services, and the TLS listener uses Router.GetCertificate with no static pair; (R16.4) every autocert.Manager literal restricts HostPolicy to HostWhitelist(options.Hosts...) and is unreachable when any host contains '*'; the static pair needs both paths; (R16.5) sub-path inheritance is recomputed after every table rebuild, writes only non-root services' TLS flags from the root service of their first host or from the TLS-off default.",
		notDecided: []string{"TLS handshake behaviour of crypto/tls and autocert", "multi-host sub-path services follow their first host only (documented ambiguity)"},
		run:        checkC16,
	})
}

func checkC16(c *Ctx) {
	r073(c, "R16.1 tls-decisions-precede-gate")
	r161(c)
	r162(c)
	r163(c)
	r164(c)
	r165(c)
	// the redirect is built from the client's URL: nothing rewrites the request before the TLS policy sees it (shared
	// with C13)
	rNoURLRewritingWrappers(c, "R16.6 no-url-rewriting-wrappers")
}

func r161(c *Ctx) {
	const rule = "R16.1b redirect-and-refusal-conditions"
	c.floor(rule, 3)
	tlsEn, tlsRe := c.field("ServiceOptions", "TLSEnabled"), c.field("ServiceOptions", "TLSRedirect")
	fn, site := c.redirectSite(rule)
	if site == nil {
		return
	}
	// at the redirect: TLSEnabled, TLSRedirect, r.TLS == nil - and nothing else
	en, _ := boolFacts(site, matchFieldLoad(tlsEn))
	re, _ := boolFacts(site, matchFieldLoad(tlsRe))
	plain, extra := false, 0
	for _, ce := range dominatingConds(site.Block()) {
		if _, isPhi := ce.cond.(*ssa.Phi); isPhi && ce.taken {
			continue // the merged conjunction, known true: its operands are listed separately
		}
		v := ce.cond
		if u, ok := v.(*ssa.UnOp); ok && u.Op == token.NOT {
			v = u.X
		}
		if isLoadOfField(v, tlsEn) || isLoadOfField(v, tlsRe) {
			continue
		}
		if cm, ok := ce.asCmp(); ok && isNilConst(cm.y) {
			if f, base, ok := fieldLoad(cm.x); ok && f.Name() == "TLS" && resolve(base) == ssa.Value(fn.Params[2]) {
				if cm.op == token.EQL {
					plain = true
				}
				continue
			}
		}
		extra++
	}
	c.ob(rule, "shouldRedirectToHTTPS/TLSEnabled&&TLSRedirect&&plain-HTTP", site.Pos(), en && re && plain && extra == 0, true, "redirect exactly when the service has TLS and redirect on and the request arrived without TLS")
	// ... and whenever they hold: from the branch taken under those conditions every path performs the redirect
	for _, b := range fn.Blocks {
		if len(b.Instrs) == 0 || !b.Dominates(site.Block()) {
			continue
		}
		conds := dominatingConds(b)
		e2, _ := boolFactsOf(conds, matchFieldLoad(tlsEn))
		r2, _ := boolFactsOf(conds, matchFieldLoad(tlsRe))
		p2 := false
		for _, ce := range conds {
			if cm, ok := ce.asCmp(); ok && cm.op == token.EQL && isNilConst(cm.y) {
				if f, _, ok := fieldLoad(cm.x); ok && f.Name() == "TLS" {
					p2 = true
				}
			}
		}
		if e2 && r2 && p2 {
			_, skips := reach(fn, b.Instrs[0], isReturn, func(in ssa.Instruction) bool { return in == ssa.Instruction(site) })
			c.ob(rule, "serviceRequestWithTarget/redirect-whenever-conditions-hold", b.Instrs[0].Pos(), !skips || b == site.Block(), true, "")
			break
		}
	}
	for _, s := range c.errorSites() {
		if s.fn != fn || s.via != "SetErrorResponse" {
			continue
		}
		var notEnabled, overTLS bool
		n := 0
		for _, ce := range dominatingConds(s.instr.Block()) {
			// (the redirect test, passed on the way here, contributes its own negative facts: not counted)
			if _, isPhi := ce.cond.(*ssa.Phi); isPhi {
				continue
			}
			if isLoadOfField(ce.cond, tlsRe) {
				continue
			}
			if cm, ok := ce.asCmp(); ok && cm.op == token.EQL && isNilConst(cm.y) {
				if f, _, ok := fieldLoad(cm.x); ok && f.Name() == "TLS" {
					continue
				}
			}
			if isLoadOfField(ce.cond, tlsEn) && ce.taken {
				continue
			}
			n++
			if isLoadOfField(ce.cond, tlsEn) && !ce.taken {
				notEnabled = true
			}
			if cm, ok := ce.asCmp(); ok && cm.op == token.NEQ && isNilConst(cm.y) {
				if f, _, ok := fieldLoad(cm.x); ok && f.Name() == "TLS" {
					overTLS = true
				}
			}
		}
		c.ob(rule, "serviceRequestWithTarget/503-iff-TLS-request-to-non-TLS-service", s.instr.Pos(), s.status == 503 && notEnabled && overTLS && n == 2, true, "")
	}
	// the redirect is made with the handler's own writer and request and ends the request
	okR := resolve(site.Call.Args[0]) == ssa.Value(fn.Params[1]) && resolve(site.Call.Args[1]) == ssa.Value(fn.Params[2])
	if okR {
		_, cont := reach(fn, site, func(in ssa.Instruction) bool {
			ci, ok := in.(ssa.CallInstruction)
			return ok && ci.Common().StaticCallee() != nil && ci.Common().StaticCallee().Name() == "loadBalancerForRequest"
		}, nil)
		okR = !cont
	}
	c.ob(rule, "serviceRequestWithTarget/redirect-never-forwards", fn.Pos(), okR, true, "")
}

func r162(c *Ctx) {
	const rule = "R16.2 redirect-target"
	c.floor(rule, 3)
	rd, call := c.redirectSite(rule)
	if call == nil {
		return
	}
	st, _ := constInt(call.Call.Args[3])
	c.ob(rule, "redirectToHTTPS/status-301", call.Pos(), st == 301, true, "")
	// url = ("https://" + host) + r.URL.RequestURI()
	okURL, okHost := false, false
	if outerAdd, ok := call.Call.Args[2].(*ssa.BinOp); ok && outerAdd.Op == token.ADD {
		if ru, ok := outerAdd.Y.(*ssa.Call); ok && calleeName(ru.Common()) == "(*net/url.URL).RequestURI" {
			if f, base, ok := fieldLoad(ru.Call.Args[0]); ok && f.Name() == "URL" && resolve(base) == ssa.Value(rd.Params[2]) {
				if inner, ok := outerAdd.X.(*ssa.BinOp); ok && inner.Op == token.ADD {
					if s, ok := constString(inner.X); ok && s == "https://" {
						okURL = true
						// host: SplitHostPort(r.Host)#0 on err==nil, else r.Host
						okHost = true
						var sawSplit, sawRaw bool
						var sp *ssa.Call
						for _, src := range phiSources(inner.Y) {
							if e, ok := src.(*ssa.Extract); ok && e.Index == 0 {
								if scall, ok := e.Tuple.(*ssa.Call); ok && calleeName(scall.Common()) == "net.SplitHostPort" {
									if f, base, ok := fieldLoad(scall.Call.Args[0]); ok && f.Name() == "Host" && resolve(base) == ssa.Value(rd.Params[2]) {
										sawSplit = true
										sp = scall
										continue
									}
								}
							}
							if f, base, ok := fieldLoad(src); ok && f.Name() == "Host" && resolve(base) == ssa.Value(rd.Params[2]) {
								sawRaw = true
								continue
							}
							okHost = false
						}
						okHost = okHost && sawSplit && sp != nil
						_ = sawRaw
					}
				}
			}
		}
	}
	c.ob(rule, "redirectToHTTPS/Location=https://+host+RequestURI()", call.Pos(), okURL, true, "the redirect must keep path and query exactly as requested (r.URL.RequestURI(), which preserves the client's percent-encoding), under the https scheme")
	c.ob(rule, "redirectToHTTPS/host-with-port-removed", call.Pos(), okHost, true, "the host must be the host part of net.SplitHostPort(r.Host), falling back to r.Host only when that fails")
}

func r163(c *Ctx) {
	const rule = "R16.3 certificates-only-for-bound-tls-names"
	c.floor(rule, 7)
	gc := c.method("Router", "GetCertificate")
	sfh := c.method("Router", "serviceForHost")
	cmF := c.field("Service", "certManager")
	var svc *ssa.Call
	for _, cs := range callsTo(gc, sfh) {
		call := cs.instr.(*ssa.Call)
		if f, base, ok := fieldLoad(call.Call.Args[1]); ok && f.Name() == "ServerName" && base == ssa.Value(gc.Params[1]) {
			svc = call
		}
	}
	if !c.ob(rule, "GetCertificate/resolves-service-by-SNI", gc.Pos(), svc != nil, true, "the service must be looked up by hello.ServerName through host routing (serviceForHost)") {
		return
	}
	nCert := 0
	for _, ret := range normalReturns(gc) {
		v := retVal(ret, 0)
		if isNilConst(v) {
			c.ob(rule, "GetCertificate/no-certificate=>error", ret.Pos(), !isNilConst(lastRet(ret)), true, "a refused handshake must return an error")
			continue
		}
		nCert++
		ok := false
		if e, isE := v.(*ssa.Extract); isE && e.Index == 0 {
			if inv, isC := e.Tuple.(*ssa.Call); isC && inv.Call.IsInvoke() && inv.Call.Method.Name() == "GetCertificate" {
				f, base, isL := fieldLoad(inv.Call.Value)
				_, svcNN := nilKnowledge(ret, sameAs(svc))
				_, cmNN := nilKnowledge(ret, matchFieldLoad(cmF))
				nameSet := false
				for _, ce := range dominatingConds(ret.Block()) {
					if cm, ok := ce.asCmp(); ok && cm.op == token.NEQ {
						if s, ok := constString(cm.y); ok && s == "" {
							nameSet = true
						}
					}
				}
				ok = isL && f == cmF && base == ssa.Value(svc) && svcNN && cmNN && nameSet && inv.Call.Args[0] == ssa.Value(gc.Params[1])
			}
		}
		c.ob(rule, "GetCertificate/certificate-comes-from-the-bound-service's-manager", ret.Pos(), ok, true, "a certificate may only be the direct result of service.certManager.GetCertificate(hello) for the service currently bound to the SNI name (a cache or another lookup path keeps answering for names no longer bound)")
	}
	c.ob(rule, "GetCertificate/can-serve-certificates", gc.Pos(), nCert == 1, false, "")
	// certManager written only by initialize from createCertManager; createCertManager nil when TLS is off
	ini := c.method("Service", "initialize")
	ccm := c.method("Service", "createCertManager")
	for _, w := range c.writesOfField(cmF) {
		ok := w.fn == ini
		if ok {
			e, isE := w.val.(*ssa.Extract)
			ok = isE && e.Index == 0
			if ok {
				call, isC := e.Tuple.(*ssa.Call)
				ok = isC && isCallTo(call.Common(), ccm)
			}
		}
		c.ob(rule, "write Service.certManager <- "+fname(w.fn), w.instr.Pos(), ok, false, "only initialize() installs the manager created for the service's own options")
	}
	tlsEn := c.field("ServiceOptions", "TLSEnabled")
	// every return that can hand out a manager is on a path where options.TLSEnabled is known to be set
	okOff, nMgr := true, 0
	for _, ret := range normalReturns(ccm) {
		if isNilConst(retVal(ret, 0)) {
			continue
		}
		nMgr++
		if on, _ := boolFacts(ret, matchFieldLoad(tlsEn)); !on {
			okOff = false
		}
	}
	okOff = okOff && nMgr >= 1
	c.ob(rule, "createCertManager/no-manager-without-TLS", ccm.Pos(), okOff, true, "a service without TLS must have no certificate manager (so handshakes for its names fail)")
	// a manager handed out is one built by this call for these options (a static key pair loaded now, or the ACME manager
	// literal below the wildcard test): a manager carried over from elsewhere was built for other options / hosts
	okFreshMgr := true
	for _, ret := range normalReturns(ccm) {
		for _, src := range phiSources(retVal(ret, 0)) {
			if isNilConst(src) {
				continue
			}
			v := stripConv(src)
			fresh := false
			if e, ok := v.(*ssa.Extract); ok && e.Index == 0 {
				if call, ok := e.Tuple.(*ssa.Call); ok && call.Call.StaticCallee() != nil && call.Call.StaticCallee().Name() == "NewStaticCertManager" {
					fresh = true
				}
			}
			if a, ok := v.(*ssa.Alloc); ok && a.Parent() == ccm && strings.HasSuffix(typeString(a.Type()), "autocert.Manager") {
				fresh = true
			}
			if !fresh {
				okFreshMgr = false
			}
		}
	}
	c.ob(rule, "createCertManager/hands-out-only-managers-built-here", ccm.Pos(), okFreshMgr, true, "a certificate manager must be built for the options at hand (reusing one skips the wildcard refusal and the host whitelist of the new options)")
	// createCertManager is applied to the service's own options
	okOwn := false
	for _, cs := range callsTo(ini, ccm) {
		if len(cs.common().Args) < 2 {
			// no options parameter: the method reads the receiver's own options (every option read in it is then a field
			// of s.options, which the rules above see through the field path)
			okOwn = len(cs.common().Args) == 1 && cs.common().Args[0] == ssa.Value(ini.Params[0])
			continue
		}
		if f, base, ok := fieldLoad(cs.common().Args[1]); ok && f.Name() == "options" && base == ssa.Value(ini.Params[0]) {
			okOwn = true
		}
	}
	c.ob(rule, "initialize/manager-from-own-options", ini.Pos(), okOwn, true, "")
	// listener wiring
	shs := c.method("Server", "startHTTPServers")
	okGC := false
	for _, b := range shs.Blocks {
		for _, in := range b.Instrs {
			if st, ok := in.(*ssa.Store); ok {
				if f, base, ok := fieldOfAddr(st.Addr); ok && f.Name() == "GetCertificate" && namedOf(base.Type()) == "crypto/tls.Config" && isFuncValueOf(st.Val, gc) {
					okGC = true
				}
			}
		}
	}
	c.ob(rule, "startHTTPServers/tls.Config.GetCertificate=Router.GetCertificate", shs.Pos(), okGC, true, "")
	okServe := false
	for _, cs := range callsIn(shs) {
		if calleeName(cs.common()) == "(*net/http.Server).ServeTLS" {
			a, _ := constString(cs.common().Args[2])
			b, _ := constString(cs.common().Args[3])
			okServe = a == "" && b == ""
		}
	}
	c.ob(rule, "startHTTPServers/no-static-listener-certificate", shs.Pos(), okServe, true, "ServeTLS must be given no certificate files: every certificate goes through GetCertificate")
	// serviceForHost routes (host, "/") under the read lock: by C04 (ServiceForHost/root-path-of-host)
}

func r164(c *Ctx) {
	const rule = "R16.4 acme-host-restricted-and-no-wildcards"
	c.floor(rule, 4)
	ccm := c.method("Service", "createCertManager")
	wild := c.global(c.server, "ErrorAutomaticTLSDoesNotSupportWildcards")
	hostsF := c.field("ServiceOptions", "Hosts")
	nLit := 0
	for _, fn := range c.proxyFuncs() {
		for _, b := range fn.Blocks {
			for _, in := range b.Instrs {
				a, ok := in.(*ssa.Alloc)
				if !ok || namedOf(a.Type()) != "golang.org/x/crypto/acme/autocert.Manager" {
					continue
				}
				nLit++
				c.ob(rule, "autocert.Manager literal in "+fname(fn), a.Pos(), fn == ccm, false, "ACME managers are created only by createCertManager")
				var policy ssa.Value
				for _, r := range *a.Referrers() {
					if fa, ok := r.(*ssa.FieldAddr); ok {
						if f, _, _ := fieldOfAddr(fa); f.Name() == "HostPolicy" {
							for _, rr := range *fa.Referrers() {
								if st, ok := rr.(*ssa.Store); ok {
									policy = st.Val
								}
							}
						}
					}
				}
				okPol := false
				if call, ok := policy.(*ssa.Call); ok && calleeName(call.Common()) == "golang.org/x/crypto/acme/autocert.HostWhitelist" {
					if ch, _ := fieldPath(call.Call.Args[0]); len(ch) >= 1 && ch[len(ch)-1] == hostsF {
						okPol = true
					}
				}
				c.ob(rule, "autocert.Manager/HostPolicy=HostWhitelist(options.Hosts...)", a.Pos(), okPol, true, "an unset HostPolicy accepts any SNI name: certificates would be requested for names not bound to the service")
				// unreachable when a host contains '*': every path from entry to the literal passes the wildcard scan's loop exit
				var scanOK bool
				for _, cs := range callsToName(fn, "strings.Contains") {
					if s, _ := constString(cs.common().Args[1]); s != "*" {
						continue
					}
					hs, full := fullRangeElem(cs.common().Args[0])
					if !full {
						continue
					}
					if ch, _ := fieldPath(hs); len(ch) == 0 || ch[len(ch)-1] != hostsF {
						continue
					}
					// on the true branch: return the wildcard error
					for _, ret := range normalReturns(fn) {
						if t, _ := boolFacts(ret, sameAs(cs.instr.(*ssa.Call))); t && isLoadOfGlobal(lastRet(ret), wild) && isNilConst(retVal(ret, 0)) {
							// and the literal is only reachable through the loop (dominated by the loop header)
							if n := cs.instr.Block(); n.Idom() != nil && n.Idom().Dominates(a.Block()) {
								scanOK = true
							}
						}
					}
				}
				c.ob(rule, "autocert.Manager/unreachable-with-wildcard-host", a.Pos(), scanOK, true, "the literal must come after a complete scan of options.Hosts that returns ErrorAutomaticTLSDoesNotSupportWildcards when any host contains '*'")
			}
		}
	}
	c.ob(rule, "createCertManager/has-acme-branch", ccm.Pos(), nLit == 1, false, "")
	// static pair needs both paths
	nsc := c.fn("NewStaticCertManager")
	for _, cs := range callsTo(ccm, nsc) {
		var cert, key bool
		for _, ce := range dominatingConds(cs.instr.Block()) {
			if cm, ok := ce.asCmp(); ok && cm.op == token.NEQ {
				if s, ok := constString(cm.y); ok && s == "" {
					if f, _, ok := fieldLoad(cm.x); ok && f.Name() == "TLSCertificatePath" {
						cert = true
					}
					if f, _, ok := fieldLoad(cm.x); ok && f.Name() == "TLSPrivateKeyPath" {
						key = true
					}
				}
			}
		}
		a0, _ := fieldPath(cs.common().Args[0])
		a1, _ := fieldPath(cs.common().Args[1])
		c.ob(rule, "createCertManager/static-pair-needs-both-paths-in-order", cs.pos(), cert && key && len(a0) > 0 && len(a1) > 0 && a0[len(a0)-1].Name() == "TLSCertificatePath" && a1[len(a1)-1].Name() == "TLSPrivateKeyPath", true, "")
	}
}

func r165(c *Ctx) {
	const rule = "R16.5 sub-path-inheritance-recomputed"
	c.floor(rule, 6)
	upd := c.method("ServiceMap", "updateRequestServiceMap")
	sync := c.method("ServiceMap", "syncTLSOptionsFromRootDomain")
	rsm := c.field("ServiceMap", "requestServiceMap")
	// sync runs on every path of the rebuild, after the new table is in place
	var store ssa.Instruction
	for _, w := range c.writesOfField(rsm) {
		if w.fn == upd {
			store = w.instr
		}
	}
	okSync := false
	for _, cs := range callsTo(upd, sync) {
		_, skip := reach(upd, nil, isReturn, func(in ssa.Instruction) bool { return in == cs.instr })
		okSync = !skip && store != nil && dominates(store, cs.instr)
	}
	c.ob(rule, "updateRequestServiceMap/sync-after-new-table", upd.Pos(), okSync, true, "TLS inheritance must be recomputed on every rebuild, against the NEW table")
	c.servicesWriteRebuilds(rule)
	for _, u := range c.usesOfFunc(sync) {
		c.ob(rule, "call syncTLSOptionsFromRootDomain <- "+fname(outer(u.in)), u.instr.Pos(), outer(u.in) == upd, false, "")
	}
	// writers of the TLS flags
	srp := c.method("Service", "servesRootPath")
	sfh := c.method("ServiceMap", "ServiceForHost")
	defOpts := c.global(c.server, "defaultServiceOptions")
	for _, name := range []string{"TLSEnabled", "TLSRedirect"} {
		f := c.field("ServiceOptions", name)
		n := 0
		for _, w := range c.writesOfField(f) {
			if outer(w.fn).Pkg != c.server {
				continue // the CLI fills in its own copy of the options before sending them (C20's business)
			}
			if w.fn != sync {
				c.ob(rule, "write ServiceOptions."+name+" <- "+fname(outer(w.fn)), w.instr.Pos(), false, false, "TLS flags of an installed service are written only by the inheritance sync")
				continue
			}
			n++
			// only for non-root services
			notRoot := false
			for _, ce := range dominatingConds(w.instr.Block()) {
				if call, ok := ce.cond.(*ssa.Call); ok && isCallTo(call.Common(), srp) && !ce.taken {
					// the service written is the one tested
					if ch, base := fieldPath(w.instr.(*ssa.Store).Addr); len(ch) >= 1 && base == call.Call.Args[0] {
						notRoot = true
					}
				}
			}
			// source: same-named flag of ServiceForHost(host) when non-nil, else of defaultServiceOptions
			// (either as two stores on the two branches, or as one store of a value merged from the two)
			type src struct {
				v  ssa.Value
				at *ssa.BasicBlock // where the value was chosen
			}
			var srcs []src
			if phi, ok := w.val.(*ssa.Phi); ok {
				for i, e := range phi.Edges {
					blk := phi.Block().Preds[i]
					if in, ok := e.(ssa.Instruction); ok {
						blk = in.Block()
					}
					srcs = append(srcs, src{e, blk})
				}
			} else if ch, base := fieldPath(w.val); len(ch) == 1 && ch[0] == f && isPtrPhi(base) {
				// the flag read through a pointer chosen earlier (`from := &defaultServiceOptions; if root != nil { from =
				// &root.options }; ... from.TLSEnabled`): the same field of each struct the pointer may point to
				phi := base.(*ssa.Phi)
				for i, e := range phi.Edges {
					srcs = append(srcs, src{&ssa.UnOp{Op: token.MUL, X: &ssa.FieldAddr{X: e, Field: fieldIndex(e.Type(), f)}}, phi.Block().Preds[i]})
				}
			} else {
				srcs = []src{{w.val, w.instr.Block()}}
			}
			// a flag read from a local copy of a whole options struct (`inherited := defaultServiceOptions; if root != nil
			// { inherited = root.options }`) comes from each struct that was copied in
			for level := 0; level < 4; level++ {
				var expanded []src
				grew := false
				for _, sv := range srcs {
					ch, base := fieldPath(sv.v)
					a, isLocal := base.(*ssa.Alloc)
					if !isLocal || len(ch) != 1 || ch[0] != f {
						expanded = append(expanded, sv)
						continue
					}
					n := 0
					for _, r := range *a.Referrers() {
						if st, ok := r.(*ssa.Store); ok && st.Addr == ssa.Value(a) {
							n++
							grew = true
							// the same field of the struct copied in (which may itself be a local copy: next level)
							val := st.Val
							if u, isLoad := val.(*ssa.UnOp); isLoad && u.Op == token.MUL {
								if a2, isLocal := u.X.(*ssa.Alloc); isLocal {
									expanded = append(expanded, src{&ssa.UnOp{Op: token.MUL, X: &ssa.FieldAddr{X: a2, Field: fieldIndex(a2.Type(), f)}}, st.Block()})
									continue
								}
							}
							if phi, isPhi := val.(*ssa.Phi); isPhi {
							// a struct chosen among several (`inherited := defaults; if root != nil { inherited = root.options }`)
							for i, e := range phi.Edges {
								expanded = append(expanded, src{&ssa.Field{X: e, Field: fieldIndex(e.Type(), f)}, phi.Block().Preds[i]})
							}
							continue
						}
						expanded = append(expanded, src{&ssa.Field{X: val, Field: fieldIndex(val.Type(), f)}, st.Block()})
						}
					}
					if n == 0 {
						expanded = append(expanded, sv)
					}
				}
				srcs = expanded
				if !grew {
					break
				}
			}
			srcOK := len(srcs) > 0
			for _, sv := range srcs {
				one := false
				ch, base := fieldPath(sv.v)
				if len(ch) >= 1 && ch[len(ch)-1] == f {
					if call, ok := base.(*ssa.Call); ok && isCallTo(call.Common(), sfh) && len(sv.at.Instrs) > 0 {
						if _, nn := nilKnowledge(sv.at.Instrs[0], sameAs(call)); nn {
							one = true
						}
					}
					if base == ssa.Value(defOpts) || isLoadOfGlobal(base, defOpts) {
						one = true
					}
				}
				if !one {
					srcOK = false
				}
			}
			c.ob(rule, "sync/"+name+"-only-for-non-root-from-root-or-default", w.instr.Pos(), notRoot && srcOK, true, "a sub-path service takes "+name+" from the root-path service of its host (ServiceForHost) or, if there is none, from the TLS-off default; root-path services are never overwritten")
		}
		c.ob(rule, "sync/writes-"+name, sync.Pos(), n >= 1, false, "")
	}
	// the default is TLS off
	okDef := true
	sawDef := false
	for _, fn := range []*ssa.Function{c.server.Func("init")} {
		if fn == nil {
			continue
		}
		for _, b := range fn.Blocks {
			for _, in := range b.Instrs {
				if st, ok := in.(*ssa.Store); ok {
					if fa, ok := st.Addr.(*ssa.FieldAddr); ok && fa.X == ssa.Value(defOpts) {
						f, _, _ := fieldOfAddr(fa)
						sawDef = true
						if f.Name() == "TLSEnabled" {
							if b, ok := constBool(st.Val); !ok || b {
								okDef = false
							}
						}
					}
				}
			}
		}
	}
	c.ob(rule, "defaultServiceOptions/TLS-off", sync.Pos(), okDef && sawDef, true, "without a root-path service on the host, TLS is off")
	// host used for the lookup: first host when present, else ""
	okHost := false
	for _, cs := range callsTo(sync, sfh) {
		ok := true
		for _, src := range phiSources(cs.common().Args[1]) {
			if s, isS := constString(src); isS && s == "" {
				continue
			}
			if u, isU := src.(*ssa.UnOp); isU {
				if ia, isIA := u.X.(*ssa.IndexAddr); isIA {
					if k, isK := constInt(ia.Index); isK && k == 0 {
						if ch, _ := fieldPath(ia.X); len(ch) >= 1 && ch[len(ch)-1].Name() == "Hosts" {
							continue
						}
					}
				}
			}
			ok = false
		}
		okHost = ok
	}
	c.ob(rule, "sync/looks-up-root-service-of-first-host", sync.Pos(), okHost, true, "")
}

func fieldIndex(t types.Type, f *types.Var) int {
	st := derefStruct(t)
	if st == nil {
		return 0
	}
	for i := 0; i < st.NumFields(); i++ {
		if st.Field(i) == f {
			return i
		}
	}
	return 0
}

// redirectSite: the http.Redirect call of the service handler (the redirect helpers of the reference tree,
// shouldRedirectToHTTPS and redirectToHTTPS, are de-anchored: always expanded into serviceRequestWithTarget).
func (c *Ctx) redirectSite(rule string) (*ssa.Function, *ssa.Call) {
	fn := c.method("Service", "serviceRequestWithTarget")
	cs := callsToName(fn, "net/http.Redirect")
	if len(cs) != 1 {
		c.undecided(rule, "serviceRequestWithTarget/redirect-site", fn.Pos(), fmt.Sprintf("expected one http.Redirect in the service handler, found %d", len(cs)))
		return fn, nil
	}
	call, _ := cs[0].instr.(*ssa.Call)
	return fn, call
}

func isPtrPhi(v ssa.Value) bool {
	phi, ok := v.(*ssa.Phi)
	if !ok {
		return false
	}
	_, isPtr := phi.Type().Underlying().(*types.Pointer)
	return isPtr
}
