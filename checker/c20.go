package main

import (
	"fmt"
	"go/token"
	"go/types"
	"sort"
	"strings"

	"golang.org/x/tools/go/ssa"
)

func init() {
	register("C20", &propCheck{
		explain: "Decides the CLI's documented behaviour where it is in the shape of the code (internal/cmd has no tests at all): (R20.1) every flag of `run` takes its default from getEnvInt/getEnvBool(KEY, const) with KEY = upper(flag name, '-'->'_'); findEnv consults KAMAL_PROXY_<KEY> first and <KEY> only on its not-found branch; getEnv* return the default on 'absent' and on 'parse error' after a single lookup; (R20.2) deploy's PreRunE is preRun, whose error returns form exactly the decision table {limit changed && buffering off} x2, {TLS && empty host}, {TLS && \"/\" not among prefixes}, evaluated after Normalize(), with every path to success passing all of them, no RPC reachable from it, and forward-headers defaulting to !TLS unless given; (R20.3) each client command returns the RPC call's error through its closure, withRPCClient and RunE; Execute exits 1 on any error; all commands are registered; each RPC handler returns the router's error; (R20.4) every client.Call names an exported CommandHandler method with identical argument and reply types, under the registered service name; (R20.5) list shows one row per deployed service from its own options/targets/state.",
		notDecided: []string{"cobra/pflag parsing and flag-over-env precedence (library)", "the rendered table bytes", "port binding"},
		run:        checkC20,
	})
}

func checkC20(c *Ctx) {
	r201(c)
	r202(c)
	r203(c)
	r204(c)
	r205(c)
	// what the operator typed is what is sent
	rFlagsBoundToCommand(c, "R20.6 flags-bound-to-the-command-object")
}

func r201(c *Ctx) {
	const rule = "R20.1 option-sources"
	c.floor(rule, 10)
	nrc := c.funcIn(c.cmd, "newRunCommand")
	findEnv := c.funcIn(c.cmd, "findEnv")
	nFlags := 0
	for _, cs := range callsIn(nrc) {
		n := calleeName(cs.common())
		if !strings.HasPrefix(n, "(*github.com/spf13/pflag.FlagSet).") || !strings.HasSuffix(n, "Var") {
			continue
		}
		nFlags++
		flag, _ := constString(cs.common().Args[2])
		def := cs.common().Args[3]
		ok := false
		detail := "default is not getEnv*(KEY, const)"
		if call, isC := def.(*ssa.Call); isC && call.Call.StaticCallee() != nil && strings.HasPrefix(call.Call.StaticCallee().Name(), "getEnv") {
			key, _ := constString(call.Call.Args[0])
			want := strings.ToUpper(strings.ReplaceAll(flag, "-", "_"))
			_, isConstDefault := call.Call.Args[1].(*ssa.Const)
			ok = key == want && isConstDefault
			detail = fmt.Sprintf("flag --%s: env key %q (want %q)", flag, key, want)
		}
		c.ob(rule, "run flag --"+flag+"/default-from-its-env-variable", cs.pos(), ok, true, detail)
	}
	c.ob(rule, "run/flags-found", nrc.Pos(), nFlags >= 3, false, "")
	// findEnv: prefixed first, bare only on its not-found branch
	var prefixed, bare *ssa.Call
	for _, cs := range callsToName(findEnv, "os.LookupEnv") {
		call := cs.instr.(*ssa.Call)
		if bo, ok := call.Call.Args[0].(*ssa.BinOp); ok {
			if p, _ := constString(bo.X); p == "KAMAL_PROXY_" && bo.Y == ssa.Value(findEnv.Params[0]) {
				prefixed = call
			}
		} else if call.Call.Args[0] == ssa.Value(findEnv.Params[0]) {
			bare = call
		}
	}
	if c.ob(rule, "findEnv/looks-up-prefixed-and-bare", findEnv.Pos(), prefixed != nil && bare != nil, true, "") {
		okOf := func(call *ssa.Call) func(ssa.Value) bool {
			return func(v ssa.Value) bool { e, ok := v.(*ssa.Extract); return ok && e.Tuple == ssa.Value(call) && e.Index == 1 }
		}
		_, missed := boolFacts(bare, okOf(prefixed))
		c.ob(rule, "findEnv/bare-only-when-prefixed-absent", bare.Pos(), missed && dominates(prefixed, bare), true, "KAMAL_PROXY_<NAME> must win over <NAME>")
		for _, ret := range normalReturns(findEnv) {
			found, isConst := constBool(retVal(ret, 1))
			if !isConst {
				// `return os.LookupEnv(key)`: found exactly when the bare variable is present - fine on the branch where the
				// prefixed one is absent
				if e, isE := retVal(ret, 1).(*ssa.Extract); isE && e.Tuple == ssa.Value(bare) && e.Index == 1 {
					_, m1 := boolFacts(ret, okOf(prefixed))
					c.ob(rule, "findEnv/bare-result-only-when-prefixed-absent", ret.Pos(), m1, true, "")
					continue
				}
			}
			if !found {
				_, m1 := boolFacts(ret, okOf(prefixed))
				_, m2 := boolFacts(ret, okOf(bare))
				c.ob(rule, "findEnv/not-found-only-when-both-absent", ret.Pos(), m1 && m2, true, "")
				continue
			}
			e, isE := retVal(ret, 0).(*ssa.Extract)
			okV := false
			if isE && e.Index == 0 {
				if call, ok := e.Tuple.(*ssa.Call); ok {
					hit, _ := boolFacts(ret, okOf(call))
					okV = hit
				}
			}
			c.ob(rule, "findEnv/returns-the-found-variable's-value", ret.Pos(), okV, true, "")
		}
	}
	// getEnvInt / getEnvBool
	for _, name := range []struct{ fn, parser string }{{"getEnvInt", "strconv.Atoi"}, {"getEnvBool", "strconv.ParseBool"}} {
		fn := c.funcIn(c.cmd, name.fn)
		fcs := callsTo(fn, findEnv)
		pcs := callsToName(fn, name.parser)
		if len(fcs) != 1 || len(pcs) != 1 {
			c.ob(rule, name.fn+"/single-lookup-single-parse", fn.Pos(), false, true, fmt.Sprintf("expected one findEnv and one %s call, found %d and %d (a retry loop changes which variable wins after a parse error)", name.parser, len(fcs), len(pcs)))
			continue
		}
		fc, pc := fcs[0].instr.(*ssa.Call), pcs[0].instr.(*ssa.Call)
		c.ob(rule, name.fn+"/looks-up-its-key", fc.Pos(), fc.Call.Args[0] == ssa.Value(fn.Params[0]) && !inLoop(fc.Block()), true, "")
		c.ob(rule, name.fn+"/parses-the-found-value", pc.Pos(), pc.Call.Args[0] == resultOf(fc, 0), true, "")
		def := ssa.Value(fn.Params[1])
		// every way of returning: the parsed value only when the variable was found and parsed; the default otherwise; and
		// never the default on the path where it was found and parsed
		isFound := func(x ssa.Value) bool { e, ok := x.(*ssa.Extract); return ok && e.Tuple == ssa.Value(fc) && e.Index == 1 }
		absent, malformed, parsed := true, true, false
		nDef := 0
		for _, rc := range retCases(fn) {
			v := rc.vals[0]
			found, notFound := boolFactsOf(rc.conds, isFound)
			pok, perr := nilKnowledgeOf(rc.conds, sameAs(errResultOf(pc)))
			switch {
			case v == resultOf(pc, 0):
				if !found {
					absent = false
				}
				if !pok {
					malformed = false
				}
				if found && pok {
					parsed = true
				}
			case v == def:
				nDef++
				if found && pok {
					parsed = false
					nDef = -99
				}
				_, _ = notFound, perr
			default:
				absent, malformed = false, false
			}
		}
		// the success branch of the parse never falls through to a return of the default
		for _, b := range fn.Blocks {
			if len(b.Instrs) == 0 {
				continue
			}
			conds := dominatingConds(b)
			found, _ := boolFactsOf(conds, isFound)
			pok, _ := nilKnowledgeOf(conds, sameAs(errResultOf(pc)))
			if !found || !pok {
				continue
			}
			if _, falls := reach(fn, b.Instrs[0], func(in ssa.Instruction) bool {
				r, ok := in.(*ssa.Return)
				if !ok {
					return false
				}
				for _, src := range phiSources(retVal(r, 0)) {
					if src == def {
						return true
					}
				}
				return false
			}, nil); falls {
				// (a merged return that CAN yield the default is fine as long as this path feeds it the parsed value)
				okMerge := true
				for _, rc := range retCases(fn) {
					f2, _ := boolFactsOf(rc.conds, isFound)
					p2, _ := nilKnowledgeOf(rc.conds, sameAs(errResultOf(pc)))
					if f2 && p2 && rc.vals[0] == def {
						okMerge = false
					}
				}
				if !okMerge {
					parsed = false
				}
			}
		}
		absent = absent && nDef >= 1
		malformed = malformed && nDef >= 1
		c.ob(rule, name.fn+"/absent=>default", fn.Pos(), absent, true, "")
		c.ob(rule, name.fn+"/malformed=>default", fn.Pos(), malformed, true, "a value that does not parse must fall back to the default (not to another variable, not to zero)")
		c.ob(rule, name.fn+"/valid=>parsed-value", fn.Pos(), parsed, true, "")
	}
}

// guardForm classifies the condition set dominating an error return of preRun.
func (c *Ctx) preRunGuard(conds []condEdge) string {
	var parts []string
	seenPart := map[string]bool{}
	for _, ce := range conds {
		p := "?"
		if _, isPhi := ce.cond.(*ssa.Phi); isPhi {
			continue // a merged `a && b` value: its operands are listed separately
		}
		for {
			u, ok := ce.cond.(*ssa.UnOp)
			if !ok || u.Op != token.NOT {
				break
			}
			ce = condEdge{cond: u.X, taken: !ce.taken}
		}
		// (a value carried in a row of a local table is what was put there)
		if r := resolve(ce.cond); r != ce.cond {
			if _, isField := r.(*ssa.Field); !isField {
				ce = condEdge{cond: r, taken: ce.taken}
			}
		}
		switch x := ce.cond.(type) {
		case *ssa.Call:
			n := calleeName(x.Common())
			switch {
			case n == "(*github.com/spf13/pflag.FlagSet).Changed" && len(x.Call.Args) >= 1:
				// (the flag name is the last argument, whether the receiver is passed explicitly or bound)
				f, _ := constStringDeep(x.Call.Args[len(x.Call.Args)-1])
				p = "Changed(" + f + ")"
			case strings.HasPrefix(n, "slices.Contains"):
				ch, _ := fieldPath(x.Call.Args[0])
				v, _ := constString(x.Call.Args[1])
				if len(ch) > 0 {
					p = fmt.Sprintf("Contains(%s,%q)", ch[len(ch)-1].Name(), v)
				}
			}
		default:
			if ch, _ := fieldPath(ce.cond); len(ch) > 0 {
				p = ch[len(ch)-1].Name()
			}
		}
		if !ce.taken {
			p = "!" + p
		}
		if !seenPart[p] {
			seenPart[p] = true
			parts = append(parts, p)
		}
	}
	sort.Strings(parts)
	return strings.Join(parts, " && ")
}

func r202(c *Ctx) {
	const rule = "R20.2 deploy-pre-flight"
	c.floor(rule, 9)
	ndc := c.funcIn(c.cmd, "newDeployCommand")
	pre := c.methodIn(c.cmd, "deployCommand", "preRun")
	run := c.methodIn(c.cmd, "deployCommand", "run")
	// cobra.Command literal: PreRunE = preRun, RunE = run
	var preSet, runSet bool
	for _, b := range ndc.Blocks {
		for _, in := range b.Instrs {
			if st, ok := in.(*ssa.Store); ok {
				if f, base, ok := fieldOfAddr(st.Addr); ok && namedOf(base.Type()) == "github.com/spf13/cobra.Command" {
					if f.Name() == "PreRunE" && isFuncValueOf(st.Val, pre) {
						preSet = true
					}
					if f.Name() == "RunE" && isFuncValueOf(st.Val, run) {
						runSet = true
					}
				}
			}
		}
	}
	c.ob(rule, "deploy/PreRunE=preRun", ndc.Pos(), preSet, true, "without PreRunE the validation never runs")
	c.ob(rule, "deploy/RunE=run", ndc.Pos(), runSet, true, "")
	want := map[string]string{
		"!BufferRequests && Changed(max-request-body)":   "max-request-body without request buffering",
		"!BufferResponses && Changed(max-response-body)": "max-response-body without response buffering",
		`Contains(Hosts,"") && TLSEnabled`:               "TLS without a host",
		`!Contains(PathPrefixes,"/") && TLSEnabled`:      "TLS without the root path",
	}
	seen := map[string]bool{}
	for _, rc := range retCases(pre) {
		res := rc.vals[len(rc.vals)-1]
		if isNilConst(res) {
			continue
		}
		g := c.preRunGuard(rc.conds)
		// earlier guards that were passed show up as negative facts; strip facts that belong to other rows
		matched := ""
		for w := range want {
			all := true
			for _, part := range strings.Split(w, " && ") {
				if !strings.Contains(" && "+g+" && ", " && "+part+" && ") {
					all = false
				}
			}
			if all && len(w) > len(matched) {
				matched = w
			}
		}
		_, isErr := res.(*ssa.Call)
		c.ob(rule, "preRun/error-return ["+g+"]", rc.pos, matched != "" && isErr, true, func() string {
			if matched != "" {
				return "refuses: " + want[matched]
			}
			return "an error return whose conditions are not one of the four documented refusals (unrecognised form)"
		}())
		seen[matched] = true
	}
	for w, what := range want {
		c.ob(rule, "preRun/refuses "+what, pre.Pos(), seen[w], true, "guard: "+w)
	}
	// ... and refuses them in EVERY case: on no way through preRun that ends in success can all the parts of a documented
	// refusal hold (path by path: a refusal that also asks for something else - "no buffering of either kind" - lets the
	// documented combination through)
	paths, complete := enumPaths(pre, func(r *ssa.Return) bool { return isNilConst(lastRet(r)) }, 4096)
	if !complete {
		c.undecided(rule, "preRun/refusals-are-complete", pre.Pos(), "too many paths (or a loop) to enumerate")
	} else {
		for w, what := range want {
			okRow := true
			witness := ""
			for _, conds := range paths {
				g := " && " + c.preRunGuard(conds) + " && "
				excluded := false
				for _, part := range strings.Split(w, " && ") {
					neg := "!" + part
					if strings.HasPrefix(part, "!") {
						neg = part[1:]
					}
					if strings.Contains(g, " && "+neg+" && ") {
						excluded = true
					}
				}
				if !excluded {
					okRow = false
					witness = strings.Trim(g, " &")
				}
			}
			c.ob(rule, "preRun/always-refuses "+what, pre.Pos(), okRow && len(paths) > 0, true, "a successful way through the pre-flight on which the refusal's condition ("+w+") is not excluded: "+witness)
		}
	}
	// what was validated is what is sent: after the pre-flight nothing in the CLI changes an option the refusals test
	for _, fname2 := range []struct{ typ, field string }{{"ServiceOptions", "TLSEnabled"}, {"ServiceOptions", "Hosts"}, {"ServiceOptions", "PathPrefixes"}, {"TargetOptions", "BufferRequests"}, {"TargetOptions", "BufferResponses"}, {"TargetOptions", "MaxRequestBodySize"}, {"TargetOptions", "MaxResponseBodySize"}} {
		f := c.field(fname2.typ, fname2.field)
		for _, w := range c.writesOfField(f) {
			o := outer(w.fn)
			if o.Pkg != c.cmd {
				continue
			}
			okW := o == pre || o.Name() == "newDeployCommand" || o.Name() == "init"
			c.ob(rule, "write "+fname2.typ+"."+fname2.field+" in "+fname(o), w.instr.Pos(), okW, true, "an option the pre-flight refusals depend on may be set only by the flag bindings and by preRun itself: changing it afterwards (in run) sends the proxy something that was never validated")
		}
	}
	// every successful path passes all the tests: the three top-level tests lie on every path; inside TLS both inner tests
	isTest := func(pred func(in ssa.Instruction) bool) bool {
		_, skip := reach(pre, nil, func(in ssa.Instruction) bool {
			r, ok := in.(*ssa.Return)
			return ok && isNilConst(lastRet(r))
		}, pred)
		return !skip
	}
	changedOf := func(flag string) func(in ssa.Instruction) bool {
		return func(in ssa.Instruction) bool {
			call, ok := in.(*ssa.Call)
			if !ok || calleeName(call.Common()) != "(*github.com/spf13/pflag.FlagSet).Changed" || len(call.Call.Args) == 0 {
				return false
			}
			f, _ := constStringDeep(call.Call.Args[len(call.Call.Args)-1])
			return f == flag
		}
	}
	c.ob(rule, "preRun/success-only-after-request-limit-test", pre.Pos(), isTest(changedOf("max-request-body")), true, "")
	c.ob(rule, "preRun/success-only-after-response-limit-test", pre.Pos(), isTest(changedOf("max-response-body")), true, "")
	tlsEn := c.field("ServiceOptions", "TLSEnabled")
	// from the TLS-enabled branch, success only after both Contains tests
	okTLS := false
	for _, b := range pre.Blocks {
		if len(b.Instrs) == 0 {
			continue
		}
		on, _ := boolFacts(b.Instrs[0], matchFieldLoad(tlsEn))
		if !on || (b.Idom() != nil && func() bool { o, _ := boolFacts(b.Idom().Instrs[0], matchFieldLoad(tlsEn)); return o }()) {
			continue
		}
		n := 0
		for _, v := range []string{"", "/"} {
			val := v
			_, skip := reach(pre, b.Instrs[0], func(in ssa.Instruction) bool {
				r, ok := in.(*ssa.Return)
				return ok && isNilConst(lastRet(r))
			}, func(in ssa.Instruction) bool {
				call, ok := in.(*ssa.Call)
				if !ok || !strings.HasPrefix(calleeName(call.Common()), "slices.Contains") {
					return false
				}
				s, _ := constString(call.Call.Args[1])
				return s == val
			})
			first, isFirst := b.Instrs[0].(*ssa.Call)
			if !skip || (isFirst && strings.HasPrefix(calleeName(first.Common()), "slices.Contains")) {
				n++
			}
		}
		okTLS = n == 2
	}
	c.ob(rule, "preRun/TLS-success-only-after-host-and-root-path-tests", pre.Pos(), okTLS, true, "")
	// Normalize first
	norm := c.methodIn(c.server, "ServiceOptions", "Normalize")
	okN := false
	for _, cs := range callsTo(pre, norm) {
		okN = true
		for _, b := range pre.Blocks {
			for _, in := range b.Instrs {
				if call, ok := in.(*ssa.Call); ok && strings.HasPrefix(calleeName(call.Common()), "slices.Contains") && !dominates(cs.instr, call) {
					okN = false
				}
			}
		}
	}
	c.ob(rule, "preRun/normalises-before-testing-hosts-and-prefixes", pre.Pos(), okN, true, "the tests are written against the normalised form (\"\" host, \"/\"-prefixed paths)")
	// no RPC from preRun
	rpc := c.transitivelyContains(pre, func(in ssa.Instruction) bool {
		ci, ok := in.(ssa.CallInstruction)
		return ok && (strings.HasPrefix(calleeName(ci.Common()), "net/rpc.") || strings.HasPrefix(calleeName(ci.Common()), "(*net/rpc."))
	}, map[*ssa.Function]bool{})
	c.ob(rule, "preRun/does-not-contact-the-proxy", pre.Pos(), !rpc, true, "")
	// forward-headers default
	fwd := c.field("TargetOptions", "ForwardHeaders")
	okF := false
	for _, w := range c.writesOfFieldIn(c.cmd, fwd) {
		if w.fn != pre {
			continue
		}
		if u, ok := w.val.(*ssa.UnOp); ok && isLoadOfField(u.X, tlsEn) {
			for _, ce := range dominatingConds(w.instr.Block()) {
				if call, ok := ce.cond.(*ssa.Call); ok && !ce.taken && calleeName(call.Common()) == "(*github.com/spf13/pflag.FlagSet).Changed" {
					if f, _ := constStringDeep(call.Call.Args[len(call.Call.Args)-1]); len(call.Call.Args) > 0 && f == "forward-headers" {
						okF = true
					}
				}
			}
		}
	}
	c.ob(rule, "preRun/forward-headers-defaults-to-!TLS-unless-given", pre.Pos(), okF, true, "")
}

// writesOfFieldIn: like writesOfField but over all module functions (cmd package included).
func (c *Ctx) writesOfFieldIn(_ *ssa.Package, f *types.Var) []fieldWrite { return c.writesOfField(f) }

func r203(c *Ctx) {
	const rule = "R20.3 exit-status-is-the-proxy's-result"
	c.floor(rule, 20)
	wrc := c.funcIn(c.cmd, "withRPCClient")
	// withRPCClient returns the dial error or fn(client)'s result
	var dial *ssa.Call
	for _, cs := range callsToName(wrc, "net/rpc.Dial") {
		dial = cs.instr.(*ssa.Call)
	}
	// which parameter is the callback (the socket path may or may not be passed in)
	fnIdx := -1
	for i, p := range wrc.Params {
		if _, isSig := p.Type().Underlying().(*types.Signature); isSig {
			fnIdx = i
		}
	}
	okW := dial != nil && fnIdx >= 0
	if okW {
		for _, ret := range normalReturns(wrc) {
			v := lastRet(ret)
			_, dialFailed := nilKnowledge(ret, sameAs(errResultOf(dial)))
			if dialFailed {
				okW = okW && v == errResultOf(dial)
				continue
			}
			call, isC := v.(*ssa.Call)
			okW = okW && isC && call.Call.Value == ssa.Value(wrc.Params[fnIdx]) && call.Call.Args[0] == resultOf(dial, 0)
		}
	}
	c.ob(rule, "withRPCClient/returns-dial-error-or-closure-result", wrc.Pos(), okW, true, "")
	// each client command
	cmds := []string{"deployCommand", "removeCommand", "pauseCommand", "stopCommand", "resumeCommand", "listCommand", "rolloutDeployCommand", "rolloutSetCommand", "rolloutStopCommand"}
	for _, t := range cmds {
		run := c.methodIn(c.cmd, t, "run")
		// run returns withRPCClient(...)'s result on every path
		okRun := false
		var closure *ssa.Function
		for _, cs := range callsTo(run, wrc) {
			call := cs.instr.(*ssa.Call)
			okRun = true
			for _, rc := range retCases(run) {
				v := rc.vals[len(rc.vals)-1]
				if resolve(v) == ssa.Value(call) || nonNilSource(v) == ssa.Value(call) {
					continue
				}
				// (success reported only when the exchange is known to have succeeded: `if err != nil { return err }; ...; return nil`)
				if okNil, _ := nilKnowledgeOf(rc.conds, sameAs(call)); isNilConst(v) && okNil {
					continue
				}
				okRun = false
			}
			if fnIdx >= 0 && fnIdx < len(call.Call.Args) {
				closure = closureFunc(call.Call.Args[fnIdx])
			}
		}
		c.ob(rule, t+".run/returns-withRPCClient-result", run.Pos(), okRun, true, "")
		if closure == nil {
			c.ob(rule, t+".run/closure", run.Pos(), false, true, "no closure passed to withRPCClient")
			continue
		}
		c.touched(closure.String())
		var callRPC *ssa.Call
		for _, cs := range callsToName(closure, "(*net/rpc.Client).Call") {
			callRPC = cs.instr.(*ssa.Call)
		}
		okCl := callRPC != nil
		if okCl {
			for _, ret := range normalReturns(closure) {
				v := lastRet(ret)
				_, failed := nilKnowledge(ret, sameAs(callRPC))
				okNil, _ := nilKnowledge(ret, sameAs(callRPC))
				if v == ssa.Value(callRPC) {
					continue
				}
				if isNilConst(v) && okNil && !failed {
					continue // e.g. list: `if err != nil { return err }; display; return nil`
				}
				okCl = false
			}
		}
		c.ob(rule, t+".run/closure-propagates-the-call-error", closure.Pos(), okCl, true, "the error returned by client.Call must be what the closure returns (dropping or replacing it makes the command exit 0 on failure)")
		// RunE wired
		ctor := c.funcIn(c.cmd, "new"+strings.ToUpper(t[:1])+t[1:])
		wired := false
		for _, b := range ctor.Blocks {
			for _, in := range b.Instrs {
				if st, ok := in.(*ssa.Store); ok {
					if f, _, ok := fieldOfAddr(st.Addr); ok && f.Name() == "RunE" && isFuncValueOf(st.Val, run) {
						wired = true
					}
				}
			}
		}
		c.ob(rule, t+"/RunE=run", ctor.Pos(), wired, true, "")
	}
	// Execute: os.Exit(1) on error
	ex := c.funcIn(c.cmd, "Execute")
	okExit := false
	for _, cs := range callsToName(ex, "(*github.com/spf13/cobra.Command).Execute") {
		e := cs.instr.(*ssa.Call)
		for _, x := range callsToName(ex, "os.Exit") {
			k, _ := constInt(x.common().Args[0])
			if _, failed := nilKnowledge(x.instr, sameAs(e)); failed && k != 0 {
				okExit = true
			}
		}
	}
	c.ob(rule, "Execute/non-zero-exit-on-error", ex.Pos(), okExit, true, "")
	// main calls Execute
	mainPkg := c.ssaPkgs[modulePath+"/cmd/kamal-proxy"]
	okMain := false
	if mainPkg != nil {
		if m := mainPkg.Func("main"); m != nil {
			okMain = len(callsTo(m, ex)) == 1
		}
	}
	c.ob(rule, "main/calls-Execute", ex.Pos(), okMain, true, "")
	// all commands registered
	reg := map[string]bool{}
	for _, fn := range []*ssa.Function{ex, c.funcIn(c.cmd, "newRolloutCommand")} {
		for _, cs := range callsToName(fn, "(*github.com/spf13/cobra.Command).AddCommand") {
			for _, e := range varargElems(cs.common().Args[1]) {
				if f, base, ok := fieldLoad(e); ok && f.Name() == "cmd" {
					if call, ok := base.(*ssa.Call); ok && call.Call.StaticCallee() != nil {
						reg[call.Call.StaticCallee().Name()] = true
					}
				}
			}
		}
	}
	// ... or collected in a slice that is then registered (loop / variadic): every `.cmd` of a constructor result
	// stored into a []*cobra.Command of a function that calls AddCommand
	for _, fn := range []*ssa.Function{ex, c.funcIn(c.cmd, "newRolloutCommand")} {
		if len(callsToName(fn, "(*github.com/spf13/cobra.Command).AddCommand")) == 0 {
			continue
		}
		for _, b := range fn.Blocks {
			for _, in := range b.Instrs {
				st, ok := in.(*ssa.Store)
				if !ok {
					continue
				}
				if _, isIdx := st.Addr.(*ssa.IndexAddr); !isIdx || !strings.HasSuffix(typeString(st.Val.Type()), "cobra.Command") {
					continue
				}
				if f, base, ok := fieldLoad(st.Val); ok && f.Name() == "cmd" {
					if call, ok := base.(*ssa.Call); ok && call.Call.StaticCallee() != nil {
						reg[call.Call.StaticCallee().Name()] = true
					}
				}
			}
		}
	}
	for _, n := range []string{"newRunCommand", "newDeployCommand", "newRemoveCommand", "newPauseCommand", "newStopCommand", "newResumeCommand", "newListCommand", "newRolloutCommand", "newRolloutDeployCommand", "newRolloutSetCommand", "newRolloutStopCommand"} {
		c.ob(rule, "registered: "+n, ex.Pos(), reg[n], true, "")
	}
	// server side: each handler returns the router's error
	ch := c.named("CommandHandler")
	for _, fn := range c.proxyFuncs() {
		if fn.Parent() != nil || recvNamed(fn) == nil || recvNamed(fn).Obj() != ch.Obj() || !fn.Object().Exported() || fn.Name() == "Start" || fn.Name() == "Close" || fn.Name() == "List" {
			continue
		}
		// the eight commands that change the proxy (a new read-only RPC method, or an exported method that is no RPC
		// handler at all, has no router error to report)
		if !map[string]bool{"Deploy": true, "Remove": true, "Pause": true, "Stop": true, "Resume": true, "RolloutDeploy": true, "RolloutSet": true, "RolloutStop": true}[fn.Name()] {
			continue
		}
		ok := false
		for _, rc := range retCases(fn) {
			v := rc.vals[len(rc.vals)-1]
			if call, isC := v.(*ssa.Call); isC && call.Call.StaticCallee() != nil && recvNamed(call.Call.StaticCallee()) != nil && recvNamed(call.Call.StaticCallee()).Obj().Name() == "Router" {
				ok = true
			} else {
				ok = false
				break
			}
		}
		c.ob(rule, "CommandHandler."+fn.Name()+"/returns-router-error", fn.Pos(), ok, true, "")
	}
}

func r204(c *Ctx) {
	const rule = "R20.4 rpc-name-and-argument-agreement"
	c.floor(rule, 10)
	ch := c.named("CommandHandler")
	ms := c.prog.MethodSets.MethodSet(types.NewPointer(ch))
	// registered name
	start := c.method("CommandHandler", "Start")
	regName := ""
	for _, cl := range withAnon(start) {
		for _, cs := range callsToName(cl, "net/rpc.RegisterName") {
			regName, _ = constString(cs.common().Args[0])
		}
	}
	c.ob(rule, "CommandHandler/registered-as-kamal-proxy", start.Pos(), regName == "kamal-proxy", true, "")
	n := 0
	for _, fn := range c.modFuncs {
		if outer(fn).Pkg != c.cmd {
			continue
		}
		for _, cs := range callsToName(fn, "(*net/rpc.Client).Call") {
			n++
			name, isConst := constStringDeep(cs.common().Args[1])
			parts := strings.SplitN(name, ".", 2)
			if !isConst || len(parts) != 2 {
				c.ob(rule, "Call in "+fname(fn)+"/constant-method-name", cs.pos(), false, true, "")
				continue
			}
			sel := ms.Lookup(c.server.Pkg, parts[1])
			okM := parts[0] == regName && sel != nil && sel.Obj().Exported()
			detail := "method " + name
			if okM {
				sig := sel.Type().(*types.Signature)
				// the dynamic type handed to net/rpc: look through interface boxing and single-assignment locals
				dyn := func(v ssa.Value) types.Type {
					for i := 0; i < 6; i++ {
						v = stripConv(v)
						r := resolve(v)
						if r == v {
							break
						}
						v = r
					}
					return v.Type()
				}
				argT := dyn(cs.common().Args[2])
				repT := dyn(cs.common().Args[3])
				okM = sig.Params().Len() == 2 && types.Identical(sig.Params().At(0).Type(), argT) && types.Identical(sig.Params().At(1).Type(), repT)
				detail = fmt.Sprintf("%s(%s, %s) called with (%s, %s)", name, typeString(sig.Params().At(0).Type()), typeString(sig.Params().At(1).Type()), typeString(argT), typeString(repT))
			}
			c.ob(rule, "Call "+name+" in "+fname(outer(fn)), cs.pos(), okM, true, "the RPC method string must name an exported CommandHandler method under the registered service name with identical argument and reply types (net/rpc resolves it by reflection at run time; a typo compiles): "+detail)
		}
	}
	c.ob(rule, "client-calls-found", start.Pos(), n == 9, false, fmt.Sprintf("%d client.Call sites", n))
	// each command calls its own method
	want := map[string]string{"deployCommand": "Deploy", "removeCommand": "Remove", "pauseCommand": "Pause", "stopCommand": "Stop", "resumeCommand": "Resume", "listCommand": "List", "rolloutDeployCommand": "RolloutDeploy", "rolloutSetCommand": "RolloutSet", "rolloutStopCommand": "RolloutStop"}
	for t, m := range want {
		run := c.methodIn(c.cmd, t, "run")
		ok := false
		for _, cs := range callsToNameDeep(run, "(*net/rpc.Client).Call") {
			if name, _ := constStringDeep(cs.common().Args[1]); name == "kamal-proxy."+m {
				ok = true
			}
		}
		c.ob(rule, t+"/calls kamal-proxy."+m, run.Pos(), ok, true, "")
	}
	// handlers forward the matching arguments (same-typed durations by name)
	c.durationArgsAgree(rule, []*ssa.Function{c.method("CommandHandler", "Deploy"), c.method("CommandHandler", "RolloutDeploy"), c.method("CommandHandler", "Pause"), c.method("CommandHandler", "Stop")})
}

func r205(c *Ctx) {
	const rule = "R20.5 list"
	c.floor(rule, 8)
	las := c.method("Router", "ListActiveServices")
	li := c.lockInfo()
	lock := c.field("Router", "serviceLock")
	var body *ssa.Function
	for _, cl := range withAnon(las) {
		for _, b := range cl.Blocks {
			for _, in := range b.Instrs {
				if mu, ok := in.(*ssa.MapUpdate); ok && namedOf(mu.Map.Type()) == modulePath+"/internal/server.ServiceDescriptionMap" {
					body = cl
					c.ob(rule, "ListActiveServices/entry-written-under-read-lock", mu.Pos(), li.holds(mu, lock, modeR), true, "")
					// key is the service's map key; only guard is active != nil
					extra := 0
					for _, ce := range dominatingCondsOtherThanLoop(mu) {
						cm, ok := ce.asCmp()
						if ok && isNilConst(cm.y) {
							if f, _, ok := fieldLoad(cm.x); ok && f.Name() == "active" {
								continue
							}
						}
						extra++
					}
					c.ob(rule, "ListActiveServices/one-entry-per-service-with-active-targets", mu.Pos(), extra == 0 && func() bool {
						p, ok := resolve(mu.Key).(*ssa.Parameter)
						return ok && p.Parent() == cl && len(cl.Params) == 2 && p == cl.Params[0]
					}(), true, "every deployed service must be listed, under its own name")
					// field provenance
					alloc := func() *ssa.Alloc {
						if u, ok := mu.Value.(*ssa.UnOp); ok {
							a, _ := u.X.(*ssa.Alloc)
							return a
						}
						return nil
					}()
					got := map[string]string{}
					if alloc != nil {
						for _, r := range *alloc.Referrers() {
							if fa, ok := r.(*ssa.FieldAddr); ok {
								f, _, _ := fieldOfAddr(fa)
								for _, rr := range *fa.Referrers() {
									if st, ok := rr.(*ssa.Store); ok {
										got[f.Name()] = describeListValue(st.Val)
									}
								}
							}
						}
					}
					want := map[string]string{"Host": "join(Hosts)", "Path": "join(PathPrefixes)", "Target": "join(active.Targets().Names())", "TLS": "options.TLSEnabled", "State": "pauseController.GetState().String()"}
					for k, w := range want {
						c.ob(rule, "ListActiveServices/"+k, mu.Pos(), got[k] == w, true, fmt.Sprintf("%s must be %s (got %s)", k, w, got[k]))
					}
				}
			}
		}
	}
	c.ob(rule, "ListActiveServices/builds-entries", las.Pos(), body != nil, false, "")
	// the reply carries exactly that map
	lh := c.method("CommandHandler", "List")
	okL := false
	for _, w := range c.writesOfField(c.field("ListResponse", "Targets")) {
		if w.fn == lh {
			if call, ok := w.val.(*ssa.Call); ok && isCallTo(call.Common(), las) {
				okL = true
			}
		}
	}
	c.ob(rule, "CommandHandler.List/replies-with-ListActiveServices", lh.Pos(), okL, true, "")
	// displayResponse: one row per key, six columns from that entry
	// (the printing helper of the reference tree, displayResponse, is always expanded into the list command's run)
	dr := c.methodIn(c.cmd, "listCommand", "run")
	// (the order of the rows is not part of the property and is not checked)
	rows := 0
	for _, fn := range withAnon(dr) {
		for _, cs := range callsTo(fn, c.methodIn(c.cmd, "Table", "AddRow")) {
			if inLoop(cs.instr.Block()) {
				rows++
				n := len(varargElemsOfSliceLit(cs.common().Args[1]))
				// (conditions of the form "the call to the server did not fail" do not make a row conditional)
				nCond := 0
				for _, ce := range dominatingCondsOtherThanLoop(cs.instr) {
					if !guardIsErrNil(ce) {
						nCond++
					}
				}
				c.ob(rule, "displayResponse/row-has-six-columns", cs.pos(), n == 6 && nCond == 0, true, fmt.Sprintf("%d columns, %d conditions", n, nCond))
				if n == 6 {
					c.listRowColumns(rule, cs, varargElemsOfSliceLit(cs.common().Args[1]))
				}
			}
		}
	}
	c.ob(rule, "displayResponse/one-row-per-service", dr.Pos(), rows == 1, true, "")
}

func varargElemsOfSliceLit(v ssa.Value) []ssa.Value { return varargElems(v) }

func describeListValue(v ssa.Value) string {
	v = throughStructCopy(v)
	if call, ok := v.(*ssa.Call); ok {
		switch calleeName(call.Common()) {
		case "cmp.Or":
			// first non-zero of (value, "*"): the value, with the documented placeholder for "any host"
			for _, e := range varargElems(call.Call.Args[0]) {
				if d := describeListValue(e); d != "?" && d != "" {
					return d
				}
			}
		case "strings.Join":
			inner := throughStructCopy(call.Call.Args[0])
			if ch, _ := fieldPath(inner); len(ch) > 0 {
				return "join(" + ch[len(ch)-1].Name() + ")"
			}
			if n, ok := inner.(*ssa.Call); ok && n.Call.StaticCallee() != nil && n.Call.StaticCallee().Name() == "Names" {
				if t, ok := n.Call.Args[0].(*ssa.Call); ok && t.Call.StaticCallee() != nil && t.Call.StaticCallee().Name() == "Targets" {
					if f, _, ok := fieldLoad(t.Call.Args[0]); ok {
						return "join(" + f.Name() + ".Targets().Names())"
					}
				}
			}
		default:
			if sc := call.Call.StaticCallee(); sc != nil && sc.Name() == "String" {
				if g, ok := call.Call.Args[0].(*ssa.Call); ok && g.Call.StaticCallee() != nil && g.Call.StaticCallee().Name() == "GetState" {
					if f, _, ok := fieldLoad(g.Call.Args[0]); ok {
						return f.Name() + ".GetState().String()"
					}
				}
			}
		}
	}
	// phi for host ("*" when empty)
	if phi, ok := v.(*ssa.Phi); ok {
		for _, e := range phi.Edges {
			if d := describeListValue(e); d != "?" && d != "" {
				return d
			}
		}
	}
	if ch, _ := fieldPath(v); len(ch) >= 2 {
		return ch[len(ch)-2].Name() + "." + ch[len(ch)-1].Name()
	}
	return "?"
}

// listRowColumns: the six cells of a row describe ONE service: the key of this iteration and, looked up under that key,
// its host, path, target and state; the TLS cell is "yes" exactly when that entry's TLS flag is set.
func (c *Ctx) listRowColumns(rule string, row callSite, cols []ssa.Value) {
	targetsF := c.fieldIn(c.server, "ListResponse", "Targets")
	key := resolve(cols[0])
	src, full := fullRangeElem(key)
	okKey := false
	if full {
		// the keys of the reply's map (sorted or not)
		var fromTargets func(v ssa.Value, d int) bool
		seenV := map[ssa.Value]bool{}
		fromTargets = func(v ssa.Value, d int) bool {
			if d > 8 {
				return false
			}
			v = resolve(v)
			if seenV[v] {
				return true
			}
			seenV[v] = true
			if isLoadOfField(v, targetsF) {
				return true
			}
			switch x := v.(type) {
			case *ssa.MakeSlice:
				return true // the empty list the names are collected into
			case *ssa.Slice:
				if a, ok := x.X.(*ssa.Alloc); ok && len(varargElems(x)) == 0 {
					_ = a
					return true // []string{}
				}
			case *ssa.Phi:
				for _, e := range x.Edges {
					if !fromTargets(e, d+1) {
						return false
					}
				}
				return true
			case *ssa.Call:
				if b, ok := x.Call.Value.(*ssa.Builtin); ok && b.Name() == "append" && len(x.Call.Args) == 2 {
					// names = append(names, <key of a pass over the reply's map>)
					if !fromTargets(x.Call.Args[0], d+1) {
						return false
					}
					els := varargElems(x.Call.Args[1])
					for _, el := range els {
						e, ok := resolve(el).(*ssa.Extract)
						if !ok || e.Index != 1 {
							return false
						}
						nx, ok := e.Tuple.(*ssa.Next)
						if !ok {
							return false
						}
						rg, ok := nx.Iter.(*ssa.Range)
						if !ok || !isLoadOfField(resolve(rg.X), targetsF) {
							return false
						}
					}
					return len(els) >= 1
				}
			}
			if call, ok := v.(*ssa.Call); ok && len(call.Call.Args) >= 1 {
				switch {
				case strings.HasPrefix(calleeName(call.Common()), "slices.Sorted"), strings.HasPrefix(calleeName(call.Common()), "maps.Keys"), strings.HasPrefix(calleeName(call.Common()), "slices.Collect"):
					return fromTargets(call.Call.Args[0], d+1)
				}
			}
			return false
		}
		okKey = fromTargets(src, 0)
	}
	c.ob(rule, "displayResponse/row-name-is-this-iteration's-key", row.pos(), okKey, true, "the first cell must be the key the loop is at, taken from a complete pass over the reply's map")
	entryOf := func(v ssa.Value) (string, bool) {
		ch, base := fieldPath(throughStructCopy(resolve(v)))
		if len(ch) == 0 {
			return "", false
		}
		base = resolve(base)
		if u, ok := base.(*ssa.UnOp); ok && u.Op == token.MUL {
			if a, ok := u.X.(*ssa.Alloc); ok {
				if cv := cellValue(a); cv != nil {
					base = resolve(cv)
				}
			}
		}
		l, ok := base.(*ssa.Lookup)
		if !ok || !isLoadOfField(resolve(l.X), targetsF) || resolve(l.Index) != key {
			return "", false
		}
		return ch[len(ch)-1].Name(), true
	}
	for i, want := range []string{"Host", "Path", "Target", "State"} {
		got, ok := entryOf(cols[i+1])
		c.ob(rule, "displayResponse/column-"+want, row.pos(), ok && got == want, true, fmt.Sprintf("cell %d must be the %s of the entry under this row's key (got %q)", i+1, want, got))
	}
	isTLS := func(v ssa.Value) bool {
		n, ok := entryOf(v)
		return ok && n == "TLS"
	}
	okTLS, nCases := true, 0
	why := ""
	for _, vc := range valueCases(cols[5], row.instr.Block()) {
		nCases++
		sv, isConst := constString(vc.val)
		on, off := boolFactsOf(vc.conds, isTLS)
		switch {
		case isConst && sv == "yes" && on:
		case isConst && sv == "no" && off:
		default:
			okTLS = false
			why = fmt.Sprintf("a way of filling the cell that is not \"yes\" under TLS / \"no\" under !TLS of this entry (value %s)", vc.val.String())
		}
	}
	c.ob(rule, "displayResponse/column-TLS", row.pos(), okTLS && nCases >= 2, true, "the TLS cell must say yes exactly when this entry's TLS flag is set: "+why)
}

// rFlagsBoundToCommand: every flag of a client command is bound (`XxxVar(&target, ...)`) to a field of the command object
// the constructor returns - the object whose `args` run() sends to the proxy. A flag bound to a local that is copied into
// the command afterwards is parsed into a variable nobody reads: the RPC then always carries the defaults (shared with
// C03 / C17: drain, deploy and pause timeouts given on the command line must be the ones the proxy gets).
func rFlagsBoundToCommand(c *Ctx, rule string) {
	c.floor(rule, 10)
	n := 0
	for _, fn := range c.modFuncs {
		if fn.Pkg != c.cmd || fn.Parent() != nil || !strings.HasPrefix(fn.Name(), "new") || !strings.HasSuffix(fn.Name(), "Command") {
			continue
		}
		// the object returned
		var returned ssa.Value
		for _, ret := range normalReturns(fn) {
			if len(ret.Results) == 1 {
				returned = resolve(ret.Results[0])
			}
		}
		for _, cs := range callsIn(fn) {
			name := calleeName(cs.common())
			if !strings.HasPrefix(name, "(*github.com/spf13/pflag.FlagSet).") || !strings.HasSuffix(name, "Var") || len(cs.common().Args) < 2 {
				continue
			}
			n++
			// root of the address the flag is parsed into
			addr := cs.common().Args[1]
			for {
				if fa, ok := addr.(*ssa.FieldAddr); ok {
					addr = fa.X
					continue
				}
				if ia, ok := addr.(*ssa.IndexAddr); ok {
					addr = ia.X
					continue
				}
				break
			}
			root := resolve(addr)
			_, isGlobal := root.(*ssa.Global)
			ok := returned != nil && (root == returned || isGlobal)
			c.ob(rule, fmt.Sprintf("%s/flag %s bound to the command object", fn.Name(), func() string { s, _ := constString(cs.common().Args[2]); return s }()), cs.pos(), ok, true, "a flag must be parsed into a field of the command object that the constructor returns (or a package-level setting): a local that is copied into the command afterwards keeps the parsed value to itself")
		}
	}
	c.note("flag bindings examined: %d", n)
}
