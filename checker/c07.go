package main

import (
	"fmt"
	"go/token"
	"go/types"
	"strings"

	"golang.org/x/tools/go/ssa"
)

func init() {
	register("C07", &propCheck{
		explain: "Decides the pause gate from the source: (R07.1) the PauseController transition system is EXTRACTED by abstract interpretation of Pause/Stop/Resume/setState/UnmarshalJSON over (State x channel{nil,open,closed} x message x max-pause) and explored exhaustively from both start states (constructor, JSON-decoded): paused => channel open, leaving paused closes that channel exactly once, re-pausing keeps the open channel and updates max-pause, no close(nil)/double close on any command order; (R07.2) Wait's outcome table (running->proceed, stopped->503+message, paused->block on {release channel, per-request time.After(FailAfter)} read under the controller lock, re-read after release) and the handler's mapping to 503/504/forward; health-check short-circuit; (R07.3) position of the gate between TLS policy and balancer choice; (R07.4) the controller is carried over by CopyWithOptions; (R07.5/R07.6) two known findings (held requests use pre-redeploy slots; ErrorDraining->503).",
		notDecided: []string{"which of resume/stop/timer wins a race for one held request", "the gate->claim window in general (documented; see K1)"},
		run:        checkC07,
	})
}

func checkC07(c *Ctx) {
	m := r071(c, "R07.1 pause-controller-typestate")
	_ = m
	r072(c, "R07.2 wait-outcomes")
	r073(c, "R07.3 gate-position")
	r074(c, "R07.4 gate-survives-redeploy")
	r075(c)
	k1(c, "R07.6 pause-never-refuses")
	r077(c, "R07.7 timeout-argument-agreement")
	// a released request is forwarded only if the balancer it reads still has its rotation (shared with C09)
	rRotationOnlyRefreshed(c, "R07.8 rotation-written-only-by-the-refresh")
	// pause returns only when the drain is over: a resume issued after it must not release held requests into targets
	// that are still refusing (shared with C03)
	r033(c, "R07.9 gate-before-drain-and-joins")
	// a rollout deploy updates the LIVE service, so requests held by a pause see the new rollout targets when released
	rRolloutDeployOnLive(c, "R07.10 rollout-deploy-updates-the-live-service")
	// "on stop it is answered 503 with the stop message": the message a held request is released with reaches the page
	// rendered for that request, and only as template data (shared with C08)
	r083(c, "R07.11 stop-message-reaches-the-page")
}

// rRolloutDeployOnLive: SetRolloutTargets hands deployTargetsIntoService the service it looked up (not a copy of it): held
// requests keep the *Service they resolved (K3), and only an update of that object reaches them.
func rRolloutDeployOnLive(c *Ctx, rule string) {
	c.floor(rule, 1)
	fn := c.method("Router", "SetRolloutTargets")
	dt := c.method("Router", "deployTargetsIntoService")
	lookup := c.method("Router", "serviceForName")
	cwo := c.method("Service", "CopyWithOptions")
	n := 0
	for _, cs := range callsTo(fn, dt) {
		n++
		v := resolve(cs.common().Args[1])
		live := false
		if call, ok := v.(*ssa.Call); ok && isCallTo(call.Common(), lookup) {
			live = true
		}
		// (looked up by a helper expanded in place: the value is the lookup's result merged with the helper's "not found")
		if _, isPhi := v.(*ssa.Phi); isPhi {
			nLook, other := 0, 0
			for _, vc := range valueCases(v, cs.instr.Block()) {
				if isNilConst(vc.val) {
					continue
				}
				if call, ok := vc.val.(*ssa.Call); ok && isCallTo(call.Common(), lookup) {
					nLook++
				} else {
					other++
				}
			}
			live = nLook >= 1 && other == 0
		}
		// (looked up through a small helper that returns the table's entry or an error)
		if e, ok := v.(*ssa.Extract); ok {
			if call, ok := e.Tuple.(*ssa.Call); ok && call.Call.StaticCallee() != nil {
				for _, in := range callsTo(call.Call.StaticCallee(), lookup) {
					_ = in
					live = true
				}
			}
		}
		c.ob(rule, "SetRolloutTargets/deploys-into-the-looked-up-service", cs.pos(), live && len(callsTo(fn, cwo)) == 0, true, "the rollout slot of the installed service object must be updated in place (a copy is invisible to requests already holding the service)")
	}
	c.ob(rule, "SetRolloutTargets/calls-the-deploy-routine", fn.Pos(), n == 1, true, "")
}

// newPCModel builds the abstract model of PauseController.
func newPCModel(c *Ctx) *pcModel {
	nt := c.named("PauseController")
	m := &pcModel{ai: &absInterp{c: c, recvType: nt}, states: map[string]pcState{}}
	m.stateF, m.chF = c.field("PauseController", "State"), c.field("PauseController", "pauseChannel")
	m.msgF, m.failF = c.field("PauseController", "StopMessage"), c.field("PauseController", "FailAfter")
	m.running, m.paused, m.stopped = c.enumVal(c.server, "PauseStateRunning"), c.enumVal(c.server, "PauseStatePaused"), c.enumVal(c.server, "PauseStateStopped")
	// json.Unmarshal(data, alias(p)) writes only exported fields: State (any enum value), StopMessage, FailAfter
	m.ai.decode = func(o *aObj) []*aObj {
		var outs []*aObj
		for _, st := range []int64{m.running, m.paused, m.stopped} {
			n := o.clone()
			n.fields[m.stateF] = aVal{k: kInt, i: st}
			n.fields[m.msgF] = aVal{k: kTok, tok: "savedMsg"}
			n.fields[m.failF] = aVal{k: kTok, tok: "savedFailAfter"}
			n.trace = append(n.trace, fmt.Sprintf("decoded State=%d", st))
			outs = append(outs, n)
		}
		return outs
	}
	return m
}

func r071(c *Ctx, rule string) *pcModel {
	c.floor(rule, 20)
	m := newPCModel(c)
	ai := m.ai
	pause, stop, resume := c.method("PauseController", "Pause"), c.method("PauseController", "Stop"), c.method("PauseController", "Resume")
	unm := c.method("PauseController", "UnmarshalJSON")
	npc := c.fn("NewPauseController")
	stName := func(s int64) string { return c.enumName(c.named("PauseState"), s) }

	type start struct {
		obj    *aObj
		origin string
	}
	var starts []start
	// constructor: interpret NewPauseController (the Alloc of the receiver type is the object)
	fresh := &aObj{fields: map[*types.Var]aVal{}, chans: map[int64]string{}}
	outs := ai.call(npc, nil, fresh, 0)
	for _, o := range outs {
		starts = append(starts, start{o.obj, "NewPauseController()"})
	}
	// decoded: UnmarshalJSON on a zero object
	zero := &aObj{fields: map[*types.Var]aVal{}, chans: map[int64]string{}}
	for _, o := range ai.call(unm, []aVal{{k: kRecv}, {k: kUnknown}}, zero, 0) {
		if len(o.ret) == 1 && o.ret[0].k != kNil {
			continue // decode error path
		}
		starts = append(starts, start{o.obj, "UnmarshalJSON(" + strings.Join(o.obj.trace, ",") + ")"})
	}
	if ai.bail != "" {
		c.undecided(rule, "abstract-interpreter", npc.Pos(), "cannot interpret the controller: "+ai.bail)
		return m
	}
	c.ob(rule, "start-states", npc.Pos(), len(starts) >= 4, true, fmt.Sprintf("%d start states (constructor + one per persisted State value)", len(starts)))

	valIndex := map[string]aVal{}
	remember := func(o *aObj) {
		for _, f := range []*types.Var{m.msgF, m.failF} {
			v := ai.field(o, f)
			valIndex[v.String()] = v
		}
	}
	check := func(key string, pos token.Pos, ok bool, detail string) { c.ob(rule, key, pos, ok, true, detail) }
	invariant := func(where string, pos token.Pos, o *aObj) {
		s := m.abstract(o, where)
		check("I4 no-panic: "+where, pos, len(o.events) == 0, strings.Join(o.events, "; "))
		if s.state == m.paused {
			check("I1 paused=>channel-open: "+where, pos, s.ch == "open", "State==paused but the release channel is "+s.ch+": held requests would wait on a nil/closed channel and the next resume/stop would close(nil)")
		}
		check("state-is-known: "+where, pos, s.state >= 0, "controller state not determined by the interpreter")
	}
	work := []pcState{}
	add := func(o *aObj, origin string) {
		remember(o)
		s := m.abstract(o, origin)
		if _, ok := m.states[s.key()]; !ok {
			m.states[s.key()] = s
			work = append(work, s)
		}
	}
	for _, st := range starts {
		invariant("start "+st.origin, unm.Pos(), st.obj)
		// a decoded controller must end in the state that was persisted
		if strings.HasPrefix(st.origin, "Unmarshal") {
			var want int64 = -1
			fmt.Sscanf(st.origin[strings.Index(st.origin, "State=")+6:], "%d", &want)
			got := m.abstract(st.obj, "")
			check("restore keeps persisted state: "+st.origin, unm.Pos(), got.state == want, fmt.Sprintf("persisted %s, restored %s", stName(want), stName(got.state)))
			if want == m.stopped {
				check("restore keeps stop message: "+st.origin, unm.Pos(), got.msg == "tok:savedMsg", "restored message "+got.msg)
			}
			if want == m.paused {
				check("restore keeps max-pause: "+st.origin, unm.Pos(), got.fail == "tok:savedFailAfter", "restored FailAfter "+got.fail)
			}
		}
		add(st.obj, st.origin)
	}
	type cmd struct {
		name string
		fn   *ssa.Function
		args []aVal
	}
	cmds := []cmd{
		{"Pause(D)", pause, []aVal{{k: kRecv}, {k: kTok, tok: "D"}}},
		{"Stop(M)", stop, []aVal{{k: kRecv}, {k: kTok, tok: "M"}}},
		{"Resume()", resume, []aVal{{k: kRecv}}},
	}
	for len(work) > 0 {
		pre := work[0]
		work = work[1:]
		for _, cm := range cmds {
			o := m.concretize(pre)
			// restore exact abstract values for message / fail-after
			if v, ok := valIndex[pre.msg]; ok {
				o.fields[m.msgF] = v
			}
			if v, ok := valIndex[pre.fail]; ok {
				o.fields[m.failF] = v
			}
			preCh := ai.field(o, m.chF)
			for _, out := range ai.call(cm.fn, cm.args, o, 0) {
				m.transitions++
				post := m.abstract(out.obj, "")
				where := fmt.Sprintf("%s --%s--> %s", pcStr(pre, stName), cm.name, pcStr(post, stName))
				invariant(where, cm.fn.Pos(), out.obj)
				if pre.state == m.paused && post.state != m.paused && preCh.k == kChan {
					check("I2 leaving-paused-releases-waiters: "+where, cm.fn.Pos(), out.obj.chans[preCh.i] == "closed", "the channel held requests wait on must be closed when the controller leaves paused")
				}
				if pre.state == m.paused && cm.name == "Pause(D)" && preCh.k == kChan {
					cur := ai.field(out.obj, m.chF)
					check("I3 re-pause-keeps-held-requests: "+where, cm.fn.Pos(), cur.k == kChan && cur.i == preCh.i && out.obj.chans[cur.i] == "open", "pausing an already paused controller must keep the same open channel (held requests stay held)")
				}
				switch cm.name {
				case "Pause(D)":
					check("Pause => paused, message cleared, max-pause set: "+where, cm.fn.Pos(), post.state == m.paused && post.msg == `tok:""` && post.fail == "tok:D", "")
				case "Stop(M)":
					check("Stop => stopped with the operator's message: "+where, cm.fn.Pos(), post.state == m.stopped && post.msg == "tok:M", "")
				case "Resume()":
					check("Resume => running, message cleared: "+where, cm.fn.Pos(), post.state == m.running && post.msg == `tok:""`, "")
				}
				if len(out.ret) == 1 {
					check("command reports no error: "+where, cm.fn.Pos(), out.ret[0].k == kNil, "")
				}
				add(out.obj, where)
			}
			if ai.bail != "" {
				c.undecided(rule, "abstract-interpreter", cm.fn.Pos(), "cannot interpret "+cm.name+": "+ai.bail)
				return m
			}
		}
	}
	c.note("PauseController model: %d abstract states, %d transitions explored exhaustively (fixpoint)", len(m.states), m.transitions)
	// nobody else writes the controller's fields
	for _, f := range []*types.Var{m.stateF, m.chF, m.msgF, m.failF} {
		for _, w := range c.writesOfField(f) {
			o := fname(outer(w.fn))
			ok := strings.HasPrefix(o, "(*server.PauseController).")
			c.ob(rule, "write PauseController."+f.Name()+" <- "+o, w.instr.Pos(), ok, false, "the controller's fields may only be written by its own methods (the model above covers exactly those)")
		}
	}
	return m
}

func pcStr(s pcState, stName func(int64) string) string {
	return fmt.Sprintf("(%s,ch=%s)", strings.TrimPrefix(stName(s.state), "PauseState"), s.ch)
}

func r072(c *Ctx, rule string) {
	c.floor(rule, 12)
	li := c.lockInfo()
	lock := c.field("PauseController", "lock")
	lockOwner[lock] = "PauseController"
	wait := c.method("PauseController", "Wait")
	gws := c.method("PauseController", "getWaitState")
	getState := c.method("PauseController", "GetState")
	getMsg := c.method("PauseController", "GetStopMessage")
	stateF, chF, failF, msgF := c.field("PauseController", "State"), c.field("PauseController", "pauseChannel"), c.field("PauseController", "FailAfter"), c.field("PauseController", "StopMessage")
	running, paused, stopped := c.enumVal(c.server, "PauseStateRunning"), c.enumVal(c.server, "PauseStatePaused"), c.enumVal(c.server, "PauseStateStopped")
	proceed, timedOut, aStopped := c.enumVal(c.server, "PauseWaitActionProceed"), c.enumVal(c.server, "PauseWaitActionTimedOut"), c.enumVal(c.server, "PauseWaitActionStopped")
	// getWaitState: under the lock; paused branch returns (paused, _, p.pauseChannel, time.After(p.FailAfter))
	c.guardedBy(rule, "PauseController", stateF, lock, map[string]string{"(*server.PauseController).UnmarshalJSON": "decode target is not yet shared (runs inside json.Unmarshal before the router installs the service)"})
	c.guardedBy(rule, "PauseController", chF, lock, nil)
	c.guardedBy(rule, "PauseController", failF, lock, map[string]string{"(*server.PauseController).UnmarshalJSON": "decode target is not yet shared"})
	c.guardedBy(rule, "PauseController", msgF, lock, map[string]string{"(*server.PauseController).UnmarshalJSON": "decode target is not yet shared"})
	// the snapshot's components are found by type, whether it is returned as a tuple or as one struct value
	iState, iMsg, iCh, iTm, asStruct := gwsComponents(c, gws)
	if iState < 0 || iMsg < 0 || iCh < 0 || iTm < 0 {
		c.undecided(rule, "getWaitState/shape", gws.Pos(), "the result does not carry exactly one state, one message, one release channel and one timer channel")
		return
	}
	retComp := func(ret *ssa.Return, i int) ssa.Value {
		if !asStruct {
			return retVal(ret, i)
		}
		if u, ok := retVal(ret, 0).(*ssa.UnOp); ok && u.Op == token.MUL {
			if a, ok := u.X.(*ssa.Alloc); ok {
				return localStructField(&ssa.FieldAddr{X: a, Field: i}, 0)
			}
		}
		return nil
	}
	okPaused := false
	for _, ret := range normalReturns(gws) {
		if k, ok := constInt(retComp(ret, iState)); ok && k == paused {
			isP := false
			for _, f := range intFacts(ret, matchFieldLoad(stateF)) {
				if f.op == token.EQL && f.k == paused {
					isP = true
				}
			}
			chOK := retComp(ret, iCh) != nil && isLoadOfField(stripConv(retComp(ret, iCh)), chF)
			tmOK := false
			if call, ok := retComp(ret, iTm).(*ssa.Call); ok && calleeName(call.Common()) == "time.After" && isLoadOfField(call.Call.Args[0], failF) && li.holds(call, lock, modeR) {
				tmOK = true
			}
			okPaused = isP && chOK && tmOK
		}
	}
	c.ob(rule, "getWaitState/paused => (release channel, fresh time.After(FailAfter)) read under one lock hold", gws.Pos(), okPaused, true, "each held request must get its own timer from the current FailAfter, together with the current release channel")
	// Wait: select and outcome table
	gcs := callsTo(wait, gws)
	sels := selectsIn(wait)
	if len(gcs) != 1 || len(sels) != 1 {
		c.undecided(rule, "Wait/shape", wait.Pos(), fmt.Sprintf("expected one getWaitState call and one select, found %d and %d", len(gcs), len(sels)))
		return
	}
	g := gcs[0].instr.(*ssa.Call)
	sel := sels[0]
	relArm, tmArm := -1, -1
	for i, st := range sel.States {
		if st.Dir != types.RecvOnly {
			continue
		}
		switch gwsCompOf(st.Chan, g) {
		case iCh:
			relArm = i
		case iTm:
			tmArm = i
		}
	}
	c.ob(rule, "Wait/select-arms", sel.Pos(), sel.Blocking && len(sel.States) == 2 && relArm >= 0 && tmArm >= 0, true, "a held request must block on exactly {release channel, its own max-pause timer}")
	isSt := func(v ssa.Value) bool { return gwsCompOf(v, g) == iState }
	for _, ret := range normalReturns(wait) {
		act, ok := constInt(retVal(ret, 0))
		if !ok {
			c.undecided(rule, "Wait/return-action", ret.Pos(), "non-constant action")
			continue
		}
		var st []int64
		for _, f := range intFacts(ret, isSt) {
			if f.op == token.EQL {
				st = append(st, f.k)
			}
		}
		arm, armKnown := selectArm(ret, sel)
		var reread []intFact
		reread = intFacts(ret, func(v ssa.Value) bool {
			call, ok := v.(*ssa.Call)
			return ok && isCallTo(call.Common(), getState)
		})
		rereadStopped, rereadNotStopped := false, false
		for _, f := range reread {
			if f.k == stopped && f.op == token.EQL {
				rereadStopped = true
			}
			if f.k == stopped && f.op == token.NEQ {
				rereadNotStopped = true
			}
		}
		has := func(k int64) bool {
			for _, x := range st {
				if x == k {
					return true
				}
			}
			return false
		}
		var good bool
		var why string
		switch act {
		case proceed:
			good = (has(running) && !armKnown) || (armKnown && arm == relArm && rereadNotStopped)
			why = "Proceed only when running, or when released and the re-read state is not stopped"
		case aStopped:
			msg := retVal(ret, 1)
			if has(stopped) && !armKnown {
				good = gwsCompOf(msg, g) == iMsg
			} else if armKnown && arm == relArm && rereadStopped {
				call, ok := msg.(*ssa.Call)
				good = ok && isCallTo(call.Common(), getMsg)
			}
			why = "Stopped (with the stop message) only when stopped, or when released into stopped"
		case timedOut:
			good = armKnown && arm == tmArm
			why = "TimedOut only on the request's own timer arm"
		}
		c.ob(rule, fmt.Sprintf("Wait/outcome %s", c.enumName(c.named("PauseWaitAction"), act)), ret.Pos(), good, true, why)
	}
	// handler mapping
	h := c.method("Service", "handlePausedAndStoppedRequests")
	wcs := callsTo(h, wait)
	if len(wcs) != 1 {
		c.undecided(rule, "handler/shape", h.Pos(), "expected one Wait call")
		return
	}
	wcall := wcs[0].instr.(*ssa.Call)
	act := resultOf(wcall, 0)
	msg := resultOf(wcall, 1)
	seen := map[int64]bool{}
	for _, s := range c.errorSites() {
		if s.fn != h || s.via != "SetErrorResponse" {
			continue
		}
		var a int64 = -1
		for _, f := range intFacts(s.instr, sameAs(act)) {
			if f.op == token.EQL {
				a = f.k
			}
		}
		seen[a] = true
		switch a {
		case aStopped:
			// template arguments carry the message
			carries := false
			if mi, ok := s.instr.(*ssa.Call).Call.Args[3].(*ssa.MakeInterface); ok {
				carries = structCarries(mi.X, msg)
			}
			c.ob(rule, "handler/stopped => 503 with the message", s.instr.Pos(), s.status == 503 && carries, true, "")
		case timedOut:
			c.ob(rule, "handler/timed-out => 504", s.instr.Pos(), s.status == 504, true, "")
		default:
			c.ob(rule, "handler/unexpected-error-response", s.instr.Pos(), false, true, "an error response under an unrecognised Wait outcome")
		}
		// and it returns true (request handled) afterwards
		_, toFalse := reach(h, s.instr, func(in ssa.Instruction) bool {
			r, ok := in.(*ssa.Return)
			if !ok {
				return false
			}
			b, isC := constBool(retVal(r, 0))
			return !isC || !b
		}, nil)
		if toFalse {
			// (the verdict may be kept in a local and returned once at the end: judged way by way)
			if paths, complete := enumPathsX(h, func(*ssa.Return) bool { return true }, 4000); complete {
				toFalse = false
				for _, pth := range paths {
					site := s.instr
					if pth.ret == nil || !pth.passes(func(in ssa.Instruction) bool { return in == site }) {
						continue
					}
					if b, isC := constBool(pth.pathValue(retVal(pth.ret, 0))); !isC || !b {
						toFalse = true
					}
				}
			}
		}
		c.ob(rule, fmt.Sprintf("handler/after-error-response-returns-handled (%d)", s.status), s.instr.Pos(), !toFalse, true, "after answering, the handler must report the request as handled (nothing is forwarded)")
	}
	c.ob(rule, "handler/covers-stopped-and-timed-out", h.Pos(), seen[aStopped] && seen[timedOut], true, "")
	// proceed => return false only when action is neither
	for _, ret := range normalReturns(h) {
		b, isC := constBool(retVal(ret, 0))
		if !isC || b {
			continue
		}
		neq := map[int64]bool{}
		for _, f := range intFacts(ret, sameAs(act)) {
			if f.op == token.NEQ {
				neq[f.k] = true
			}
			if f.op == token.EQL && f.k == proceed {
				neq[aStopped], neq[timedOut] = true, true
			}
		}
		c.ob(rule, "handler/forward-only-on-proceed", ret.Pos(), neq[aStopped] && neq[timedOut] && dominates(wcall, ret), true, "the request may continue to a target only after Wait, when the outcome is neither stopped nor timed-out")
	}
	// health-check short-circuit: 200 under state!=running && IsHealthCheckRequest, and before Wait
	ihc := c.methodIn(c.server, "TargetOptions", "IsHealthCheckRequest")
	for _, s := range c.errorSites() {
		if s.fn != h || s.via != "WriteHeader" {
			continue
		}
		notRunning := false
		for _, f := range intFacts(s.instr, func(v ssa.Value) bool {
			call, ok := v.(*ssa.Call)
			return ok && isCallTo(call.Common(), getState)
		}) {
			if f.op == token.NEQ && f.k == running {
				notRunning = true
			}
		}
		isHC, _ := boolFacts(s.instr, func(v ssa.Value) bool {
			call, ok := v.(*ssa.Call)
			return ok && isCallTo(call.Common(), ihc)
		})
		_, reachesWait := reach(h, s.instr, func(in ssa.Instruction) bool { return in == ssa.Instruction(wcall) }, nil)
		c.ob(rule, "handler/health-check-200-while-paused-or-stopped", s.instr.Pos(), s.status == 200 && notRunning && isHC && !reachesWait, true, "GET <health-check path> is answered 200 by the proxy itself exactly when the service is not running, without waiting")
	}
	// IsHealthCheckRequest: GET and exact path
	var sawGet, sawPath bool
	for _, b := range ihc.Blocks {
		for _, in := range b.Instrs {
			bo, ok := in.(*ssa.BinOp)
			if !ok || bo.Op != token.EQL {
				continue
			}
			for _, pr := range [][2]ssa.Value{{bo.X, bo.Y}, {bo.Y, bo.X}} {
				ch, _ := fieldPath(pr[0])
				if len(ch) == 1 && ch[0].Name() == "Method" {
					if s, ok := constString(pr[1]); ok && s == "GET" {
						sawGet = true
					}
				}
				if len(ch) == 2 && ch[0].Name() == "URL" && ch[1].Name() == "Path" {
					ch2, _ := fieldPath(pr[1])
					if len(ch2) == 2 && ch2[0].Name() == "HealthCheckConfig" && ch2[1].Name() == "Path" {
						sawPath = true
					}
				}
			}
		}
	}
	okRet := true
	for _, ret := range normalReturns(ihc) {
		for _, src := range phiSources(retVal(ret, 0)) {
			if b, ok := constBool(src); ok && !b {
				continue
			}
			if bo, ok := src.(*ssa.BinOp); ok && bo.Op == token.EQL {
				continue
			}
			okRet = false
		}
	}
	c.ob(rule, "IsHealthCheckRequest/GET-and-exact-path", ihc.Pos(), sawGet && sawPath && okRet, true, "health-check requests are exactly GET requests whose path equals the configured health-check path")
}

// gwsComponents: the positions of the state, the stop message, the release channel and the timer channel in getWaitState's
// result (a tuple, or a single struct value), by type; -1 for one that is absent or ambiguous.
func gwsComponents(c *Ctx, gws *ssa.Function) (iState, iMsg, iCh, iTm int, asStruct bool) {
	iState, iMsg, iCh, iTm = -1, -1, -1, -1
	res := gws.Signature.Results()
	var ts []types.Type
	if res.Len() == 1 {
		st, ok := res.At(0).Type().Underlying().(*types.Struct)
		if !ok {
			return
		}
		asStruct = true
		for i := 0; i < st.NumFields(); i++ {
			ts = append(ts, st.Field(i).Type())
		}
	} else {
		for i := 0; i < res.Len(); i++ {
			ts = append(ts, res.At(i).Type())
		}
	}
	set := func(p *int, i int) {
		if *p == -1 {
			*p = i
		} else {
			*p = -2
		}
	}
	for i, t := range ts {
		if n, ok := t.(*types.Named); ok && n.Obj().Name() == "PauseState" {
			set(&iState, i)
		} else if b, ok := t.Underlying().(*types.Basic); ok && b.Kind() == types.String {
			set(&iMsg, i)
		} else if ch, ok := t.Underlying().(*types.Chan); ok {
			if b, ok := ch.Elem().Underlying().(*types.Basic); ok && b.Kind() == types.Bool {
				set(&iCh, i)
			} else if n, ok := ch.Elem().(*types.Named); ok && n.Obj().Name() == "Time" {
				set(&iTm, i)
			}
		}
	}
	return
}

// gwsCompOf: which component of the getWaitState call g the value v is (-1: none).
func gwsCompOf(v ssa.Value, g *ssa.Call) int {
	for d := 0; d < 4; d++ {
		v = stripConv(v)
		switch x := v.(type) {
		case *ssa.Extract:
			if x.Tuple == ssa.Value(g) {
				return x.Index
			}
			return -1
		case *ssa.Field:
			if x.X == ssa.Value(g) {
				return x.Field
			}
			return -1
		case *ssa.UnOp:
			fa, ok := x.X.(*ssa.FieldAddr)
			if !ok || x.Op != token.MUL {
				return -1
			}
			if v = localStructField(fa, 0); v == nil {
				return -1
			}
		default:
			return -1
		}
	}
	return -1
}

// structCarries: v (a struct value or a load of a local struct) has a field initialised from val.
func structCarries(v ssa.Value, val ssa.Value) bool {
	u, ok := v.(*ssa.UnOp)
	if !ok {
		return false
	}
	a, ok := u.X.(*ssa.Alloc)
	if !ok {
		return false
	}
	for _, r := range *a.Referrers() {
		if fa, ok := r.(*ssa.FieldAddr); ok {
			for _, rr := range *fa.Referrers() {
				if st, ok := rr.(*ssa.Store); ok && st.Val == val {
					return true
				}
			}
		}
	}
	return false
}

func r073(c *Ctx, rule string) {
	c.floor(rule, 6)
	fn := c.method("Service", "serviceRequestWithTarget")
	gate := c.method("Service", "handlePausedAndStoppedRequests")
	lbf := c.method("Service", "loadBalancerForRequest")
	serve := c.method("LoadBalancer", "ServeHTTP")
	gs := callsTo(fn, gate)
	if len(gs) != 1 {
		c.undecided(rule, "serviceRequestWithTarget/gate", fn.Pos(), "expected one gate call")
		return
	}
	g := gs[0].instr.(*ssa.Call)
	for _, cs := range append(callsTo(fn, lbf), callsTo(fn, serve)...) {
		_, notHandled := boolFacts(cs.instr, sameAs(g))
		c.ob(rule, "forwarding-only-when-gate-let-through: "+cs.common().StaticCallee().Name(), cs.pos(), notHandled && dominates(g, cs.instr), true, "choosing a balancer and forwarding must be on the branch where the gate returned false")
	}
	for _, cs := range callsTo(fn, serve) {
		call, ok := cs.common().Args[0].(*ssa.Call)
		c.ob(rule, "forward-to-chosen-balancer", cs.pos(), ok && isCallTo(call.Common(), lbf), true, "the request must be served by the balancer loadBalancerForRequest chose")
	}
	// TLS policy decisions precede the gate and end the request
	_, site := c.redirectSite(rule)
	okRedir := site != nil
	if okRedir {
		_, toGate := reach(fn, site, func(in ssa.Instruction) bool { return in == ssa.Instruction(g) }, nil)
		_, fromGate := reach(fn, g, func(in ssa.Instruction) bool { return in == ssa.Instruction(site) }, nil)
		okRedir = !toGate && !fromGate
	}
	c.ob(rule, "redirect-decision-precedes-gate", g.Pos(), okRedir, true, "the gate must be reached only when no HTTPS redirect applies, and a redirect ends the request")
	n503 := 0
	for _, s := range c.errorSites() {
		if s.fn == fn && s.via == "SetErrorResponse" {
			n503++
			_, toGate := reach(fn, s.instr, func(in ssa.Instruction) bool { return in == ssa.Instruction(g) }, nil)
			_, fromGate := reach(fn, g, func(in ssa.Instruction) bool { return in == s.instr }, nil)
			c.ob(rule, "tls-refusal-precedes-gate", s.instr.Pos(), !toGate && !fromGate, true, "the TLS refusal must be decided before the gate and end the request")
		}
	}
	c.ob(rule, "tls-refusal-exists", fn.Pos(), n503 == 1, false, "")
}

func r074(c *Ctx, rule string) {
	c.floor(rule, 4)
	cwo := c.method("Service", "CopyWithOptions")
	for _, name := range []string{"active", "rollout", "pauseController", "rolloutController"} {
		f := c.field("Service", name)
		ok := false
		for _, w := range c.writesOfField(f) {
			if w.fn != cwo {
				continue
			}
			if lf, base, isL := fieldLoad(w.val); isL && lf == f && base == ssa.Value(cwo.Params[0]) {
				// unconditional: every return that hands out the copy comes after this store
				ok = true
				for _, ret := range normalReturns(cwo) {
					if !isNilConst(retVal(ret, 0)) && !dominates(w.instr, ret) {
						ok = false
					}
				}
			}
		}
		c.ob(rule, "CopyWithOptions/carries-over "+name, cwo.Pos(), ok, true, "a redeploy must keep the service's runtime state (same controller objects), so pause/stop/rollout state is unaffected")
	}
}

// R07.5 (known finding K3): slots read after the blocking gate without re-resolving the service.
func r075(c *Ctx) {
	const rule = "R07.5 no-stale-slots-after-blocking-wait"
	c.floor(rule, 1)
	fn := c.method("Service", "serviceRequestWithTarget")
	gate := c.method("Service", "handlePausedAndStoppedRequests")
	lbf := c.method("Service", "loadBalancerForRequest")
	isSelect := func(in ssa.Instruction) bool { _, ok := in.(*ssa.Select); return ok }
	for _, g := range callsTo(fn, gate) {
		blocks := c.transitivelyContains(gate, isSelect, map[*ssa.Function]bool{})
		for _, cs := range callsTo(fn, lbf) {
			_, after := reach(fn, g.instr, func(in ssa.Instruction) bool { return in == cs.instr }, nil)
			sameRecv := cs.common().Args[0] == g.common().Args[0]
			c.ob(rule, "serviceRequestWithTarget/slots-read-after-blocking-gate", cs.pos(), !(blocks && after && sameRecv), true,
				"a redeploy REPLACES the *Service (copy-on-deploy); a request that blocks in the pause gate and then reads s.active/s.rollout of the same receiver uses the pre-deploy balancers: after redeploy+resume held requests are sent to the replaced targets instead of 'the targets the service has at that moment'")
		}
	}
}

// k1: shared with C02 (ErrorDraining -> 503).
func k1(c *Ctx, rule string) {
	c.floor(rule, 1)
	serve := c.method("LoadBalancer", "ServeHTTP")
	claim := c.method("LoadBalancer", "claimTarget")
	start := c.method("Target", "StartRequest")
	drainingG := c.global(c.server, "ErrorDraining")
	returnsDraining := false
	for _, ret := range normalReturns(start) {
		for _, src := range phiSources(lastRet(ret)) {
			if isLoadOfGlobal(src, drainingG) {
				returnsDraining = true
			}
		}
	}
	claimForwards := false
	for _, cs := range callsTo(claim, start) {
		e := errResultOf(cs.instr.(*ssa.Call))
		for _, ret := range normalReturns(claim) {
			if e != nil && lastRet(ret) == e {
				claimForwards = true
			}
		}
	}
	for _, cs := range callsTo(serve, claim) {
		call, ok := cs.instr.(*ssa.Call)
		if !ok {
			continue
		}
		e := errResultOf(call)
		for _, s := range c.errorSites() {
			if s.fn != serve {
				continue
			}
			if _, onErr := nilKnowledge(s.instr, sameAs(e)); !onErr {
				continue
			}
			excluded := false
			for _, ce := range dominatingConds(s.instr.Block()) {
				if call, ok := ce.cond.(*ssa.Call); ok && calleeName(call.Common()) == "errors.Is" && !ce.taken && isLoadOfGlobal(call.Call.Args[1], drainingG) {
					excluded = true
				}
			}
			bad := returnsDraining && claimForwards && !excluded
			c.ob(rule, "LoadBalancer.ServeHTTP/ErrorDraining-becomes-error-response", s.instr.Pos(), !bad, true,
				"a request that resolved its service before the swap (or passed the pause gate) and claims a target while Drain holds it in 'draining' gets StartRequest's ErrorDraining, which the balancer answers with a proxy error instead of re-resolving/retrying")
		}
	}
}

// R07.7: same-typed duration arguments reach the like-named parameters.
func r077(c *Ctx, rule string) {
	c.floor(rule, 4)
	c.durationArgsAgree(rule, []*ssa.Function{
		c.method("CommandHandler", "Pause"), c.method("Router", "PauseService"), c.method("Service", "Pause"),
		c.method("CommandHandler", "Stop"), c.method("Router", "StopService"), c.method("Service", "Stop"),
	})
}

// durationArgsAgree: in the given functions, every time.Duration argument that is a parameter or a
// field must be passed to a callee parameter of the same (case-insensitive) name. Swapping two
// durations compiles; this is the only thing that tells them apart.
func (c *Ctx) durationArgsAgree(rule string, fns []*ssa.Function) {
	norm := func(s string) string { return strings.ToLower(strings.ReplaceAll(s, "_", "")) }
	isDur := func(t types.Type) bool { return typeString(t) == "time.Duration" }
	for _, fn := range fns {
		for _, cs := range callsIn(fn) {
			callee := cs.common().StaticCallee()
			if callee == nil || !c.inModule(callee) {
				continue
			}
			for i, a := range cs.common().Args {
				if i >= len(callee.Params) || !isDur(a.Type()) {
					continue
				}
				var src string
				if p, ok := a.(*ssa.Parameter); ok {
					src = p.Name()
				} else if ch, _ := fieldPath(a); len(ch) > 0 {
					src = ch[len(ch)-1].Name()
				} else {
					continue
				}
				want := callee.Params[i].Name()
				ok := norm(src) == norm(want) || (norm(want) == "timeout" && strings.HasSuffix(norm(src), "timeout")) || (norm(want) == "failafter" && norm(src) == "pausetimeout")
				c.ob(rule, fmt.Sprintf("%s: %s -> %s(%s:)", fname(fn), src, callee.Name(), want), cs.pos(), ok, true, "a duration must be passed to the like-named parameter (two durations of the same type can be swapped without a compile error)")
			}
		}
	}
}
