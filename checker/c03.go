package main

import (
	"fmt"
	"go/token"
	"go/types"
	"strings"

	"golang.org/x/tools/go/ssa"
)

func init() {
	register("C03", &propCheck{
		explain: "Decides the drain protocol's shape on every path: (R03.1) Target.Drain marks draining before it snapshots the in-flight set, uses one shared time.After(timeout) deadline, cancels hijacked entries before waiting, waits on exactly {request done, deadline}, and every exit of the wait reaches an unconditional cancel(ErrorDraining) of every snapshot entry; (R03.2) StartRequest's draining test and its registration in Target.inflight happen under one hold of inflightLock, as do all other accesses of state/inflight (lockset analysis); (R03.3) pause/stop set the gate before draining, synchronously, and all drains join (WaitGroup.Wait on every path, over lb.all, both slots); (R03.4) the drain cause maps to 504; (R03.5) no probe result moves a target out of 'draining' (typestate extracted from the stores in HealthCheckCompleted); (R03.6) disposal leaves replaced targets claimable (known finding K2). (R03.11) a refused claim is final: LoadBalancer.ServeHTTP claims once, not in a loop; (R03.12) the context given to a request on the request path descends from a request's context, never from Background/TODO/WithoutCancel.",
		notDecided: []string{"elapsed time ('up to the drain timeout', 'as soon as draining begins')", "requests in the gate->claim window", "transport behaviour of cancelled upgraded connections"},
		run:        checkC03,
	})
}

func checkC03(c *Ctx) {
	r031(c, "R03.1 drain-protocol-order")
	r032(c)
	r033(c, "R03.3 gate-before-drain-and-joins")
	r034(c)
	r035(c)
	r036(c)
	// held requests choose their balancer only after the gate (shared with C07)
	r073(c, "R03.7 balancer-chosen-after-the-gate")
	r171b(c)
	// held requests are released only by resume/stop/their own timer: the gate's state machine (shared with C07)
	r071(c, "R03.8 gate-state-machine")
	// "nothing is sent to replaced targets after the deploy returned": also when a rollout deploy that started earlier
	// finishes later and puts the replaced service object back (known finding K9)
	rStaleInstall(c, "R03.9 replaced-service-is-never-reinstalled", "SetRolloutTargets", "service-looked-up-before-the-health-wait-installed-after")
	// the drain timeout given to `stop` / `pause` / `deploy` is the one the proxy drains with (shared with C20)
	rFlagsBoundToCommand(c, "R03.10 flags-bound-to-the-command-object")
	rRefusalIsFinal(c, "R03.11 refusal-is-final")
	rRequestContextChain(c, "R03.12 request-context-chain-unbroken")
}

func isLoadOfGlobal(v ssa.Value, g *ssa.Global) bool {
	u, ok := v.(*ssa.UnOp)
	return ok && u.Op == token.MUL && u.X == ssa.Value(g)
}

// R03.1 drain protocol order.
func r031(c *Ctx, rule string) {
	c.floor(rule, 9)
	fn := c.method("Target", "Drain")
	upd := c.method("Target", "updateState")
	pend := c.method("Target", "pendingRequestsToCancel")
	draining := c.enumVal(c.server, "TargetStateDraining")
	errDraining := c.global(c.server, "ErrorDraining")
	cancelF := c.field("inflightRequest", "cancel")
	hijackedF := c.field("inflightRequest", "hijacked")
	inflightF := c.field("Target", "inflight")

	var mark *ssa.Call
	for _, cs := range callsTo(fn, upd) {
		if call, ok := cs.instr.(*ssa.Call); ok {
			if k, ok := constInt(call.Call.Args[1]); ok && k == draining {
				mark = call
			}
		}
	}
	if !c.ob(rule, "Drain/marks-draining", fn.Pos(), mark != nil, true, "Drain must call updateState(TargetStateDraining)") {
		return
	}
	snaps := callsTo(fn, pend)
	if len(snaps) != 1 {
		c.undecided(rule, "Drain/snapshot", fn.Pos(), fmt.Sprintf("expected one pendingRequestsToCancel() call, found %d", len(snaps)))
		return
	}
	snap := snaps[0].instr.(*ssa.Call)
	c.ob(rule, "Drain/mark-before-snapshot", snap.Pos(), dominates(mark, snap), true, "the target must be marked draining before the in-flight set is snapshotted (else a request can register after the snapshot without seeing 'draining')")
	c.ob(rule, "Drain/no-direct-inflight-access", fn.Pos(), len(fieldAddrsIn(fn, inflightF)) == 0, true, "Drain must iterate the snapshot, not t.inflight itself")
	// deadline: one time.After(timeout) outside any loop
	var deadline *ssa.Call
	nAfter := 0
	for _, cs := range callsToName(fn, "time.After") {
		nAfter++
		if call, ok := cs.instr.(*ssa.Call); ok && call.Call.Args[0] == ssa.Value(fn.Params[1]) && !inLoop(call.Block()) {
			deadline = call
		}
	}
	c.ob(rule, "Drain/one-shared-deadline", fn.Pos(), nAfter == 1 && deadline != nil, true, "exactly one time.After(timeout) on the drain-timeout parameter, created outside the per-request loop")
	drainRestores(c, rule, fn, upd, mark, draining)
	// wait select
	sels := selectsIn(fn)
	if len(sels) != 1 {
		c.undecided(rule, "Drain/wait-select", fn.Pos(), fmt.Sprintf("expected one select in Drain, found %d", len(sels)))
		return
	}
	sel := sels[0]
	okArms := sel.Blocking && len(sel.States) == 2
	var doneArm, deadlineArm = -1, -1
	for i, st := range sel.States {
		if st.Dir != types.RecvOnly {
			okArms = false
			continue
		}
		if deadline != nil && stripConv(st.Chan) == ssa.Value(deadline) {
			deadlineArm = i
		} else if call, ok := stripConv(st.Chan).(*ssa.Call); ok && call.Call.IsInvoke() && call.Call.Method.Name() == "Done" {
			if cx, ok := call.Call.Value.(*ssa.Call); ok && calleeName(cx.Common()) == "(*net/http.Request).Context" {
				doneArm = i
			}
		}
	}
	c.ob(rule, "Drain/wait-arms", sel.Pos(), okArms && doneArm >= 0 && deadlineArm >= 0, true, "the wait must be a blocking select with exactly the arms {request context done, shared deadline}")
	c.ob(rule, "Drain/mark-and-snapshot-before-wait", sel.Pos(), dominates(snap, sel), true, "snapshot precedes the wait")
	// cancel calls
	type cancelCall struct {
		in        ssa.Instruction
		onlyHijak bool
		cause     bool
	}
	var cancels []cancelCall
	for _, cs := range callsIn(fn) {
		cc := cs.common()
		if cc.IsInvoke() || cc.StaticCallee() != nil || !isLoadOfField(cc.Value, cancelF) {
			continue
		}
		hj, _ := boolFacts(cs.instr, matchFieldLoad(hijackedF))
		cancels = append(cancels, cancelCall{cs.instr, hj, len(cc.Args) == 1 && isLoadOfGlobal(cc.Args[0], errDraining)})
	}
	var all, hij []cancelCall
	for _, cc := range cancels {
		c.ob(rule, "Drain/cancel-cause-is-ErrorDraining", cc.in.Pos(), cc.cause, true, "requests cut off by a drain must be cancelled with ErrorDraining (the cause handleProxyError maps to 504)")
		if cc.onlyHijak {
			hij = append(hij, cc)
		} else if hjT, hjF := boolFacts(cc.in, func(v ssa.Value) bool {
			f, _, ok := fieldLoad(v)
			return ok && f.Pkg() == hijackedF.Pkg() && (f == hijackedF || f == cancelF)
		}); !hjT && !hjF {
			all = append(all, cc)
		}
	}
	// the wait loop is left only when every entry was waited for, or by the deadline arm: any other way out cuts the
	// remaining requests off before the deadline
	if hdr := loopNext(sel); hdr != nil {
		hb := hdr.Block()
		inLoopB := map[*ssa.BasicBlock]bool{}
		for _, b := range fn.Blocks {
			if !hb.Dominates(b) {
				continue
			}
			// b can get back to the header
			seen := map[*ssa.BasicBlock]bool{}
			stack := append([]*ssa.BasicBlock{}, b.Succs...)
			for len(stack) > 0 {
				x := stack[len(stack)-1]
				stack = stack[:len(stack)-1]
				if x == hb {
					inLoopB[b] = true
					break
				}
				if seen[x] || !hb.Dominates(x) {
					continue
				}
				seen[x] = true
				stack = append(stack, x.Succs...)
			}
		}
		inLoopB[hb] = true
		// the blocks that only dispatch on the select's index belong to the wait as well
		isSelIdx := func(v ssa.Value) bool {
			e, ok := v.(*ssa.Extract)
			return ok && e.Tuple == ssa.Value(sel) && e.Index == 0
		}
		for grown := true; grown; {
			grown = false
			for b := range inLoopB {
				for _, sx := range b.Succs {
					if inLoopB[sx] {
						continue
					}
					only := len(sx.Instrs) > 0
					for _, in := range sx.Instrs {
						switch x := in.(type) {
						case *ssa.BinOp:
							if !isSelIdx(x.X) && !isSelIdx(x.Y) {
								only = false
							}
						case *ssa.If:
						default:
							only = false
						}
					}
					if only {
						inLoopB[sx] = true
						grown = true
					}
				}
			}
		}
		okExits := true
		var badAt ssa.Instruction
		for b := range inLoopB {
			for _, sx := range b.Succs {
				if inLoopB[sx] || b == hb {
					continue
				}
				if len(sx.Instrs) > 0 {
					if _, isPanic := sx.Instrs[len(sx.Instrs)-1].(*ssa.Panic); isPanic {
						continue // "blocking select matched no case": not a way out
					}
				}
				arm := -1
				for _, f := range intFactsOf(append(dominatingConds(b), edgeCond(b, sx)...), func(v ssa.Value) bool {
					e, ok := v.(*ssa.Extract)
					return ok && e.Tuple == ssa.Value(sel) && e.Index == 0
				}) {
					if f.op == token.EQL {
						arm = int(f.k)
					}
				}
				if arm != deadlineArm || deadlineArm < 0 {
					okExits = false
					if len(b.Instrs) > 0 {
						badAt = b.Instrs[len(b.Instrs)-1]
					}
				}
			}
		}
		pos := sel.Pos()
		if badAt != nil && badAt.Pos().IsValid() {
			pos = badAt.Pos()
		}
		c.ob(rule, "Drain/wait-loop-left-only-by-completion-or-deadline", pos, okExits, true, "the per-request wait may be abandoned only on the deadline arm; leaving it any other way reaches the cancel-all step while requests that could still finish are in flight")
	} else {
		c.ob(rule, "Drain/wait-loop-left-only-by-completion-or-deadline", sel.Pos(), false, true, "the wait select is not inside a loop over the snapshot")
	}
	c.ob(rule, "Drain/hijacked-cancelled-before-wait", sel.Pos(), len(hij) >= 1 && func() bool {
		for _, h := range hij {
			if !loopHeaderDominates(h.in, sel) {
				return false
			}
			// the hijack pass is finished when waiting starts: the wait can never be followed by a hijack-cancel
			if _, back := reach(fn, sel, func(in ssa.Instruction) bool { return in == h.in }, nil); back {
				return false
			}
		}
		return true
	}(), true, "upgraded (hijacked) connections must be cancelled in a loop that completes before the wait begins (not interleaved with the per-request wait)")
	// hijacked is set only by an actual hijack
	for _, w := range c.writesOfField(hijackedF) {
		o := fname(outer(w.fn))
		v, isConst := constBool(w.val)
		ok := o == "(*server.targetResponseWriter).Hijack" || (isConst && !v)
		c.ob(rule, "write inflightRequest.hijacked <- "+o, w.instr.Pos(), ok, false, "the hijacked flag (which makes Drain cut a request off at once) may be set only by targetResponseWriter.Hijack")
	}
	if c.ob(rule, "Drain/has-unconditional-cancel-all", fn.Pos(), len(all) >= 1, true, "there must be a loop cancelling every snapshot entry unconditionally") {
		hdrs := map[ssa.Instruction]bool{}
		ok := true
		for _, a := range all {
			if hdr := loopNext(a.in); hdr != nil {
				hdrs[hdr] = true
			} else {
				ok = false
			}
		}
		if ok {
			_, skip := reach(fn, sel, isReturn, func(in ssa.Instruction) bool { return hdrs[in] })
			ok = !skip
		}
		c.ob(rule, "Drain/every-exit-of-wait-reaches-cancel-all", sel.Pos(), ok, true, "every path from the wait (completion or deadline) to return must run the cancel-all loop")
		// the loops range over the snapshot
		okRange := true
		for _, b := range fn.Blocks {
			for _, in := range b.Instrs {
				if r, ok := in.(*ssa.Range); ok && r.X != ssa.Value(snap) {
					okRange = false
				}
			}
		}
		c.ob(rule, "Drain/loops-range-over-snapshot", fn.Pos(), okRange, true, "all loops of Drain must range over the snapshot value")
	}
}

// drainRestores: every exit of Drain reachable from the marking call puts the pre-drain state back (a deferred
// updateState(<value returned by the marking call>), or an explicit one on every path), except the exit taken when
// the target was already draining (the drain in progress restores it).
func drainRestores(c *Ctx, rule string, fn, upd *ssa.Function, mark *ssa.Call, draining int64) {
	isRestore := func(in ssa.Instruction) bool {
		ci, ok := in.(ssa.CallInstruction)
		return ok && isCallTo(ci.Common(), upd) && len(ci.Common().Args) == 2 && ci.Common().Args[1] == ssa.Value(mark)
	}
	var deferred []ssa.Instruction
	for _, cs := range callsTo(fn, upd) {
		if d, ok := cs.instr.(*ssa.Defer); ok && isRestore(d) {
			deferred = append(deferred, d)
		}
	}
	n, restoreOK := 0, true
	var bad ssa.Instruction
	for _, ret := range normalReturns(fn) {
		if _, reaches := reach(fn, mark, func(in ssa.Instruction) bool { return in == ssa.Instruction(ret) }, nil); !reaches {
			continue
		}
		lo, hi, _ := interval(intFacts(ret, func(v ssa.Value) bool { return v == ssa.Value(mark) }))
		if lo == draining && hi == draining {
			continue // already draining when called
		}
		n++
		ok := false
		for _, d := range deferred {
			if dominates(d, ret) {
				ok = true
			}
		}
		if !ok {
			_, skips := reach(fn, mark, func(in ssa.Instruction) bool { return in == ssa.Instruction(ret) }, func(in ssa.Instruction) bool {
				_, isCall := in.(*ssa.Call)
				return isCall && isRestore(in)
			})
			ok = !skips
		}
		if !ok {
			restoreOK, bad = false, ret
		}
	}
	// ... and a drain that finds the target already draining restores nothing: the value it got back IS 'draining', and
	// putting that back after the drain in progress has finished leaves the target refusing requests for good
	okNoStale := true
	var stale ssa.Instruction
	var restores []ssa.Instruction
	restores = append(restores, deferred...)
	for _, cs := range callsTo(fn, upd) {
		if call, isCall := cs.instr.(*ssa.Call); isCall && isRestore(call) {
			restores = append(restores, call)
		}
	}
	for _, r := range restores {
		notDraining := false
		for _, f := range intFacts(r, func(v ssa.Value) bool { return v == ssa.Value(mark) }) {
			if f.op == token.NEQ && f.k == draining {
				notDraining = true
			}
		}
		if !notDraining {
			okNoStale, stale = false, r
		}
	}
	spos := fn.Pos()
	if stale != nil {
		spos = stale.Pos()
	}
	c.ob(rule, "Drain/never-restores-draining", spos, okNoStale && len(restores) >= 1, true, "the restore must be registered / made only when the state found was not already 'draining' (overlapping pause and stop drain the same target twice)")
	pos := fn.Pos()
	if bad != nil {
		pos = bad.Pos()
	}
	c.ob(rule, "Drain/restores-pre-drain-state", pos, restoreOK && n >= 1, true, "every exit of Drain (completion and deadline alike) must put back the state returned by the marking call, by a deferred or explicit updateState: a target left 'draining' refuses every later request")
}

// dominatingCondsOtherThanLoop: conditions controlling `in` other than range/loop continuation tests.
func dominatingCondsOtherThanLoop(in ssa.Instruction) []condEdge {
	return condsOtherThanLoop(dominatingConds(in.Block()))
}

// condsOtherThanEmptiness drops tests of the form len(xs) != 0 for a list that is ranged over completely somewhere in the
// same function: skipping the loop over an empty list excludes nothing the loop would have done.
func condsOtherThanEmptiness(all []condEdge) []condEdge {
	var out []condEdge
	for _, ce := range all {
		if cm, ok := ce.asCmp(); ok {
			var lenCall *ssa.Call
			var k int64
			var isK bool
			if call, isCall := cm.x.(*ssa.Call); isCall {
				lenCall = call
				k, isK = constInt(cm.y)
			}
			if lenCall != nil && isK {
				if bi, isB := lenCall.Call.Value.(*ssa.Builtin); isB && bi.Name() == "len" && len(lenCall.Call.Args) == 1 {
					nonEmpty := (cm.op == token.NEQ && k == 0) || (cm.op == token.GTR && k == 0) || (cm.op == token.GEQ && k == 1)
					if nonEmpty && isRangedCompletely(lenCall.Parent(), lenCall.Call.Args[0]) {
						continue
					}
				}
			}
		}
		out = append(out, ce)
	}
	return out
}

// isRangedCompletely: some forward, complete range loop of fn runs over the slice value v.
func isRangedCompletely(fn *ssa.Function, v ssa.Value) bool {
	v = resolve(v)
	for _, b := range fn.Blocks {
		for _, in := range b.Instrs {
			u, ok := in.(*ssa.UnOp)
			if !ok || u.Op != token.MUL {
				continue
			}
			if src, full := fullRangeElem(u); full && resolve(src) == v {
				return true
			}
		}
	}
	return false
}

func condsOtherThanLoop(all []condEdge) []condEdge {
	var out []condEdge
	for _, ce := range all {
		if e, ok := ce.cond.(*ssa.Extract); ok {
			if _, isNext := e.Tuple.(*ssa.Next); isNext {
				continue
			}
		}
		// range-over-func bodies start with a synthetic "yield still valid" test on a jump$N cell
		if b, ok := ce.cond.(*ssa.BinOp); ok {
			if u, ok := b.X.(*ssa.UnOp); ok {
				switch x := u.X.(type) {
				case *ssa.FreeVar:
					if strings.HasPrefix(x.Name(), "jump$") {
						continue
					}
				case *ssa.Alloc:
					if strings.HasPrefix(x.Comment, "jump$") {
						continue
					}
				}
			}
		}
		if b, ok := ce.cond.(*ssa.BinOp); ok {
			if _, isPhi := b.X.(*ssa.Phi); isPhi {
				continue
			}
			if bx, ok := b.X.(*ssa.BinOp); ok {
				if _, isPhi := bx.X.(*ssa.Phi); isPhi {
					continue
				}
			}
		}
		out = append(out, ce)
	}
	return out
}

// loopNext: the Next instruction of the range loop whose element `in` operates on.
func loopNext(in ssa.Instruction) *ssa.Next {
	for _, ce := range dominatingConds(in.Block()) {
		if e, ok := ce.cond.(*ssa.Extract); ok {
			if n, isNext := e.Tuple.(*ssa.Next); isNext && ce.taken {
				return n
			}
		}
	}
	return nil
}

func loopHeaderDominates(in, later ssa.Instruction) bool {
	n := loopNext(in)
	return n != nil && dominates(n, later) && n.Block() != later.Block()
}

// R03.2 refusal and registration are one critical section.
func r032(c *Ctx) {
	const rule = "R03.2 refuse-and-register-atomically"
	c.floor(rule, 8)
	lock := c.field("Target", "inflightLock")
	lockOwner[lock] = "Target"
	stateF, inflightF := c.field("Target", "state"), c.field("Target", "inflight")
	exempt := map[string]string{"server.NewTarget": "constructor"}
	c.guardedBy(rule, "Target", stateF, lock, exempt)
	c.guardedBy(rule, "Target", inflightF, lock, exempt)
	sr := c.method("Target", "StartRequest")
	draining := c.enumVal(c.server, "TargetStateDraining")
	errDraining := c.global(c.server, "ErrorDraining")
	li := c.lockInfo()
	// registration only when state != draining is known; never unlocked in between
	nreg := 0
	for _, b := range sr.Blocks {
		for _, in := range b.Instrs {
			mu, ok := in.(*ssa.MapUpdate)
			if !ok || !isLoadOfField(mu.Map, inflightF) {
				continue
			}
			nreg++
			notDraining := false
			// the test must read t.state directly while this same lock hold is in effect (a getter that takes and
			// releases the lock before the registration is a check-then-act race)
			for _, f := range intFacts(in, func(v ssa.Value) bool {
				u, ok := v.(*ssa.UnOp)
				if !ok || u.Op != token.MUL {
					return false
				}
				fv, _, ok := fieldOfAddr(u.X)
				return ok && fv == stateF && li.holds(u, lock, modeW)
			}) {
				if f.op == token.NEQ && f.k == draining {
					notDraining = true
				}
			}
			c.ob(rule, "StartRequest/register-only-if-not-draining", in.Pos(), notDraining && li.holds(in, lock, modeW), true, "the in-flight registration must be on the state!=draining branch, under inflightLock")
			// no unlock between function entry and the registration
			unlocked := false
			for _, cs := range callsIn(sr) {
				if op, ok := lockOpOf(cs.common()); ok && !op.acquire && op.field == lock {
					if _, isDefer := cs.instr.(*ssa.Defer); !isDefer && dominates(cs.instr, in) {
						unlocked = true
					}
				}
			}
			c.ob(rule, "StartRequest/one-continuous-hold", in.Pos(), !unlocked, true, "the lock must not be released between the draining test and the registration")
		}
	}
	c.ob(rule, "StartRequest/registers", sr.Pos(), nreg == 1, false, "StartRequest registers the request in Target.inflight")
	refuses := false
	for _, ret := range normalReturns(sr) {
		if isLoadOfGlobal(lastRet(ret), errDraining) {
			for _, f := range intFacts(ret, matchFieldLoad(stateF)) {
				if f.op == token.EQL && f.k == draining {
					refuses = true
				}
			}
		}
	}
	c.ob(rule, "StartRequest/refuses-while-draining", sr.Pos(), refuses, true, "StartRequest must return ErrorDraining on the state==draining branch")
}

// joinShape checks a fan-out/join helper: every path to return passes wg.Wait,
// the count is len(coll) and the goroutine body runs `work` then Done.
func (c *Ctx) joinShape(rule, name string, fn *ssa.Function, collOK func(ssa.Value) bool, collDesc string, workOK func(cl *ssa.Function) bool, workDesc string) {
	isWait := func(in ssa.Instruction) bool {
		ci, ok := in.(*ssa.Call)
		return ok && calleeName(ci.Common()) == "(*sync.WaitGroup).Wait"
	}
	_, skip := reach(fn, nil, isReturn, isWait)
	c.ob(rule, name+"/join-on-every-path", fn.Pos(), !skip, true, "every path to return must pass wg.Wait()")
	addOK := false
	for _, a := range callsToName(fn, "(*sync.WaitGroup).Add") {
		if call, ok := a.common().Args[1].(*ssa.Call); ok {
			if b, ok := call.Call.Value.(*ssa.Builtin); ok && b.Name() == "len" && collOK(call.Call.Args[0]) {
				addOK = true
			}
		}
	}
	c.ob(rule, name+"/join-counts-"+collDesc, fn.Pos(), addOK, true, "wg.Add must count len("+collDesc+")")
	var gos []*ssa.Go
	for _, cs := range callsIn(fn) {
		if g, ok := cs.instr.(*ssa.Go); ok {
			gos = append(gos, g)
		}
	}
	if len(gos) != 1 {
		c.undecided(rule, name+"/fan-out", fn.Pos(), fmt.Sprintf("expected one go statement, found %d", len(gos)))
		return
	}
	g := gos[0]
	ranged := false
	if inLoop(g.Block()) {
		for _, in := range g.Block().Instrs {
			if ia, ok := in.(*ssa.IndexAddr); ok && collOK(ia.X) {
				ranged = true
			}
		}
	}
	c.ob(rule, name+"/one-goroutine-per-element-of-"+collDesc, g.Pos(), ranged, true, "the goroutine must be launched in a loop over "+collDesc)
	mc, _ := g.Call.Value.(*ssa.MakeClosure)
	if mc == nil {
		c.undecided(rule, name+"/goroutine-body", g.Pos(), "go statement does not launch a closure literal")
		return
	}
	cl := mc.Fn.(*ssa.Function)
	c.touched(cl.String())
	c.ob(rule, name+"/goroutine-does-"+workDesc, cl.Pos(), workOK(cl), true, "the goroutine must perform "+workDesc+" before signalling Done")
	// Done on every path: deferred, or every return preceded by Done
	isDone := func(in ssa.Instruction) bool {
		ci, ok := in.(ssa.CallInstruction)
		return ok && calleeName(ci.Common()) == "(*sync.WaitGroup).Done"
	}
	_, skipDone := reach(cl, nil, isReturn, isDone)
	c.ob(rule, name+"/goroutine-signals-done", cl.Pos(), !skipDone, true, "every path of the goroutine must signal wg.Done (directly or deferred)")
}

// R03.3 command order and joins.
func r033(c *Ctx, rule string) {
	c.floor(rule, 14)
	sdrain := c.method("Service", "Drain")
	for _, cmd := range []struct{ m, gate string }{{"Pause", "Pause"}, {"Stop", "Stop"}} {
		fn := c.method("Service", cmd.m)
		gate := c.method("PauseController", cmd.gate)
		gs := callsTo(fn, gate)
		ds := callsTo(fn, sdrain)
		if len(gs) != 1 || len(ds) != 1 {
			c.undecided(rule, "Service."+cmd.m+"/shape", fn.Pos(), fmt.Sprintf("expected one gate call and one Drain call, found %d and %d", len(gs), len(ds)))
			continue
		}
		_, isCall := ds[0].instr.(*ssa.Call)
		c.ob(rule, "Service."+cmd.m+"/gate-before-drain", ds[0].pos(), dominates(gs[0].instr, ds[0].instr), true, "the pause gate must be set before draining starts (else new requests slip past the drain)")
		c.ob(rule, "Service."+cmd.m+"/drain-is-synchronous", ds[0].pos(), isCall, true, "the command must wait for the drain (plain call, not go/defer)")
		c.ob(rule, "Service."+cmd.m+"/drain-timeout-is-the-parameter", ds[0].pos(), ds[0].common().Args[1] == ssa.Value(fn.Params[1]), true, "Drain must be given the command's drain timeout")
		_, skip := reach(fn, gs[0].instr, func(in ssa.Instruction) bool {
			r, ok := in.(*ssa.Return)
			return ok && isNilConst(lastRet(r))
		}, func(in ssa.Instruction) bool { return in == ds[0].instr })
		c.ob(rule, "Service."+cmd.m+"/success-return-after-drain", fn.Pos(), !skip, true, "no successful return may bypass the drain")
	}
	// Service.Drain drains both slots through PerformConcurrently
	pc := c.fn("PerformConcurrently")
	drainAll := c.method("LoadBalancer", "DrainAll")
	activeF, rolloutF := c.field("Service", "active"), c.field("Service", "rollout")
	pcs := callsTo(sdrain, pc)
	c.ob(rule, "Service.Drain/uses-joining-helper", sdrain.Pos(), len(pcs) == 1 && func() bool { _, ok := pcs[0].instr.(*ssa.Call); return ok }(), true, "Service.Drain must run its per-slot drains through PerformConcurrently synchronously")
	drained := map[*types.Var]bool{}
	for _, cl := range sdrain.AnonFuncs {
		c.touched(cl.String())
		for _, cs := range callsTo(cl, drainAll) {
			if _, ok := cs.instr.(*ssa.Call); !ok {
				continue
			}
			// the balancer drained: a slot, or every element of a list of slots built just before (each under its conditions;
			// the closure must then be made for every element and handed to the joining helper)
			type cand struct {
				val   ssa.Value
				conds []condEdge
			}
			var cands []cand
			recv := resolve(cs.common().Args[0])
			if src, full := fullRangeElem(recv); full {
				if els, ok := listContents(src); ok {
					mk := makeClosureOf(cl)
					var outer []condEdge
					if mk != nil {
						outer = condsOtherThanLoop(dominatingConds(mk.Block()))
					}
					for _, e := range els {
						cands = append(cands, cand{e.val, append(append(append([]condEdge{}, e.conds...), outer...), dominatingConds(cs.instr.Block())...)})
					}
				}
			} else {
				cands = append(cands, cand{recv, dominatingConds(cs.instr.Block())})
			}
			for _, cd := range cands {
				f, _, ok := fieldLoad(cd.val)
				if !ok {
					continue
				}
				to := resolve(cs.common().Args[1])
				// the only admissible guard is a nil test of that same slot
				guardsOK := true
				for _, ce := range cd.conds {
					cm, ok := ce.asCmp()
					if !ok || cm.op != token.NEQ || !((isLoadOfField(resolve(cm.x), f) && isNilConst(cm.y)) || (isLoadOfField(resolve(cm.y), f) && isNilConst(cm.x))) {
						guardsOK = false
					}
				}
				if to == ssa.Value(sdrain.Params[1]) && guardsOK {
					drained[f] = true
				}
			}
		}
	}
	c.ob(rule, "Service.Drain/drains-active", sdrain.Pos(), drained[activeF], true, "the active slot must be drained with the timeout parameter")
	c.ob(rule, "Service.Drain/drains-rollout", sdrain.Pos(), drained[rolloutF], true, "the rollout slot must be drained with the timeout parameter whenever it is non-nil (no other condition: rollout targets can hold in-flight requests after the split was stopped)")
	// PerformConcurrently joins
	c.joinShape(rule, "PerformConcurrently", pc, func(v ssa.Value) bool { return v == ssa.Value(pc.Params[0]) }, "fns",
		func(cl *ssa.Function) bool {
			for _, cs := range callsIn(cl) {
				if _, ok := cs.instr.(*ssa.Call); ok && cs.common().StaticCallee() == nil && !cs.common().IsInvoke() {
					if _, isB := cs.common().Value.(*ssa.Builtin); !isB {
						return true
					}
				}
			}
			return false
		}, "fn()")
	// LoadBalancer.DrainAll ranges over lb.all and joins
	allF := c.field("LoadBalancer", "all")
	tdrain := c.method("Target", "Drain")
	c.joinShape(rule, "LoadBalancer.DrainAll", drainAll, func(v ssa.Value) bool { return isLoadOfField(v, allF) }, "lb.all",
		func(cl *ssa.Function) bool {
			for _, cs := range callsTo(cl, tdrain) {
				if _, ok := cs.instr.(*ssa.Call); ok && resolve(cs.common().Args[1]) == ssa.Value(drainAll.Params[1]) {
					return true
				}
			}
			return false
		}, "target.Drain(timeout)")
}

// R03.4 504 on drain cut-off.
func r034(c *Ctx) {
	const rule = "R03.4 drain-cutoff-is-504"
	c.floor(rule, 2)
	hpe := c.method("Target", "handleProxyError")
	// (isDraining is de-anchored: expanded into handleProxyError) the test is errors.Is(err, ErrorDraining)
	drainingTest := c.proxyErrorPredicates(hpe)["draining"]
	c.ob(rule, "isDraining/tests-ErrorDraining", hpe.Pos(), drainingTest != nil, true, "the drain cause must be recognised by errors.Is(err, ErrorDraining)")
	n := 0
	for _, s := range c.errorSites() {
		if s.fn != hpe {
			continue
		}
		if drainingTest != nil {
			if t, _ := boolFacts(s.instr, sameAs(drainingTest)); t {
				n++
				c.ob(rule, "handleProxyError/draining->504", s.instr.Pos(), s.known && s.status == 504, true, "a request cancelled by a drain must be answered 504")
			}
		}
	}
	c.ob(rule, "handleProxyError/has-draining-branch", hpe.Pos(), n >= 1, true, "handleProxyError must classify the drain cause")
}

// R03.5 draining is left only by Drain.
func r035(c *Ctx) {
	const rule = "R03.5 probes-never-leave-draining"
	c.floor(rule, 2) // at least one promoting and one demoting outcome
	hcc := c.method("Target", "HealthCheckCompleted")
	draining := c.enumVal(c.server, "TargetStateDraining")
	stT := c.named("TargetState")
	for _, s := range c.targetStateStores() {
		if outer(s.fn) != hcc {
			continue
		}
		excluded := false
		for _, k := range s.prevNeq {
			if k == draining {
				excluded = true
			}
		}
		for _, k := range s.prevEq {
			if k != draining {
				excluded = true
			}
		}
		c.ob(rule, fmt.Sprintf("HealthCheckCompleted/store %s not from draining", c.enumName(stT, s.val)), s.instr.Pos(), excluded, true,
			"a probe result must not change the state of a target that Drain holds in 'draining' (it would reopen it to StartRequest mid-drain)")
	}
}

// R03.6 a disposed balancer is terminally unclaimable (known finding K2).
func r036(c *Ctx) {
	const rule = "R03.6 disposed-targets-unclaimable"
	c.floor(rule, 1)
	disp := c.method("Target", "Dispose")
	stateF := c.field("Target", "state")
	sr := c.method("Target", "StartRequest")
	// does Dispose (transitively) write any field that StartRequest reads before registering?
	readBySR := map[*types.Var]bool{}
	for _, b := range sr.Blocks {
		for _, in := range b.Instrs {
			if f, _, ok := fieldLoad(valueOf(in)); ok {
				readBySR[f] = true
			}
		}
	}
	writes := c.transitivelyContains(disp, func(in ssa.Instruction) bool {
		st, ok := in.(*ssa.Store)
		if !ok {
			return false
		}
		f, _, ok := fieldOfAddr(st.Addr)
		return ok && readBySR[f]
	}, map[*ssa.Function]bool{})
	_ = stateF
	c.ob(rule, "Target.Dispose/leaves-target-claimable", disp.Pos(), writes, true,
		"Dispose only stops probing and Drain restores the pre-drain state, so a replaced (drained, disposed) target still accepts StartRequest from any goroutine holding the old *Service (held or late requests): a replaced target can receive requests after deploy returned")
}

func valueOf(in ssa.Instruction) ssa.Value {
	v, _ := in.(ssa.Value)
	return v
}

// rDrainKeepsHealthVerdict: a drain changes a target's state without telling the balancer (updateState notifies nobody), so
// it must put back exactly the state it found: restoring any other value is a health transition the rotation never hears
// of - a target that is healthy but never served, or unhealthy and still in rotation (shared with C03's drain protocol).
func rDrainKeepsHealthVerdict(c *Ctx, rule string) {
	c.floor(rule, 1)
	fn := c.method("Target", "Drain")
	upd := c.method("Target", "updateState")
	draining := c.enumVal(c.server, "TargetStateDraining")
	var mark *ssa.Call
	for _, cs := range callsTo(fn, upd) {
		if call, ok := cs.instr.(*ssa.Call); ok {
			if k, ok := constInt(call.Call.Args[1]); ok && k == draining {
				mark = call
			}
		}
	}
	if !c.ob(rule, "Drain/marks-draining", fn.Pos(), mark != nil, true, "Drain must call updateState(TargetStateDraining)") {
		return
	}
	drainRestores(c, rule, fn, upd, mark, draining)
}

// R03.11 a refusal is final: a request asks the balancer for a target once. A target that is draining refuses
// (StartRequest's ErrorDraining, R03.2) and the request is answered 503 there and then; asking again - in a loop, after
// a pause, from a second call site - lets a request that arrived during the drain outwait it and reach the target after
// Drain has put its old state back, i.e. after deploy / pause / stop returned.
func rRefusalIsFinal(c *Ctx, rule string) {
	c.floor(rule, 2)
	claim := c.method("LoadBalancer", "claimTarget")
	serve := c.method("LoadBalancer", "ServeHTTP")
	n := 0
	for _, u := range c.usesOfFunc(claim) {
		o := outer(u.in)
		c.ob(rule, "call claimTarget <- "+fname(o), u.instr.Pos(), o == serve && u.kind == "call", false, "targets are claimed for a request by LoadBalancer.ServeHTTP only")
		if o != serve {
			continue
		}
		n++
		c.ob(rule, "ServeHTTP/claim-not-repeated", u.instr.Pos(), !inLoop(u.instr.Block()) && u.in == serve, true, "the claim is made once per request: not in a loop (or in a function literal that may run more than once)")
	}
	c.ob(rule, "ServeHTTP/claims-once", serve.Pos(), n == 1, true, fmt.Sprintf("%d claimTarget calls in ServeHTTP; a second one is a retry after a refusal", n))
}

// R03.12 the request that goes to the target carries the context Target.StartRequest registered: cancelling that context
// is the only means Drain has to cut a request off at the deadline. Wherever request-path code gives a request a context
// (WithContext / Clone / NewRequestWithContext), that context descends from the context of a request
// (r.Context(), possibly through context.With*) and not from Background / TODO / WithoutCancel, which cut the chain.
func rRequestContextChain(c *Ctx, rule string) {
	c.floor(rule, 4)
	var trace func(v ssa.Value, depth int) string
	trace = func(v ssa.Value, depth int) string {
		if depth > 8 {
			return "?"
		}
		worst := ""
		for _, src := range phiSources(v) {
			src = resolve(src)
			r := "?"
			switch x := src.(type) {
			case *ssa.Call:
				name := ""
				if f := x.Call.StaticCallee(); f != nil {
					name = f.String()
				}
				switch {
				case name == "(*net/http.Request).Context":
					r = "request"
				case name == "context.Background" || name == "context.TODO" || name == "context.WithoutCancel":
					r = "cut:" + name
				case strings.HasPrefix(name, "context.With") && len(x.Call.Args) > 0:
					r = trace(x.Call.Args[0], depth+1)
				}
			case *ssa.Extract:
				if call, ok := x.Tuple.(*ssa.Call); ok {
					if f := call.Call.StaticCallee(); f != nil && strings.HasPrefix(f.String(), "context.With") && len(call.Call.Args) > 0 && x.Index == 0 {
						if f.String() == "context.WithoutCancel" {
							r = "cut:context.WithoutCancel"
						} else {
							r = trace(call.Call.Args[0], depth+1)
						}
					}
				}
			}
			if strings.HasPrefix(r, "cut:") {
				return r
			}
			if worst == "" || r == "?" {
				worst = r
			}
		}
		return worst
	}
	for _, fn := range c.modFuncs {
		if fn.Pkg != c.server || len(fn.Blocks) == 0 {
			continue
		}
		o := outer(fn)
		if recv := o.Signature.Recv(); recv != nil && strings.HasSuffix(typeString(recv.Type()), ".HealthCheck") {
			continue // probes are the proxy's own requests: their context is the health check's
		}
		for _, b := range fn.Blocks {
			for _, in := range b.Instrs {
				ci, ok := in.(ssa.CallInstruction)
				if !ok || ci.Common().StaticCallee() == nil {
					continue
				}
				name := ci.Common().StaticCallee().String()
				var ctx ssa.Value
				switch name {
				case "(*net/http.Request).WithContext", "(*net/http.Request).Clone":
					ctx = ci.Common().Args[1]
				case "net/http.NewRequestWithContext":
					ctx = ci.Common().Args[0]
				default:
					continue
				}
				r := trace(ctx, 0)
				c.ob(rule, fname(o)+"/"+name[strings.LastIndex(name, ".")+1:]+"-keeps-the-request's-context", in.Pos(), !strings.HasPrefix(r, "cut:"), true,
					"context given to the request descends from: "+r+" (a context cut off from the request's can no longer be cancelled by Drain at the deadline)")
			}
		}
	}
}
