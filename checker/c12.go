package main

import (
	"fmt"
	"strings"

	"golang.org/x/tools/go/ssa"
)

func init() {
	register("C12", &propCheck{
		explain: "Decides the snapshot write protocol on every path: (R12.1) the live state path is only ever opened read-only or used as the DESTINATION of os.Rename (no os.Create/OpenFile/WriteFile/Truncate on it, anywhere in the module); the rename's source is a file created by os.CreateTemp in filepath.Dir(statePath) (same directory => same file system), and on the way to the rename encode < Sync < Close < Rename each on the nil-error branch of the previous, while every failing exit removes the temporary file and cannot reach the rename; (R12.2) listing the services and writing the file happen inside one unconditional hold of a dedicated snapshot mutex (Lock, not TryLock), and every call of saveStateSnapshot writes (no skip path); (R12.3) every Router command that can (transitively) mutate shared state snapshots after the mutation - a deferred saveStateSnapshot registered before the first mutator, or installService whose deferred snapshot follows Set; (R12.4) the services listed are read under the router's read lock and the encoder is fed exactly that list.",
		notDecided: []string{"file-system semantics (rename atomicity, fsync durability) are the trusted base", "internal/cmd/run.go ignores a restore error and starts empty: reported in evidence as the reason truncation was fatal, not armed"},
		run:        checkC12,
	})
}

func checkC12(c *Ctx) {
	r121(c, "R12.1 atomic-replace-protocol")
	r122(c, "R12.2 snapshots-serialised-and-unconditional")
	r123(c, "R12.3 every-mutating-command-snapshots-after")
	// the lock that serialises snapshots is the router's own, not a per-call copy (shared with C18)
	rNoLockCopies(c, "R12.4 no-lock-copies")
	// what a snapshot writes includes the rollout targets whenever they are in force (shared with C10/C11)
	r104(c, "R12.5 rollout-slot-symmetry")
}

// derivesFromField: v is computed from a load of field f (through string ops / calls taking it as argument).
func derivesFrom(v ssa.Value, pred func(ssa.Value) bool, depth int) bool {
	if depth > 6 || v == nil {
		return false
	}
	if pred(v) {
		return true
	}
	switch x := v.(type) {
	case *ssa.BinOp:
		return derivesFrom(x.X, pred, depth+1) || derivesFrom(x.Y, pred, depth+1)
	case *ssa.Call:
		for _, a := range x.Call.Args {
			if derivesFrom(a, pred, depth+1) {
				return true
			}
		}
	case *ssa.Phi:
		for _, e := range x.Edges {
			if derivesFrom(e, pred, depth+1) {
				return true
			}
		}
	case *ssa.UnOp:
		if a, ok := x.X.(*ssa.Alloc); ok {
			if cv := cellValue(a); cv != nil {
				return derivesFrom(cv, pred, depth+1)
			}
		}
	case *ssa.Convert:
		return derivesFrom(x.X, pred, depth+1)
	case *ssa.Extract:
		return derivesFrom(x.Tuple, pred, depth+1)
	case *ssa.MakeInterface:
		return derivesFrom(x.X, pred, depth+1)
	case *ssa.ChangeInterface:
		return derivesFrom(x.X, pred, depth+1)
	case *ssa.Slice:
		return derivesFrom(x.X, pred, depth+1)
	}
	return false
}

func r121(c *Ctx, rule string) {
	c.floor(rule, 10)
	statePath := c.field("Router", "statePath")
	isStatePath := func(v ssa.Value) bool { return isLoadOfField(v, statePath) }
	// who writes statePath: constructor only
	for _, w := range c.writesOfField(statePath) {
		o := fname(outer(w.fn))
		c.ob(rule, "write Router.statePath <- "+o, w.instr.Pos(), o == "server.NewRouter", false, "the state path is fixed at construction")
	}
	// forbidden openers on anything derived from the live path, module-wide
	writers := map[string]int{"os.Create": 0, "os.OpenFile": 0, "os.WriteFile": 0, "os.Truncate": 0, "os.Remove": 0, "os.RemoveAll": 0, "os.Chmod": 0, "os.Symlink": 1, "os.Link": 1}
	nScanned := 0
	for _, fn := range c.proxyFuncs() {
		for _, cs := range callsIn(fn) {
			name := calleeName(cs.common())
			idx, isWriter := writers[name]
			if !isWriter {
				continue
			}
			nScanned++
			arg := cs.common().Args[idx]
			// exact live path (not a sibling derived from it such as the temp file) is forbidden
			onLive := isStatePath(arg) || func() bool {
				if u, ok := arg.(*ssa.UnOp); ok {
					if a, ok := u.X.(*ssa.Alloc); ok {
						if cv := cellValue(a); cv != nil {
							return isStatePath(cv)
						}
					}
				}
				return false
			}()
			if onLive {
				c.ob(rule, fmt.Sprintf("%s(statePath) in %s", name, fname(fn)), cs.pos(), false, true, "the live state file may never be created/truncated/written/removed in place: a crash in between leaves no complete snapshot")
			}
		}
	}
	c.ob(rule, "no-in-place-writer-on-live-path", statePath.Pos(), true, true, fmt.Sprintf("module scanned: %d path-taking write/remove calls, none on the live path (violations listed separately)", nScanned))
	// ... and every path that IS removed / overwritten is known to be something else: the name of a file this code
	// created with os.CreateTemp, or the control socket. A path computed any other way (joined from a directory listing,
	// say) might be the state file itself.
	for _, fn := range c.proxyFuncs() {
		for _, cs := range callsIn(fn) {
			name := calleeName(cs.common())
			idx, isWriter := writers[name]
			if !isWriter || name == "os.Symlink" || name == "os.Link" {
				continue
			}
			arg := resolve(cs.common().Args[idx])
			known := ""
			for _, src := range phiSources(arg) {
				src = resolve(src)
				k := ""
				if call, ok := src.(*ssa.Call); ok {
					switch calleeName(call.Common()) {
					case "(*os.File).Name":
						// of a file from os.CreateTemp (directly, or kept in Buffer.diskBuffer which only createSpill sets: R14.1)
						recv := resolve(call.Call.Args[0])
						if e, ok := recv.(*ssa.Extract); ok {
							if ct, ok := e.Tuple.(*ssa.Call); ok && calleeName(ct.Common()) == "os.CreateTemp" {
								k = "name of a temporary file created here"
							}
						}
						if f, _, ok := fieldLoad(recv); ok && f.Name() == "diskBuffer" {
							k = "name of the buffer's spill file"
						}
					default:
						if sc := call.Call.StaticCallee(); sc != nil && sc.Name() == "SocketPath" {
							k = "the control socket"
						}
					}
				}
				if s, isK := constString(src); isK && s == "" {
					k = "empty"
				}
				if k == "" {
					known = ""
					break
				}
				known = k
			}
			c.ob(rule, fmt.Sprintf("%s in %s/path-is-not-the-state-file", name, fname(outer(fn))), cs.pos(), known != "", true, "a file may be removed / created in place only under a path known to be something other than the state file ("+known+"); a path of unknown origin may be the live state file, and removing it leaves the next start with nothing to restore")
		}
	}
	// the one place that replaces the file
	var renames []callSite
	for _, fn := range c.proxyFuncs() {
		for _, cs := range callsToName(fn, "os.Rename") {
			renames = append(renames, cs)
		}
	}
	if len(renames) != 1 {
		c.ob(rule, "exactly-one-os.Rename-publishes-the-snapshot", statePath.Pos(), false, true, fmt.Sprintf("found %d os.Rename calls; the snapshot must be published by renaming a complete temporary file over the live path", len(renames)))
		return
	}
	rn := renames[0]
	fn := rn.fn
	c.touched(fn.String())
	ren := rn.instr.(*ssa.Call)
	c.ob(rule, "rename/destination-is-live-path", ren.Pos(), isStatePath(ren.Call.Args[1]), true, "")
	// source: Name() of a file from os.CreateTemp(filepath.Dir(statePath), ...)
	var ct *ssa.Call
	for _, cs := range callsToName(fn, "os.CreateTemp") {
		ct, _ = cs.instr.(*ssa.Call)
	}
	if !c.ob(rule, "temp-file/created-with-os.CreateTemp", fn.Pos(), ct != nil, true, "the new snapshot must first be written under a temporary name") {
		return
	}
	file := resultOf(ct, 0)
	dirOK := false
	if d, ok := ct.Call.Args[0].(*ssa.Call); ok && calleeName(d.Common()) == "path/filepath.Dir" && isStatePath(d.Call.Args[0]) {
		dirOK = true
	}
	c.ob(rule, "temp-file/in-the-directory-of-the-live-path", ct.Pos(), dirOK, true, "the temporary file must be created in filepath.Dir(statePath): a rename across file systems is not atomic (and fails with EXDEV)")
	isNameOfFile := func(v ssa.Value) bool {
		// (a helper that returns ("", err) on failure leaves a merge of the name with the empty string: the rename is
		// only reached on the success side, which is decided separately below)
		n := 0
		for _, src := range phiSources(resolve(v)) {
			src = resolve(src)
			if s, isK := constString(src); isK && s == "" {
				continue
			}
			call, ok := src.(*ssa.Call)
			if !ok || calleeName(call.Common()) != "(*os.File).Name" || !(call.Call.Args[0] == file || resolve(call.Call.Args[0]) == resolve(file)) {
				return false
			}
			n++
		}
		return n >= 1
	}
	c.ob(rule, "rename/source-is-the-temp-file", ren.Pos(), isNameOfFile(ren.Call.Args[0]), true, "")
	// ordered, each on the nil-error branch of the previous.  "Step X was done and succeeded" is decided by facts, not
	// by dominance: the error of X must be known nil where the rename happens (this also holds when the steps live in
	// an inlined helper whose result is tested once, or when several failures share one clean-up branch).
	step := func(name string, pred func(cc *ssa.CallCommon) bool) *ssa.Call {
		var found *ssa.Call
		for _, cs := range callsIn(fn) {
			call, ok := cs.instr.(*ssa.Call)
			if !ok || !pred(call.Common()) {
				continue
			}
			if e := errResultOf(call); e != nil {
				if isNil, _ := nilKnowledge(ren, sameAs(e)); isNil {
					found = call
				}
			}
		}
		return found
	}
	enc := step("Encode", func(cc *ssa.CallCommon) bool {
		if calleeName(cc) != "(*encoding/json.Encoder).Encode" {
			return false
		}
		// the encoder writes to the temp file
		ne, ok := cc.Args[0].(*ssa.Call)
		if !ok || calleeName(ne.Common()) != "encoding/json.NewEncoder" {
			return false
		}
		return resolve(stripConv(ne.Call.Args[0])) == resolve(file)
	})
	syn := step("Sync", func(cc *ssa.CallCommon) bool { return calleeName(cc) == "(*os.File).Sync" && resolve(cc.Args[0]) == resolve(file) })
	cls := step("Close", func(cc *ssa.CallCommon) bool { return calleeName(cc) == "(*os.File).Close" && resolve(cc.Args[0]) == resolve(file) })
	steps := []struct {
		name string
		call *ssa.Call
	}{{"create", ct}, {"encode", enc}, {"sync", syn}, {"close", cls}}
	var prev *ssa.Call
	for _, s := range steps {
		if s.name == "create" {
			isNil, _ := nilKnowledge(ren, sameAs(errResultOf(ct)))
			c.ob(rule, "before-rename/create-succeeded", ct.Pos(), isNil, true, "the rename must be reachable only when the temporary file was created")
			prev = ct
			continue
		}
		if !c.ob(rule, "before-rename/"+s.name+"-succeeded", ren.Pos(), s.call != nil, true, "the rename must be reachable only when the temporary file has been "+s.name+"d successfully: the error of that step must be known nil at the rename (a failed "+s.name+" must not publish)") {
			continue
		}
		if prev != nil {
			pn, _ := nilKnowledge(s.call, sameAs(errResultOf(prev)))
			c.ob(rule, "before-rename/order "+prev.Call.StaticCallee().Name()+" < "+s.call.Call.StaticCallee().Name(), s.call.Pos(), pn, true, "each step runs only after the previous one succeeded")
		}
		prev = s.call
	}
	// the encoder is given the listed services (parameter of writeStateFile)
	if enc != nil {
		okArg := false
		for _, p := range fn.Params {
			if resolve(stripConv(enc.Call.Args[1])) == ssa.Value(p) {
				okArg = true
			}
		}
		// (the write-out helper of the reference tree, writeStateFile, is always expanded into saveStateSnapshot: what is
		// encoded is then the list the listing closure appended to)
		if cell := cellOfLoad(stripConv(enc.Call.Args[1])); cell != nil {
			for _, st := range storesToCell(cell) {
				if st.Parent() != fn {
					okArg = true
				}
			}
		}
		c.ob(rule, "encode/writes-the-listed-services", enc.Pos(), okArg, true, "")
	}
	// (whether a FAILED snapshot removes its temporary file is hygiene, not part of C12 - a leftover temp file never
	// replaces the live one - and is not checked)
	// success is reported only after the rename succeeded
	for _, ret := range normalReturns(fn) {
		if !isNilConst(lastRet(ret)) {
			continue
		}
		isNil, _ := nilKnowledge(ret, sameAs(errResultOf(ren)))
		c.ob(rule, "success-only-after-rename", ret.Pos(), isNil, true, "the error of os.Rename must be known nil at every successful return")
	}
}

func r122(c *Ctx, rule string) {
	c.floor(rule, 5)
	li := c.lockInfo()
	save := c.method("Router", "saveStateSnapshot")
	snapLock := c.field("Router", "snapshotLock")
	lockOwner[snapLock] = "Router"
	svcLock := c.field("Router", "serviceLock")
	// "the write": where the new snapshot is created (the write-out helper of the reference tree, writeStateFile, is
	// always expanded into saveStateSnapshot)
	var wcs []callSite
	for _, cs := range callsToName(save, "os.CreateTemp") {
		wcs = append(wcs, cs)
	}
	if len(wcs) != 1 {
		c.undecided(rule, "saveStateSnapshot/shape", save.Pos(), fmt.Sprintf("expected one os.CreateTemp (the start of the write-out) in saveStateSnapshot, found %d", len(wcs)))
		return
	}
	w := wcs[0].instr
	var encArg ssa.Value
	for _, cs := range callsToName(save, "(*encoding/json.Encoder).Encode") {
		encArg = cs.common().Args[1]
	}
	c.ob(rule, "saveStateSnapshot/write-under-snapshot-mutex", w.Pos(), li.holds(w, snapLock, modeW), true, "held: "+li.before(w).String())
	// listing: the closure(s) reading Router.services, entered under both locks
	nList := 0
	for _, cl := range withAnon(save) {
		for _, cs := range callsTo(cl, c.method("ServiceMap", "All")) {
			nList++
			// the locks held where the table is listed: at the call itself (straight-line code, or a closure entered with
			// the locks held)
			held := li.before(cs.instr)
			c.ob(rule, "saveStateSnapshot/listing-under-snapshot-mutex-and-read-lock in "+fname(cl), cs.pos(), held[snapLock] == modeW && held[svcLock] >= modeR, true, "the listing must be taken inside the same snapshot-mutex hold as the write (so the last write carries the latest listing), under the router's read lock; held: "+held.String())
		}
	}
	c.ob(rule, "saveStateSnapshot/has-listing", save.Pos(), nList >= 1, false, "")
	// the list written is the list gathered: writeStateFile's argument is the cell the listing appends to
	okSame := false
	if cell := cellOfLoad(stripConv(encArg)); encArg != nil && cell != nil {
		for _, st := range storesToCell(cell) {
			if st.Parent() != save {
				okSame = true // appended to inside the listing closure
			}
		}
	}
	c.ob(rule, "saveStateSnapshot/writes-what-it-listed", w.Pos(), okSame, true, "")
	// unconditional: every path from entry to return passes the write
	_, skip := reach(save, nil, isReturn, func(in ssa.Instruction) bool { return in == w })
	c.ob(rule, "saveStateSnapshot/no-skip-path", save.Pos(), !skip, true, "every call must write a snapshot (a TryLock/dirty-flag/unchanged shortcut can leave an older listing on disk after all commands returned)")
	// blocking Lock (TryLock is not recognised as an acquisition by the lockset engine, so it fails the obligations above); listing precedes write
	for _, cs := range callsTo(save, c.method("Router", "withReadLock")) {
		c.ob(rule, "saveStateSnapshot/listing-before-write", cs.pos(), dominates(cs.instr, w), true, "")
	}
	// who may write the file: the one os.Rename of the module (R12.1) is in saveStateSnapshot
	for _, fn := range c.proxyFuncs() {
		for _, cs := range callsToName(fn, "os.Rename") {
			o := fname(outer(fn))
			c.ob(rule, "os.Rename <- "+o, cs.pos(), o == "(*server.Router).saveStateSnapshot", false, "the state file is replaced only by saveStateSnapshot (under the snapshot mutex)")
		}
	}
}

func r123(c *Ctx, rule string) {
	c.floor(rule, 8)
	save := c.method("Router", "saveStateSnapshot")
	inst := c.method("Router", "installService")
	isMut := func(in ssa.Instruction) bool {
		ci, ok := in.(ssa.CallInstruction)
		if !ok {
			return false
		}
		f := ci.Common().StaticCallee()
		if f == nil {
			return false
		}
		switch fname(f) {
		case "(*server.ServiceMap).Set", "(*server.ServiceMap).Remove",
			"(*server.Service).SetRolloutSplit", "(*server.Service).StopRollout",
			"(*server.PauseController).Pause", "(*server.PauseController).Stop", "(*server.PauseController).Resume",
			"(*server.Service).UpdateLoadBalancer":
			return true
		}
		return false
	}
	// the restore itself never writes the file it is reading back: a snapshot taken while only some of the saved services
	// are installed would, if the process dies then, leave a VALID file that has lost the rest
	restore := c.method("Router", "RestoreLastSavedState")
	writesDuringRestore := false
	for _, f := range c.reachableStatic(restore) {
		if f == save {
			writesDuringRestore = true
		}
	}
	c.ob(rule, "RestoreLastSavedState/takes-no-snapshot", restore.Pos(), !writesDuringRestore, true, "restoring must not (transitively) call saveStateSnapshot: the file is complete before the restore and must stay so until it is")
	router := c.named("Router")
	n := 0
	for _, fn := range c.proxyFuncs() {
		if fn.Parent() != nil || recvNamed(fn) == nil || recvNamed(fn).Obj() != router.Obj() {
			continue
		}
		if fn == save || fn.Name() == "RestoreLastSavedState" || fn.Name() == "withWriteLock" || fn.Name() == "withReadLock" {
			continue
		}
		// instructions of fn that (transitively) mutate persisted state
		var muts []ssa.Instruction
		for _, b := range fn.Blocks {
			for _, in := range b.Instrs {
				if _, isDefer := in.(*ssa.Defer); isDefer {
					continue
				}
				if c.instrRuns(in, isMut) {
					muts = append(muts, in)
				}
			}
		}
		if len(muts) == 0 {
			continue
		}
		n++
		// a deferred snapshot registered before every mutator...
		var def ssa.Instruction
		for _, cs := range callsTo(fn, save) {
			if _, ok := cs.instr.(*ssa.Defer); ok {
				def = cs.instr
			}
		}
		ok := def != nil
		how := "deferred saveStateSnapshot registered before the first mutation"
		if ok {
			for _, m := range muts {
				if !dominates(def, m) {
					ok = false
				}
			}
		} else {
			// ...or every mutating path goes on through installService (whose deferred snapshot follows the table update),
			// and nothing is mutated after it except the drain/dispose of the replaced balancer (not persisted state)
			ok = true
			how = "persisted state is changed only up to installService, which snapshots after Set"
			calledInstall := false
			for _, m := range muts {
				ci, isCall := m.(ssa.CallInstruction)
				if isCall && isCallTo(ci.Common(), inst) {
					calledInstall = true
					continue
				}
				if isCall && ci.Common().StaticCallee() != nil && (ci.Common().StaticCallee().Name() == "deployTargetsIntoService") {
					calledInstall = true
					continue
				}
				// a direct mutator: must be followed by installService on every path to a nil return, or be the undo on the failing branch
				_, skips := reach(fn, m, func(in ssa.Instruction) bool {
					r, ok := in.(*ssa.Return)
					return ok && isNilConst(lastRet(r))
				}, func(in ssa.Instruction) bool {
					ci, ok := in.(ssa.CallInstruction)
					return ok && isCallTo(ci.Common(), inst)
				})
				if skips {
					ok = false
				}
			}
			if !calledInstall {
				ok = false
			}
		}
		c.ob(rule, "Router."+fn.Name()+"/snapshot-follows-mutation", fn.Pos(), ok, true, how+fmt.Sprintf(" (%d mutating instructions)", len(muts)))
	}
	c.ob(rule, "mutating-router-methods-found", save.Pos(), n >= 8, false, fmt.Sprintf("%d Router methods reach a mutator of persisted state", n))
	// installService: deferred snapshot dominates the locked section
	var def ssa.Instruction
	for _, cs := range callsTo(inst, save) {
		if _, ok := cs.instr.(*ssa.Defer); ok {
			def = cs.instr
		}
	}
	okI := def != nil
	for _, cs := range callsTo(inst, c.method("Router", "withWriteLock")) {
		if def == nil || !dominates(def, cs.instr) {
			okI = false
		}
	}
	c.ob(rule, "installService/snapshot-deferred-before-table-update", inst.Pos(), okI, true, "")
	// every CommandHandler method goes through a Router method (no direct state access)
	ch := c.named("CommandHandler")
	for _, fn := range c.proxyFuncs() {
		if fn.Parent() != nil || recvNamed(fn) == nil || recvNamed(fn).Obj() != ch.Obj() || !fn.Object().Exported() {
			continue
		}
		if fn.Name() == "Start" || fn.Name() == "Close" {
			continue
		}
		direct := false
		for _, b := range fn.Blocks {
			for _, in := range b.Instrs {
				if isMut(in) {
					direct = true
				}
			}
		}
		c.ob(rule, "CommandHandler."+fn.Name()+"/mutates-only-through-Router", fn.Pos(), !direct, true, "")
	}
	_ = strings.Contains
}
