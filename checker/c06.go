package main

import (
	"fmt"
	"go/types"
	"strings"

	"golang.org/x/tools/go/ssa"
)

func init() {
	register("C06", &propCheck{
		explain: "Decides 'validate before mutate' and 'release on every error path' from the code shape: (R06.1) in the deploy routine every return of a possibly non-nil error after NewLoadBalancer is dominated by Dispose of that balancer, and a slot that was overwritten is put back on the install-failure branch; (R06.2) effect analysis per command: CopyWithOptions writes only the fresh copy, Service.initialize assigns derived fields only after both constructors succeeded, NewTargetList's error precedes any balancer creation, SetRolloutSplit's store is dominated by the rollout!=nil test, and every 'service not found' return is reached before any call that can mutate shared state; (R06.3) only install/remove/restore touch the table; (R06.4) a target whose wait timed out stops its own probe loop, and the probe loop ends on cancellation.",
		notDecided: []string{"equality of list/snapshot output before and after (value level; the static claim is 'no writer ran')", "restore-time leaks (not a command)"},
		run:        checkC06,
	})
}

func checkC06(c *Ctx) {
	r061(c, "R06.1 release-on-error-paths")
	r062(c)
	r063(c)
	r064(c, "R06.4 failed-wait-stops-probing")
	// "stops probing the targets it rejected": disposing the rejected balancer reaches every one of its targets (shared
	// with C17) ...
	r172(c, "R06.5 disposal-chain")
	// ... and a failed command disposes nothing else: the targets of live services keep being probed (shared with C09)
	r096(c, "R06.6 probing-continues")
	// a refused command leaves the saved state alone: what is written is what was listed under the same locks, every time
	// (shared with C12)
	r122(c, "R06.7 snapshots-serialised-and-unconditional")
	// a deploy that fails puts back exactly what it took out of the slot: the order of the deploy steps (shared with C01)
	r011(c, "R06.8 failed-deploy-restores-the-slot")
}

func r061(c *Ctx, rule string) {
	c.floor(rule, 3)
	d := c.deployShape(rule)
	if d == nil {
		return
	}
	_ = ssa.Value(d.newLB)
	dispose := c.method("LoadBalancer", "Dispose")
	n := 0
	// path by path: every way of returning an error after the balancer was made disposes it first (and puts the slot back
	// when the install failed)
	ps, complete := enumPathsX(d.fn, func(*ssa.Return) bool { return true }, 4096)
	if !complete {
		c.undecided(rule, "deploy/error-returns", d.fn.Pos(), "too many paths through the deploy routine to enumerate")
	}
	type verdict struct {
		which              string
		disposed, restored bool
	}
	byKey := map[string]*verdict{}
	pos := map[string]*ssa.Return{}
	var order []string
	for _, p := range ps {
		if !p.passes(func(in ssa.Instruction) bool { return in == ssa.Instruction(d.newLB) }) {
			continue
		}
		res := p.pathValue(lastRet(p.ret))
		if isNilConst(res) {
			continue
		}
		which := "wait-failed"
		if _, nn := nilKnowledgeOf(p.conds, sameAs(d.instErr)); nn {
			which = "install-failed"
		}
		key := fmt.Sprintf("%s@%d", which, p.ret.Pos())
		v := byKey[key]
		if v == nil {
			v = &verdict{which, true, true}
			byKey[key] = v
			pos[key] = p.ret
			order = append(order, key)
			n++
		}
		if !p.passes(func(in ssa.Instruction) bool {
			call, ok := in.(*ssa.Call)
			return ok && isCallTo(call.Common(), dispose) && sameBalancer(call.Call.Args[0], d.newLB)
		}) {
			v.disposed = false
		}
		if which == "install-failed" && !p.passes(func(in ssa.Instruction) bool {
			for _, rs := range d.restores {
				if in == ssa.Instruction(rs) && rs.Call.Args[1] == ssa.Value(d.update) {
					return true
				}
			}
			return false
		}) {
			v.restored = false
		}
	}
	for _, key := range order {
		v := byKey[key]
		c.ob(rule, "deploy/error-return("+v.which+")-disposes-new-balancer", pos[key].Pos(), v.disposed, true,
			"every failing return after NewLoadBalancer must first Dispose it: otherwise the rejected targets are health-checked forever")
		if v.which == "install-failed" {
			c.ob(rule, "deploy/install-failure-restores-slot", pos[key].Pos(), v.restored, true,
				"when installService fails after the slot was overwritten, the replaced balancer must be put back (for rollout deploys the service object is the live one)")
		}
	}
	c.ob(rule, "deploy/has-error-returns-after-acquire", d.fn.Pos(), n >= 2, false, "wait failure and install failure")
}

// mutatorCallees: module functions whose call can change shared proxy state.
func (c *Ctx) isMutatorCall(cc *ssa.CallCommon) bool {
	f := cc.StaticCallee()
	if f == nil {
		return false
	}
	switch fname(f) {
	case "(*server.ServiceMap).Set", "(*server.ServiceMap).Remove",
		"(*server.Service).UpdateLoadBalancer", "(*server.Service).SetRolloutSplit", "(*server.Service).StopRollout",
		"(*server.Service).Pause", "(*server.Service).Stop", "(*server.Service).Resume", "(*server.Service).Dispose", "(*server.Service).Drain",
		"(*server.PauseController).Pause", "(*server.PauseController).Stop", "(*server.PauseController).Resume", "(*server.PauseController).setState",
		"(*server.LoadBalancer).Dispose", "(*server.LoadBalancer).DrainAll", "(*server.LoadBalancer).MarkAllHealthy",
		"(*server.Router).installService", "(*server.Router).deployTargetsIntoService", "server.NewLoadBalancer":
		return true
	}
	return false
}

func r062(c *Ctx) {
	const rule = "R06.2 validate-before-mutate"
	c.floor(rule, 14)
	// (a) CopyWithOptions writes only the fresh copy
	cwo := c.method("Service", "CopyWithOptions")
	ns := c.fn("NewService")
	var fresh ssa.Value
	for _, cs := range callsTo(cwo, ns) {
		fresh = resultOf(cs.instr.(*ssa.Call), 0)
	}
	for _, b := range cwo.Blocks {
		for _, in := range b.Instrs {
			st, ok := in.(*ssa.Store)
			if !ok {
				continue
			}
			f, base, ok := fieldOfAddr(st.Addr)
			if !ok {
				continue
			}
			// (the copy is NewService's result, or an object allocated right here when the constructor's body was shared)
			if a, isAlloc := base.(*ssa.Alloc); isAlloc && a.Heap && fresh == nil {
				fresh = a
			}
			c.ob(rule, "CopyWithOptions/writes-only-the-copy ("+f.Name()+")", st.Pos(), fresh != nil && base == fresh, true, "a redeploy must build on a copy; the installed service (receiver) may not be written")
		}
	}
	recvCalls := 0
	for _, cs := range callsIn(cwo) {
		if f := cs.common().StaticCallee(); f != nil && recvNamed(f) != nil && recvNamed(f).Obj().Name() == "Service" && cs.common().Args[0] == ssa.Value(cwo.Params[0]) {
			// read-only accessors of the installed service are fine; anything that can write through its receiver is not
			if f.Blocks == nil || paramMayBeWritten(c.World, f.Params[0], 0) {
				recvCalls++
			}
		}
	}
	c.ob(rule, "CopyWithOptions/no-mutating-method-call-on-the-installed-service", cwo.Pos(), recvCalls == 0, true, "only read-only accessors of the installed service may be called while building the copy")
	// (b) initialize assigns derived fields only after both constructors succeeded
	ini := c.method("Service", "initialize")
	ccm, cmw := c.method("Service", "createCertManager"), c.method("Service", "createMiddleware")
	var errs []ssa.Value
	for _, f := range []*ssa.Function{ccm, cmw} {
		for _, cs := range callsTo(ini, f) {
			errs = append(errs, errResultOf(cs.instr.(*ssa.Call)))
		}
	}
	for _, b := range ini.Blocks {
		for _, in := range b.Instrs {
			st, ok := in.(*ssa.Store)
			if !ok {
				continue
			}
			f, _, ok := fieldOfAddr(st.Addr)
			if !ok {
				continue
			}
			all := len(errs) == 2
			for _, e := range errs {
				if isNil, _ := nilKnowledge(st, sameAs(e)); !isNil {
					all = false
				}
			}
			c.ob(rule, "initialize/assigns-"+f.Name()+"-only-after-validation", st.Pos(), all, true, "certificate / error-page errors must be raised before the service object is touched")
		}
	}
	// (c) NewTargetList error precedes balancer creation
	d := c.deployShape(rule)
	if d != nil {
		ntl := c.fn("NewTargetList")
		ok := false
		for _, cs := range callsTo(d.fn, ntl) {
			e := errResultOf(cs.instr.(*ssa.Call))
			if isNil, _ := nilKnowledge(d.newLB, sameAs(e)); isNil && d.newLB.Call.Args[0] == resultOf(cs.instr.(*ssa.Call), 0) {
				ok = true
			}
		}
		c.ob(rule, "deploy/target-name-validation-precedes-balancer", d.newLB.Pos(), ok, true, "NewLoadBalancer (which starts probing) must be on the nil-error branch of NewTargetList and use its result")
	}
	// NewTargetList: an invalid name returns an error and no list
	ntl := c.fn("NewTargetList")
	nt := c.fn("NewTarget")
	okTL := false
	for _, cs := range callsTo(ntl, nt) {
		e := errResultOf(cs.instr.(*ssa.Call))
		for _, ret := range normalReturns(ntl) {
			if _, nn := nilKnowledge(ret, sameAs(e)); nn && lastRet(ret) == e && isNilConst(retVal(ret, 0)) {
				okTL = true
			}
		}
	}
	if !okTL {
		// (the first error may be kept and returned after the loop was left: judged way by way)
		if paths, complete := enumPathsX(ntl, func(*ssa.Return) bool { return true }, 4000); complete {
			for _, cs := range callsTo(ntl, nt) {
				e := errResultOf(cs.instr.(*ssa.Call))
				n, good := 0, 0
				for _, pth := range paths {
					if _, nn := nilKnowledgeOf(pth.conds, sameAs(e)); !nn || pth.ret == nil || len(pth.ret.Results) != 2 {
						continue
					}
					n++
					if isNilConst(pth.pathValue(retVal(pth.ret, 0))) && pth.pathValue(retVal(pth.ret, 1)) == e {
						good++
					}
				}
				okTL = n > 0 && good == n
			}
		}
	}
	c.ob(rule, "NewTargetList/invalid-target-aborts", ntl.Pos(), okTL, true, "a malformed target must abort the list with its error")
	// every entry of the list is a Target of its own (one probe loop, one in-flight table, one Dispose each): an object
	// shared between entries is started twice and stopped once
	okFresh, nApp := true, 0
	for _, b := range ntl.Blocks {
		for _, in := range b.Instrs {
			call, ok := in.(*ssa.Call)
			if !ok {
				continue
			}
			if bi, isB := call.Call.Value.(*ssa.Builtin); !isB || bi.Name() != "append" {
				continue
			}
			for _, e := range appendedElems(call) {
				nApp++
				for _, src := range phiSources(e) {
					ex, isE := src.(*ssa.Extract)
					if !isE || ex.Index != 0 {
						okFresh = false
						continue
					}
					if mk, isC := ex.Tuple.(*ssa.Call); !isC || !isCallTo(mk.Common(), nt) || !(mk.Block() == call.Block() || mk.Block().Dominates(call.Block())) || !inLoop(mk.Block()) {
						okFresh = false
					}
				}
			}
		}
	}
	for _, b := range ntl.Blocks {
		for _, in := range b.Instrs {
			if st, ok := in.(*ssa.Store); ok {
				if _, isIA := st.Addr.(*ssa.IndexAddr); isIA && strings.HasSuffix(typeString(st.Val.Type()), ".Target") {
					nApp++
					for _, src := range phiSources(st.Val) {
						ex, isE := src.(*ssa.Extract)
						if mk, isC := func() (*ssa.Call, bool) {
							if !isE || ex.Index != 0 {
								return nil, false
							}
							m, ok := ex.Tuple.(*ssa.Call)
							return m, ok
						}(); !isC || !isCallTo(mk.Common(), nt) {
							okFresh = false
						}
					}
				}
			}
		}
	}
	c.ob(rule, "NewTargetList/one-fresh-Target-per-entry", ntl.Pos(), okFresh && nApp >= 1, true, "each element of the list must be the Target made by NewTarget for that entry")
	// NewTarget validates before allocating anything long-lived (no goroutine, no probe)
	ptu := c.fn("parseTargetURL")
	okNT := false
	for _, cs := range callsTo(nt, ptu) {
		e := errResultOf(cs.instr.(*ssa.Call))
		for _, ret := range normalReturns(nt) {
			if _, nn := nilKnowledge(ret, sameAs(e)); nn && lastRet(ret) == e {
				okNT = true
			}
		}
	}
	c.ob(rule, "NewTarget/validates-name-first", nt.Pos(), okNT, true, "")
	// (d) Service.SetRolloutSplit: store dominated by rollout != nil, error on nil
	srs := c.method("Service", "SetRolloutSplit")
	rolloutF, rcF := c.field("Service", "rollout"), c.field("Service", "rolloutController")
	for _, w := range c.writesOfField(rcF) {
		if w.fn != srs {
			continue
		}
		_, nn := nilKnowledge(w.instr, matchFieldLoad(rolloutF))
		c.ob(rule, "SetRolloutSplit/store-requires-rollout-targets", w.instr.Pos(), nn, true, "the split may be stored only on the s.rollout != nil branch")
	}
	errNotSet := c.global(c.server, "ErrorRolloutTargetNotSet")
	okErr := false
	for _, ret := range normalReturns(srs) {
		if isLoadOfGlobal(lastRet(ret), errNotSet) {
			if isNil, _ := nilKnowledge(ret, matchFieldLoad(rolloutF)); isNil {
				okErr = true
			}
		}
	}
	c.ob(rule, "SetRolloutSplit/rejects-without-rollout-targets", srs.Pos(), okErr, true, "ErrorRolloutTargetNotSet must be returned on the s.rollout == nil branch")
	// (e) 'service not found' before any mutator, in every command entry
	notFound := c.global(c.server, "ErrorServiceNotFound")
	sfn, get := c.method("Router", "serviceForName"), c.method("ServiceMap", "Get")
	for _, name := range []string{"SetRolloutTargets", "SetRolloutSplit", "StopRollout", "RemoveService", "PauseService", "StopService", "ResumeService"} {
		fn := c.method("Router", name)
		n := 0
		for _, f := range withAnon(fn) {
			var lookups []*ssa.Call
			for _, cs := range append(callsTo(f, sfn), callsTo(f, get)...) {
				if call, ok := cs.instr.(*ssa.Call); ok {
					lookups = append(lookups, call)
				}
			}
			for _, ret := range normalReturns(f) {
				missing := false
				for _, l := range lookups {
					if isNil, _ := nilKnowledge(ret, sameAs(l)); isNil {
						missing = true
					}
				}
				if !missing {
					continue
				}
				n++
				// the value returned is ErrorServiceNotFound (directly, or merged with nil by an inlined helper and known non-nil here)
				v := lastRet(ret)
				okVal := isLoadOfGlobal(v, notFound)
				if !okVal {
					has := false
					for _, src := range phiSources(v) {
						if isLoadOfGlobal(src, notFound) {
							has = true
						} else if !isNilConst(src) {
							has = false
							break
						}
					}
					_, nn := nilKnowledge(ret, sameAs(v))
					okVal = has && nn
				}
				// no mutator call can execute before this return
				mutBefore := false
				isMut := func(in ssa.Instruction) bool {
					ci, ok := in.(ssa.CallInstruction)
					return ok && c.isMutatorCall(ci.Common())
				}
				for _, cs := range callsIn(f) {
					if _, isDefer := cs.instr.(*ssa.Defer); isDefer {
						continue
					}
					if c.isMutatorCall(cs.common()) || c.instrRuns(cs.instr, isMut) {
						if _, reaches := reach(f, cs.instr, func(in ssa.Instruction) bool { return in == ssa.Instruction(ret) }, nil); reaches {
							mutBefore = true
						}
					}
				}
				c.ob(rule, "Router."+name+"/unknown-service-rejected-before-any-mutation", ret.Pos(), okVal && !mutBefore, true, "when the lookup finds no service the command must return ErrorServiceNotFound before any state-changing call")
			}
		}
		c.ob(rule, "Router."+name+"/rejects-unknown-service", fn.Pos(), n >= 1, false, "")
	}
	// (f) DeployService: service-construction errors return before the deploy routine runs
	ds := c.method("Router", "DeployService")
	// (findOrCreateService is de-anchored: always expanded into DeployService)
	dep := c.method("Router", "deployTargetsIntoService")
	okDS := false
	for _, dc := range callsTo(ds, dep) {
		okDS = freshServiceWithNilError(c, dc.instr, dc.common().Args[1])
	}
	c.ob(rule, "DeployService/option-errors-precede-deploy", ds.Pos(), okDS, true, "certificate/error-page/wildcard errors (from NewService/CopyWithOptions) must return before targets are created, and the deploy must act on that fresh service")
	freshServiceObject(c, rule)
	// (g) installService cannot fail once the table has been updated: its caller's undo (slot restore) assumes a
	// failing install left the routing table alone
	inst := c.method("Router", "installService")
	set := c.method("ServiceMap", "Set")
	wwl := c.method("Router", "withWriteLock")
	var setFn *ssa.Function
	for _, f := range withAnon(inst) {
		for _, cs := range callsTo(f, set) {
			setFn = f
			for _, ret := range normalReturns(f) {
				if _, reaches := reach(f, cs.instr, func(in ssa.Instruction) bool { return in == ssa.Instruction(ret) }, nil); !reaches {
					continue
				}
				v := lastRet(ret)
				isNil := v == nil || isNilConst(v)
				if !isNil {
					isNil, _ = nilKnowledge(ret, sameAs(v))
				}
				c.ob(rule, "installService/no-error-after-table-update", ret.Pos(), isNil, true, "once ServiceMap.Set has run the install is committed: a return after it must report success (the deploy routine's undo only puts the slot back, it does not reinstall the previous service)")
			}
		}
	}
	if c.ob(rule, "installService/updates-table", inst.Pos(), setFn != nil, false, "") && setFn != inst {
		for _, ret := range normalReturns(inst) {
			okSrc := true
			for _, src := range phiSources(lastRet(ret)) {
				if isNilConst(src) {
					continue
				}
				call, isCall := src.(*ssa.Call)
				if !isCall || !isCallTo(call.Common(), wwl) || len(call.Call.Args) < 2 {
					okSrc = false
					continue
				}
				if mc, ok := call.Call.Args[1].(*ssa.MakeClosure); !ok || mc.Fn != ssa.Value(setFn) {
					okSrc = false
				}
			}
			c.ob(rule, "installService/fails-only-with-the-locked-section's-error", ret.Pos(), okSrc, true, "the only failure installService may report is the one raised inside the write-locked section before Set (host conflict); an error produced after the table update (e.g. from saving the snapshot) would be reported for a change that has already taken effect")
		}
	}
	// createCertManager: wildcard + ACME rejected with an error, before a manager is built
	wild := c.global(c.server, "ErrorAutomaticTLSDoesNotSupportWildcards")
	okW := false
	for _, ret := range normalReturns(ccm) {
		if isLoadOfGlobal(lastRet(ret), wild) && isNilConst(retVal(ret, 0)) {
			okW = true
		}
	}
	c.ob(rule, "createCertManager/wildcard-acme-rejected", ccm.Pos(), okW, true, "")
}

func r063(c *Ctx) {
	const rule = "R06.3 table-touched-only-by-install-remove"
	c.floor(rule, 3)
	set, rm := c.method("ServiceMap", "Set"), c.method("ServiceMap", "Remove")
	for _, u := range c.usesOfFunc(set) {
		o := fname(outer(u.in))
		c.ob(rule, "call ServiceMap.Set <- "+o, u.instr.Pos(), o == "(*server.Router).installService" || o == "(*server.Router).RestoreLastSavedState", false, "")
	}
	for _, u := range c.usesOfFunc(rm) {
		o := fname(outer(u.in))
		c.ob(rule, "call ServiceMap.Remove <- "+o, u.instr.Pos(), o == "(*server.Router).RemoveService", false, "")
	}
	inst := c.method("Router", "installService")
	for _, u := range c.usesOfFunc(inst) {
		o := fname(outer(u.in))
		c.ob(rule, "call Router.installService <- "+o, u.instr.Pos(), o == "(*server.Router).deployTargetsIntoService", false, "")
	}
}

func r064(c *Ctx, rule string) {
	c.floor(rule, 5)
	wfn := c.method("Target", "WaitUntilHealthy")
	stop := c.method("Target", "stopHealthChecks")
	for _, ret := range normalReturns(wfn) {
		b, isConst := constBool(retVal(ret, 0))
		if !isConst || b {
			continue
		}
		stopped := false
		for _, cs := range callsTo(wfn, stop) {
			if dominates(cs.instr, ret) {
				stopped = true
			}
		}
		c.ob(rule, "Target.WaitUntilHealthy/timeout-stops-own-probes", ret.Pos(), stopped, true, "a target that did not become healthy in time must stop its health checks before reporting failure")
	}
	// stopHealthChecks closes the health check; Close cancels; run returns on ctx.Done
	hcF := c.field("Target", "healthcheck")
	cl := c.method("HealthCheck", "Close")
	okStop := false
	for _, cs := range callsTo(stop, cl) {
		if isLoadOfField(cs.common().Args[0], hcF) {
			okStop = true
		}
	}
	c.ob(rule, "stopHealthChecks/closes-the-health-check", stop.Pos(), okStop, true, "")
	cancelF := c.field("HealthCheck", "cancel")
	okCancel := false
	for _, cs := range callsIn(cl) {
		if isLoadOfField(cs.common().Value, cancelF) {
			okCancel = true
		}
	}
	c.ob(rule, "HealthCheck.Close/cancels-context", cl.Pos(), okCancel, true, "")
	c.probeLoopStops(rule)
	// Target.Dispose -> stopHealthChecks
	td := c.method("Target", "Dispose")
	c.ob(rule, "Target.Dispose/stops-health-checks", td.Pos(), len(callsTo(td, stop)) >= 1 && func() bool { _, skip := reach(td, nil, isReturn, func(in ssa.Instruction) bool { ci, ok := in.(*ssa.Call); return ok && isCallTo(ci.Common(), stop) }); return !skip }(), true, "")
}

// probeLoopStops: HealthCheck.run's loop has an arm receiving from hc.ctx.Done() that returns, and
// the context/cancel pair stored in the HealthCheck come from one context.WithCancel.
func (c *Ctx) probeLoopStops(rule string) {
	run := c.method("HealthCheck", "run")
	ctxF := c.field("HealthCheck", "ctx")
	sels := selectsIn(run)
	ok := false
	for _, sel := range sels {
		for i, st := range sel.States {
			if st.Dir != types.RecvOnly {
				continue
			}
			call, isCall := st.Chan.(*ssa.Call)
			if !isCall || !call.Call.IsInvoke() || call.Call.Method.Name() != "Done" || !isLoadOfField(call.Call.Value, ctxF) {
				continue
			}
			// on that arm the function returns without probing again
			for _, ret := range normalReturns(run) {
				if arm, known := selectArm(ret, sel); known && arm == i {
					ok = true
				}
			}
		}
	}
	c.ob(rule, "HealthCheck.run/returns-on-cancellation", run.Pos(), ok, true, "the probe loop must select on hc.ctx.Done() and return on that arm")
	nhc := c.fn("NewHealthCheck")
	var wc *ssa.Call
	for _, cs := range callsToName(nhc, "context.WithCancel") {
		wc, _ = cs.instr.(*ssa.Call)
	}
	okPair := false
	if wc != nil {
		var gotCtx, gotCancel bool
		for _, w := range c.writesOfField(ctxF) {
			if w.fn == nhc && w.val == resultOf(wc, 0) {
				gotCtx = true
			}
		}
		for _, w := range c.writesOfField(c.field("HealthCheck", "cancel")) {
			if w.fn == nhc && w.val == resultOf(wc, 1) {
				gotCancel = true
			}
		}
		okPair = gotCtx && gotCancel
	}
	c.ob(rule, "NewHealthCheck/ctx-and-cancel-from-one-WithCancel", nhc.Pos(), okPair, true, "Close must cancel the very context the loop selects on")
	// every probe is sent under a context derived from the loop's: cancelling the loop aborts the probe in flight, and a
	// tick that races with the cancellation cannot put a new probe on the wire
	check := c.method("HealthCheck", "check")
	nSend, bound := 0, true
	for _, cs := range callsIn(check) {
		n := calleeName(cs.common())
		if !strings.HasPrefix(n, "(*net/http.Client).") && !strings.HasPrefix(n, "net/http.") && !strings.HasPrefix(n, "(*net/http.Transport).") {
			continue
		}
		switch n {
		case "(*net/http.Client).Do", "(*net/http.Transport).RoundTrip":
			nSend++
			req := nonNilSource(cs.common().Args[1])
			if e, ok := req.(*ssa.Extract); ok {
				req = e.Tuple
			}
			mk, isCall := req.(*ssa.Call)
			if !isCall || calleeName(mk.Common()) != "net/http.NewRequestWithContext" || !derivedFromLoopCtx(mk.Call.Args[0], ctxF) {
				bound = false
			}
		case "net/http.NewRequestWithContext", "net/http.StatusText", "net/http.CanonicalHeaderKey":
		case "net/http.NewRequest", "net/http.Get", "net/http.Head", "net/http.Post", "(*net/http.Client).Get", "(*net/http.Client).Head", "(*net/http.Client).Post":
			nSend++
			bound = false
		}
	}
	c.ob(rule, "HealthCheck.check/probe-bound-to-the-loop-context", check.Pos(), nSend >= 1 && bound, true, "the probe request must be built with NewRequestWithContext on a context derived from hc.ctx (the one Close cancels); a request on its own context or on a client-side timeout keeps going - and can be followed by another - after the target was disposed")
	_ = fmt.Sprint
}

// derivedFromLoopCtx: v is hc.ctx itself or the context returned by context.WithTimeout/WithDeadline/WithCancel/
// WithValue/WithoutCancel-free chains on it.
func derivedFromLoopCtx(v ssa.Value, ctxF *types.Var) bool {
	for i := 0; i < 6; i++ {
		if isLoadOfField(v, ctxF) {
			return true
		}
		if e, ok := v.(*ssa.Extract); ok && e.Index == 0 {
			v = e.Tuple
		}
		call, ok := v.(*ssa.Call)
		if !ok {
			return false
		}
		switch calleeName(call.Common()) {
		case "context.WithTimeout", "context.WithDeadline", "context.WithCancel", "context.WithValue", "context.WithCancelCause", "context.WithTimeoutCause", "context.WithDeadlineCause":
			v = call.Call.Args[0]
		default:
			return false
		}
	}
	return false
}

// freshServiceObject: the service an active-slot deploy works on is a fresh object on every way (NewService /
// CopyWithOptions), never the installed *Service itself.
func freshServiceObject(c *Ctx, rule string) {
	ds := c.method("Router", "DeployService")
	dep := c.method("Router", "deployTargetsIntoService")
	okF, n := true, 0
	for _, dc := range callsTo(ds, dep) {
		n++
		if !freshServiceWithNilError(c, nil, dc.common().Args[1]) {
			okF = false
		}
	}
	c.ob(rule, "findOrCreateService/always-fresh-object", ds.Pos(), okF && n >= 1, true, "a deploy must never be handed the installed *Service itself")
}

// freshServiceWithNilError: every value svc can be is the first result of a NewService / CopyWithOptions call (or nil);
// when `at` is given, the error result of that same call is known nil there (directly, or because the error merged in
// step with the service - same block, same incoming edges - is known nil).
func freshServiceWithNilError(c *Ctx, at ssa.Instruction, svc ssa.Value) bool {
	ns := c.fn("NewService")
	cwo := c.method("Service", "CopyWithOptions")
	isMaker := func(v ssa.Value) (*ssa.Call, bool) {
		e, isE := v.(*ssa.Extract)
		if !isE || e.Index != 0 {
			return nil, false
		}
		call, isCall := e.Tuple.(*ssa.Call)
		if !isCall || !(isCallTo(call.Common(), ns) || isCallTo(call.Common(), cwo)) {
			return nil, false
		}
		return call, true
	}
	svc = resolve(svc)
	if call, ok := isMaker(svc); ok {
		if at == nil {
			return true
		}
		isNil, _ := nilKnowledge(at, sameAs(errResultOf(call)))
		return isNil
	}
	phi, ok := svc.(*ssa.Phi)
	if !ok {
		return false
	}
	var makers []*ssa.Call
	for _, e := range phi.Edges {
		if isNilConst(e) {
			makers = append(makers, nil)
			continue
		}
		call, ok := isMaker(e)
		if !ok {
			return false
		}
		makers = append(makers, call)
	}
	if at == nil {
		return true
	}
	// the error phi that travels with it
	for _, in := range phi.Block().Instrs {
		ep, ok := in.(*ssa.Phi)
		if !ok || ep == phi || !isErrorType(ep.Type()) {
			continue
		}
		match := true
		for i, e := range ep.Edges {
			if makers[i] == nil {
				continue
			}
			if x, isE := e.(*ssa.Extract); !isE || x.Index != 1 || x.Tuple != ssa.Value(makers[i]) {
				match = false
			}
		}
		if match {
			if isNil, _ := nilKnowledge(at, sameAs(ep)); isNil {
				return true
			}
		}
	}
	return false
}
