package main

import (
	"fmt"
	"go/token"
	"go/types"
	"sort"
	"strings"

	"golang.org/x/tools/go/ssa"
)

func init() {
	register("C18", &propCheck{
		explain: "A race, a lock-order cycle or an unguarded close exists in the program text whether or not a schedule exposing it was ever run. (R18.1) guarded-by: for EVERY field of every struct type of internal/server, all accesses outside the construction phase are collected with their must-hold lockset (interprocedural, through the with*Lock wrappers and range-over-func bodies); a field that is written after construction must have one lock held at every such access (write mode for writes), unless its type is confined to one goroutine or it is in the frozen exemption table (one reason per line); (R18.1b) in-place mutated containers are only used while their lock is held; (R18.2) lock order: acquisition edges computed with MAY-hold locksets are acyclic, no lock is re-acquired while held, and no may-block operation runs while a lock may be held; (R18.3) may-panic sites are discharged by a dominating guard: close() through the extracted typestates (PauseController model from every start state, becameHealthy closed only on adding->healthy), integer % and constant indexing guarded by length facts, unchecked type assertions only in a frozen start-up table, nil-slot dereference of Service.active by 'installed => active set', WaitGroup counts matching their fan-out. (R18.5) a pointer returned together with an error is nil whenever the error is not (per-function summary); callers dereference it only where the error is known nil or the pointer non-nil, also after it went round a loop.",
		notDecided: []string{"races inside dependencies", "liveness under starvation", "panics from resource exhaustion", "happens-before through channels/WaitGroups is admitted only through the frozen table"},
		run:        checkC18,
	})
}

func checkC18(c *Ctx) {
	r181(c)
	r181b(c)
	r182(c, "R18.2 lock-order-and-blocking-under-lock")
	r183(c)
	rNoLockCopies(c, "R18.4 no-lock-copies")
	rNilOnErrorResults(c, "R18.5 nil-on-error-results-checked-before-use")
}

// constructionPhase: functions in which the receiver / object written is not yet shared with another goroutine.
// Each entry is justified by who may call it (verified below).
var constructionPhase = map[string]string{
	"server.NewService":                          "builds a fresh Service",
	"(*server.Service).CopyWithOptions":          "writes only the fresh copy (R06.2)",
	"(*server.Service).initialize":               "called only while the Service is being built / restored",
	"(*server.Service).UnmarshalJSON":            "decode target, not yet installed",
	"(*server.PauseController).UnmarshalJSON":    "decode target, not yet installed",
	"server.NewTarget":                           "fresh Target",
	"(*server.TargetOptions).canonicalizeLogHeaders": "called on NewTarget's private copy of the options",
	"server.NewLoadBalancer":                     "fresh LoadBalancer",
	"(*server.LoadBalancer).beginHealthChecks":   "called only by NewLoadBalancer before the balancer is returned",
	"(*server.Target).BeginHealthChecks":         "pre-spawn: stores precede the go statement that starts the probe loop (NewHealthCheck is the last call)",
	"server.NewHealthCheck":                      "fresh HealthCheck, stores precede go hc.run()",
	"server.NewRouter":                           "fresh Router",
	"server.NewServiceMap":                       "fresh ServiceMap",
	"server.NewServer":                           "fresh Server",
	"(*server.Server).Start":                     "start-up, before any listener goroutine exists",
	"(*server.Server).startHTTPServers":          "start-up: fields are written before the Serve goroutines are started",
	"(*server.Server).startCommandHandler":       "start-up",
	"(*server.CommandHandler).Start":             "start-up: rpcListener is stored before the accept goroutine starts",
	"server.NewCommandHandler":                   "fresh",
	"(*server.ServiceOptions).Normalize":         "called on a private copy of the options (NewService parameter / CLI args)",
	"(*server.ServiceOptions).WithHosts":         "writes a local copy",
	"(*server.ServiceOptions).WithPathPrefixes":  "writes a local copy",
}

// constructionCallers: who may call the non-obvious construction-phase functions.
var constructionCallers = map[string][]string{
	"(*server.Service).initialize":             {"server.NewService", "(*server.Service).CopyWithOptions", "(*server.Service).UnmarshalJSON"},
	"(*server.LoadBalancer).beginHealthChecks": {"server.NewLoadBalancer"},
	"(*server.Target).BeginHealthChecks":       {"(*server.LoadBalancer).beginHealthChecks", "server.NewLoadBalancer"},
	"(*server.Server).startHTTPServers":        {"(*server.Server).Start"},
	"(*server.Server).startCommandHandler":     {"(*server.Server).Start"},
	"(*server.TargetOptions).canonicalizeLogHeaders": {"server.NewTarget"},
}

// confinedTypes: objects of these types live in one goroutine (one request / one call).
var confinedTypes = map[string]string{
	"Buffer":                 "created per request by a buffering middleware, used by that request's goroutine only",
	"bufferedResponseWriter": "per request",
	"loggerResponseWriter":   "per request",
	"targetResponseWriter":   "per request",
	"loggingRequestContext":  "per request: written down the handler chain of the same goroutine, read by the deferred log call of that goroutine",
	"errorResponse":          "per request",
	"routingContext":         "per request, immutable after creation",
	"marshalledService":      "local value of Marshal/UnmarshalJSON",
	"pathBinding":            "immutable after updateRequestServiceMap built it",
	"ListResponse":           "RPC reply object owned by the call",
}

// fieldExemptions: fields written after construction without a common lock, each with the reason it is not a race.
var fieldExemptions = map[string]string{
	"Target.healthcheck": "set before the probe goroutine starts; stopHealthChecks is called by the per-target waiter goroutines of a still-unpublished balancer (joined by wg.Wait before Dispose can run) and later only under LoadBalancer.lock via Dispose",
	"Service.active":     "UpdateLoadBalancer writes the active slot only on the not-yet-installed copy made by DeployService (slot constant checked below); an installed service's active slot is never written",
	"Router.services":    "replaced once by RestoreLastSavedState under the write lock, before the listeners start (R11.3)",
}

func r181(c *Ctx) {
	const rule = "R18.1 guarded-by"
	c.floor(rule, 60)
	li := c.lockInfo()
	// 1. construction-phase callers
	for callee, allowed := range constructionCallers {
		var fn *ssa.Function
		for _, f := range c.proxyFuncs() {
			if fname(f) == callee {
				fn = f
			}
		}
		if fn == nil {
			// the helper no longer exists as a function (folded into a caller): its stores are now that caller's, and are
			// judged there (a construction-phase caller, or the guarded-by rule below)
			c.ob(rule, "construction-phase/"+callee, token.NoPos, true, false, "not present in this tree")
			continue
		}
		for _, u := range c.usesOfFunc(fn) {
			o := fname(outer(u.in))
			ok := false
			for _, a := range allowed {
				if a == o {
					ok = true
				}
			}
			c.ob(rule, "construction-phase: call "+callee+" <- "+o, u.instr.Pos(), ok, false, "this function writes unshared objects only because its callers are constructors; another caller would make its stores racy")
		}
	}
	// the active slot is only updated on a fresh copy
	dep := c.method("Router", "deployTargetsIntoService")
	activeSlot := c.enumVal(c.server, "TargetSlotActive")
	for _, u := range c.usesOfFunc(dep) {
		call, ok := u.instr.(*ssa.Call)
		if !ok {
			continue
		}
		k, isK := constInt(call.Call.Args[2])
		if !isK {
			c.ob(rule, "deployTargetsIntoService/slot-constant in "+fname(u.in), call.Pos(), false, true, "the slot must be a constant at each call site (the active slot may only be written on an uninstalled copy)")
			continue
		}
		if k == activeSlot {
			fresh := freshServiceWithNilError(c, nil, call.Call.Args[1])
			c.ob(rule, "active-slot-written-only-on-fresh-service in "+fname(u.in), call.Pos(), fresh, true, "TargetSlotActive may be deployed only into the service returned by findOrCreateService (a fresh object, R06.2)")
		}
	}
	// ... and that function never hands out the installed object (premise of the Service.active exemption)
	freshServiceObject(c, rule)
	// 2. every field of every struct type of the package
	var typeNames []string
	for name, m := range c.server.Members {
		if t, ok := m.(*ssa.Type); ok {
			if _, ok := t.Type().Underlying().(*types.Struct); ok {
				typeNames = append(typeNames, name)
			}
		}
	}
	sort.Strings(typeNames)
	nFields := 0
	for _, tn := range typeNames {
		if strings.HasSuffix(tn, "Args") || strings.HasSuffix(tn, "Command") {
			continue
		}
		st := c.named(tn).Underlying().(*types.Struct)
		for i := 0; i < st.NumFields(); i++ {
			f := st.Field(i)
			key := tn + "." + f.Name()
			// synchronisation objects themselves
			if ts := typeString(f.Type()); strings.HasPrefix(ts, "sync.") || strings.HasPrefix(ts, "sync/atomic.") || strings.HasPrefix(ts, "*sync.") {
				continue
			}
			nFields++
			if reason, ok := confinedTypes[tn]; ok {
				c.ob(rule, key+"/confined", f.Pos(), true, false, "confined type: "+reason)
				continue
			}
			if m := c.rpcReplyOf(tn); m != "" {
				c.ob(rule, key+"/confined", f.Pos(), true, false, "confined type: reply object of RPC method CommandHandler."+m+" (net/rpc allocates one per call)")
				continue
			}
			var shared []fieldAccess
			writes := 0
			for _, a := range c.accessesOf(f) {
				if _, ok := constructionPhase[fname(outer(a.fn))]; ok {
					// (CopyWithOptions builds a fresh copy FROM the live service: what it reads of its receiver is shared)
					if !(fname(outer(a.fn)) == "(*server.Service).CopyWithOptions" && len(a.fn.Params) > 0 && resolve(a.base) == ssa.Value(a.fn.Params[0])) {
						continue
					}
				}
				if _, isAlloc := a.base.(*ssa.Alloc); isAlloc {
					continue // composite literal / local value
				}
				if !inProxy(c, a.fn) {
					continue
				}
				shared = append(shared, a)
				if a.write {
					writes++
				}
			}
			if writes == 0 {
				c.ob(rule, key+"/immutable-after-construction", f.Pos(), true, len(shared) > 0, fmt.Sprintf("no write outside the construction phase (%d shared reads)", len(shared)))
				continue
			}
			if reason, ok := fieldExemptions[key]; ok {
				c.ob(rule, key+"/exempt", f.Pos(), true, false, "exempt: "+reason)
				continue
			}
			// a lock common to all shared accesses
			var common lockset
			for i, a := range shared {
				held := li.before(a.instr)
				need := lockset{}
				for l, m := range held {
					if a.write && m < modeW {
						continue
					}
					// (a lock of the same struct taken on ANOTHER object does not protect this one's field)
					if c.lockOnOtherObject(li, a, l, modeR) != "" {
						continue
					}
					need[l] = m
				}
				if i == 0 {
					common = need
				} else {
					common = meet(common, need)
				}
			}
			if len(common) > 0 {
				c.ob(rule, key+"/guarded-by "+common.String(), f.Pos(), true, true, fmt.Sprintf("%d accesses outside construction (%d writes), all under %s", len(shared), writes, common))
				continue
			}
			// report the offending accesses compactly
			var bad []string
			for _, a := range shared {
				held := li.before(a.instr)
				k := "read"
				if a.write {
					k = "WRITE"
				}
				wrong := ""
				for l := range held {
					if at := c.lockOnOtherObject(li, a, l, modeR); at != "" {
						wrong = " (" + lockName(l) + " taken at " + at + " on a different object)"
					}
				}
				bad = append(bad, fmt.Sprintf("%s in %s @%s holds %s%s", k, fname(a.fn), c.pos(a.instr.Pos()), held, wrong))
			}
			sort.Strings(bad)
			if len(bad) > 14 {
				bad = append(bad[:14], fmt.Sprintf("... and %d more", len(bad)-14))
			}
			c.ob(rule, key+"/unguarded-shared-field", f.Pos(), false, true, "written after construction with no lock common to all accesses (data race under the Go memory model): "+strings.Join(bad, "; "))
		}
	}
	c.ob(rule, "fields-classified", c.method("Router", "ServeHTTP").Pos(), nFields >= 60, false, fmt.Sprintf("%d fields of %d struct types examined", nFields, len(typeNames)))
}

func inProxy(c *Ctx, fn *ssa.Function) bool {
	o := outer(fn)
	return o.Pkg == c.server && !strings.HasSuffix(c.fset.Position(o.Pos()).Filename, "/testing.go")
}

// R18.1b containers that are mutated in place are only used under their lock.
func r181b(c *Ctx) {
	const rule = "R18.1b containers-used-only-under-their-lock"
	c.floor(rule, 3)
	li := c.lockInfo()
	for _, it := range []struct{ typ, field, lockTyp, lock string }{
		{"LoadBalancer", "healthy", "LoadBalancer", "lock"},
		{"Target", "inflight", "Target", "inflightLock"},
		{"ServiceMap", "services", "Router", "serviceLock"},
	} {
		f := c.field(it.typ, it.field)
		lock := c.field(it.lockTyp, it.lock)
		bad := ""
		n := 0
		for _, fn := range c.proxyFuncs() {
			if _, ok := constructionPhase[fname(outer(fn))]; ok {
				continue
			}
			for _, ld := range readsOfFieldIn(fn, f) {
				v := ld.(ssa.Value)
				if u, ok := v.(*ssa.UnOp); ok {
					if fa, ok := u.X.(*ssa.FieldAddr); ok {
						if _, isAlloc := fa.X.(*ssa.Alloc); isAlloc {
							continue
						}
					}
				}
				seen := map[ssa.Value]bool{}
				var walk func(v ssa.Value)
				walk = func(v ssa.Value) {
					if seen[v] || v.Referrers() == nil {
						return
					}
					seen[v] = true
					for _, r := range *v.Referrers() {
						n++
						if _, isDbg := r.(*ssa.DebugRef); isDbg {
							continue
						}
						if !li.holds(r, lock, modeR) {
							bad = fmt.Sprintf("%s: value loaded from %s.%s used without %s at %s", fname(fn), it.typ, it.field, lockName(lock), c.pos(r.Pos()))
						}
						switch x := r.(type) {
						case *ssa.Slice:
							walk(x)
						case *ssa.Phi:
							walk(x)
						case *ssa.ChangeType:
							walk(x)
						case *ssa.Range:
							walk(x)
						case *ssa.Return:
							bad = fmt.Sprintf("%s returns the container %s.%s itself (escapes its lock) at %s", fname(fn), it.typ, it.field, c.pos(r.Pos()))
						case *ssa.Store:
							if sf, _, ok := fieldOfAddr(x.Addr); !(ok && sf == f) && x.Val == v {
								bad = fmt.Sprintf("%s stores the container %s.%s elsewhere at %s", fname(fn), it.typ, it.field, c.pos(r.Pos()))
							}
						case *ssa.MakeClosure:
							bad = fmt.Sprintf("%s captures the container value at %s", fname(fn), c.pos(r.Pos()))
						case ssa.CallInstruction:
							if _, isB := x.Common().Value.(*ssa.Builtin); !isB {
								// passing the container to a function: the callee must also hold the lock (checked where it uses its parameter only if it is a module function entered with the lock)
								if sc := x.Common().StaticCallee(); sc == nil || !c.inModule(sc) || li.entryOf(sc)[lock] < modeR {
									// library functions that only read their argument while the call lasts (the lock is held: checked above)
									if !map[string]bool{"slices.Contains": true, "slices.ContainsFunc": true, "slices.Index": true, "slices.IndexFunc": true, "slices.Clone": true,
										"maps.Clone": true, "maps.Keys": false, "slices.Equal": true, "maps.Equal": true}[calleeName(x.Common())] {
										if why := c.lazyIteratorConfined(li, x, fn, lock); why != "" {
											bad = fmt.Sprintf("%s passes the container %s.%s to %s at %s%s", fname(fn), it.typ, it.field, calleeName(x.Common()), c.pos(r.Pos()), why)
										}
									}
								}
							}
						}
					}
				}
				walk(v)
			}
		}
		c.ob(rule, it.typ+"."+it.field+"/confined-to-"+lockName(lock), f.Pos(), bad == "" && n > 0, true, func() string {
			if bad != "" {
				return bad
			}
			return fmt.Sprintf("%d uses of values loaded from the field, all while the lock is held, none escaping", n)
		}())
	}
}

// lazyIteratorConfined: the call hands the container to a library function that returns an iterator over it (maps.All,
// maps.Keys, ...): the container is read when the iterator runs. That is confined to the lock when the iterator is only
// returned by fn, and every caller of fn runs it at once (range-over-func: `it(yield)`) while holding the lock.
// Returns "" when confined, else the reason.
func (c *Ctx) lazyIteratorConfined(li *LockInfo, call ssa.CallInstruction, fn *ssa.Function, lock *types.Var) string {
	if !map[string]bool{"maps.All": true, "maps.Keys": true, "maps.Values": true, "slices.All": true, "slices.Values": true}[calleeName(call.Common())] {
		return " (not a function known to only read its argument while the call lasts)"
	}
	v, ok := call.(ssa.Value)
	if !ok || v.Referrers() == nil {
		return " (iterator not used as a value)"
	}
	for _, r := range *v.Referrers() {
		switch r.(type) {
		case *ssa.Return, *ssa.DebugRef:
		default:
			return " (the iterator over the container is kept or used other than by returning it)"
		}
	}
	n := 0
	for _, g := range c.modFuncs {
		for _, cs := range callsTo(g, fn) {
			n++
			rv, ok := cs.instr.(ssa.Value)
			if !ok || rv.Referrers() == nil {
				return " (a caller discards or defers the iterator)"
			}
			for _, r := range *rv.Referrers() {
				if _, isDbg := r.(*ssa.DebugRef); isDbg {
					continue
				}
				run, isCall := r.(*ssa.Call)
				if !isCall || run.Call.Value != rv {
					return fmt.Sprintf(" (%s keeps the iterator instead of running it at once, at %s)", fname(g), c.pos(r.Pos()))
				}
				if !li.holds(run, lock, modeR) {
					return fmt.Sprintf(" (%s runs the iterator without %s at %s)", fname(g), lockName(lock), c.pos(r.Pos()))
				}
			}
		}
	}
	if n == 0 {
		return " (no caller found)"
	}
	return ""
}

type lockEdge struct {
	from, to *types.Var
	at       ssa.Instruction
	fn       *ssa.Function
}

func r182(c *Ctx, rule string) {
	c.floor(rule, 6)
	may := c.mayLockInfo()
	var edges []lockEdge
	locks := map[*types.Var]bool{}
	for _, fn := range c.proxyFuncs() {
		for _, a := range may.acq[fn] {
			locks[a.op.field] = true
			held := may.before(a.instr)
			for l := range held {
				edges = append(edges, lockEdge{l, a.op.field, a.instr, fn})
			}
		}
	}
	c.ob(rule, "locks-discovered", c.method("Router", "ServeHTTP").Pos(), len(locks) >= 5, false, fmt.Sprintf("%d mutexes (by field) with %d nested acquisition sites", len(locks), len(edges)))
	// self edges: re-acquisition
	adj := map[*types.Var]map[*types.Var]lockEdge{}
	for _, e := range edges {
		if e.from == e.to {
			c.ob(rule, "re-acquisition of "+lockName(e.to)+" in "+fname(e.fn), e.at.Pos(), false, true, "a lock is acquired while it may already be held on the same object graph (sync.Mutex self-deadlock; recursive RLock deadlocks behind a waiting writer)")
			continue
		}
		if adj[e.from] == nil {
			adj[e.from] = map[*types.Var]lockEdge{}
		}
		adj[e.from][e.to] = e
	}
	var names []string
	for from, tos := range adj {
		for to, e := range tos {
			names = append(names, fmt.Sprintf("%s -> %s (%s)", lockName(from), lockName(to), fname(e.fn)))
		}
	}
	sort.Strings(names)
	for _, n := range names {
		c.ob(rule, "order-edge "+n, token.NoPos, true, true, "acquisition edge (may-hold)")
	}
	// cycle detection
	state := map[*types.Var]int{}
	var cycle []string
	var dfs func(v *types.Var, path []string) bool
	dfs = func(v *types.Var, path []string) bool {
		state[v] = 1
		for to := range adj[v] {
			if state[to] == 1 {
				cycle = append(path, lockName(v), lockName(to))
				return true
			}
			if state[to] == 0 && dfs(to, append(path, lockName(v))) {
				return true
			}
		}
		state[v] = 2
		return false
	}
	hasCycle := false
	for l := range locks {
		if state[l] == 0 && dfs(l, nil) {
			hasCycle = true
			break
		}
	}
	c.ob(rule, "acquisition-graph-acyclic", c.method("Router", "ServeHTTP").Pos(), !hasCycle, true, func() string {
		if hasCycle {
			return "lock-order cycle: " + strings.Join(cycle, " -> ") + " (two goroutines taking the locks in opposite orders deadlock)"
		}
		return "no cycle among the acquisition edges"
	}())
	// blocking while a lock may be held
	nBlock := 0
	for _, fn := range c.proxyFuncs() {
		for _, b := range fn.Blocks {
			for _, in := range b.Instrs {
				kind := ""
				switch x := in.(type) {
				case *ssa.Select:
					if x.Blocking {
						kind = "select"
					}
				case *ssa.UnOp:
					if x.Op == token.ARROW {
						kind = "channel receive"
					}
				case *ssa.Send:
					kind = "channel send"
				case ssa.CallInstruction:
					switch n := calleeName(x.Common()); n {
					case "(*sync.WaitGroup).Wait", "time.Sleep", "(*sync.Cond).Wait", "(*net/http.Client).Do", "(*net/http.Server).Shutdown", "net/rpc.ServeConn":
						if _, isGo := in.(*ssa.Go); !isGo {
							kind = n
						}
					}
				}
				if kind == "" {
					continue
				}
				nBlock++
				held := may.before(in)
				c.ob(rule, fmt.Sprintf("%s/%s-with-no-lock-held", fname(fn), kind), in.Pos(), len(held) == 0, true, func() string {
					if len(held) > 0 {
						return "a may-block operation while " + held.String() + " may be held: every other goroutine needing that lock (requests, probes, commands) stalls behind it, and if the awaited party needs the lock itself this is a deadlock"
					}
					return "no lock may be held here"
				}())
			}
		}
	}
	c.ob(rule, "blocking-operations-found", c.method("Router", "ServeHTTP").Pos(), nBlock >= 6, false, fmt.Sprintf("%d may-block operations examined", nBlock))
}

func r183(c *Ctx) {
	const rule = "R18.3 may-panic-sites-are-guarded"
	c.floor(rule, 10)
	// close sites
	nClose := 0
	for _, fn := range c.proxyFuncs() {
		for _, cs := range callsIn(fn) {
			b, ok := cs.common().Value.(*ssa.Builtin)
			if !ok || b.Name() != "close" {
				continue
			}
			nClose++
			f, _, isField := fieldLoad(cs.common().Args[0])
			which := "<expr>"
			if isField {
				which = f.Name()
			}
			okSite := isField && ((f == c.field("Target", "becameHealthy") && fname(outer(fn)) == "(*server.Target).HealthCheckCompleted") || (f == c.field("PauseController", "pauseChannel") && strings.HasPrefix(fname(outer(fn)), "(*server.PauseController).")))
			c.ob(rule, "close("+which+") in "+fname(fn), cs.pos(), okSite, true, "every close must be one of the two typestate-checked sites: becameHealthy (closed once, on adding->healthy: R01.4) or PauseController.pauseChannel (model below)")
		}
	}
	c.ob(rule, "close-sites-found", c.method("Target", "HealthCheckCompleted").Pos(), nClose == 2, false, "")
	r014(c)
	r071(c, "R18.3a pause-controller-never-panics")
	// integer division / modulo by a non-constant: guarded by a non-zero fact
	for _, fn := range c.proxyFuncs() {
		for _, b := range fn.Blocks {
			for _, in := range b.Instrs {
				bo, ok := in.(*ssa.BinOp)
				if !ok || (bo.Op != token.REM && bo.Op != token.QUO) {
					continue
				}
				if basic, ok := bo.X.Type().Underlying().(*types.Basic); !ok || basic.Info()&types.IsInteger == 0 {
					continue
				}
				if _, isConst := bo.Y.(*ssa.Const); isConst {
					continue
				}
				guarded := false
				// divisor is len(x): need len(x) != 0 / > 0 known for the same field
				if call, ok := bo.Y.(*ssa.Call); ok {
					if bi, ok := call.Call.Value.(*ssa.Builtin); ok && bi.Name() == "len" {
						if f, _, ok := fieldLoad(call.Call.Args[0]); ok {
							lo, _, neq := interval(intFacts(in, func(v ssa.Value) bool {
								c2, ok := v.(*ssa.Call)
								if !ok {
									return false
								}
								b2, ok := c2.Call.Value.(*ssa.Builtin)
								return ok && b2.Name() == "len" && isLoadOfField(c2.Call.Args[0], f)
							}))
							guarded = lo >= 1
							for _, k := range neq {
								if k == 0 {
									guarded = true
								}
							}
						}
					}
				}
				c.ob(rule, "integer "+bo.Op.String()+" in "+fname(fn), in.Pos(), guarded, true, "an integer division/modulo by a run-time value must be dominated by a non-zero test of that value (division by zero panics the handler's goroutine; in an RPC handler it kills the process)")
			}
		}
	}
	// constant index into a slice-typed field: guarded by len > k
	for _, fn := range c.proxyFuncs() {
		for _, b := range fn.Blocks {
			for _, in := range b.Instrs {
				ia, ok := in.(*ssa.IndexAddr)
				if !ok {
					continue
				}
				k, isK := constInt(ia.Index)
				if !isK {
					continue
				}
				if _, isSlice := ia.X.Type().Underlying().(*types.Slice); !isSlice {
					continue // arrays (varargs backing stores) are in range by construction
				}
				f, _, isField := fieldLoad(ia.X)
				guarded := false
				lo, _, neq := interval(intFacts(in, func(v ssa.Value) bool {
					c2, ok := v.(*ssa.Call)
					if !ok {
						return false
					}
					b2, ok := c2.Call.Value.(*ssa.Builtin)
					if !ok || b2.Name() != "len" {
						return false
					}
					return c2.Call.Args[0] == ia.X || (isField && isLoadOfField(c2.Call.Args[0], f))
				}))
				// a length is never negative: `len(x) != 0` (or the false arm of `== 0`) gives len >= 1
				if lo < 0 {
					lo = 0
				}
				for changed := true; changed; {
					changed = false
					for _, n := range neq {
						if n == lo {
							lo++
							changed = true
						}
					}
				}
				guarded = lo >= k+1
				if sl, ok := ia.X.(*ssa.Slice); ok && !guarded {
					_, guarded = sl.X.(*ssa.Alloc) // slice of a local array literal
				}
				c.ob(rule, fmt.Sprintf("constant index [%d] in %s", k, fname(fn)), in.Pos(), guarded, true, "indexing a slice with a constant must be dominated by a length test (index out of range panics)")
			}
		}
	}
	// run-time index into a slice: in range because it is the loop variable of a range over that slice, is tested
	// against len of that slice, or was just reduced modulo len of that slice
	for _, fn := range c.proxyFuncs() {
		for _, b := range fn.Blocks {
			for _, in := range b.Instrs {
				ia, ok := in.(*ssa.IndexAddr)
				if !ok {
					continue
				}
				if _, isK := constInt(ia.Index); isK {
					continue
				}
				if _, isSlice := ia.X.Type().Underlying().(*types.Slice); !isSlice {
					continue
				}
				sameSlice := func(v ssa.Value) bool {
					if v == ia.X {
						return true
					}
					f1, b1, ok1 := fieldLoad(v)
					f2, b2, ok2 := fieldLoad(ia.X)
					return ok1 && ok2 && f1 == f2 && b1 == b2
				}
				isLenOfSlice := func(v ssa.Value) bool {
					call, ok := v.(*ssa.Call)
					if !ok {
						return false
					}
					bi, ok := call.Call.Value.(*ssa.Builtin)
					return ok && bi.Name() == "len" && sameSlice(call.Call.Args[0])
				}
				guarded := false
				// idx < len(X) on a dominating branch (covers `for i := range X` and explicit tests)
				for _, ce := range dominatingConds(b) {
					cm, ok := ce.asCmp()
					if !ok {
						continue
					}
					if cm.op == token.LSS && cm.x == ia.Index && isLenOfSlice(cm.y) {
						guarded = true
					}
					if cm.op == token.GTR && cm.y == ia.Index && isLenOfSlice(cm.x) {
						guarded = true
					}
				}
				// a position found by a search of this very slice, merged with the "not found" -1 and used only on the
				// branch where it is not negative (`i := slices.IndexFunc(xs, ...); if i < 0 { ... }; xs[i]`)
				if ri := reduceIndex(ia.Index); !guarded && ri != ia.Index {
					nonNeg := false
					for _, f := range intFacts(in, sameAs(ia.Index)) {
						if (f.op == token.GEQ && f.k >= 0) || (f.op == token.GTR && f.k >= -1) || (f.op == token.NEQ && f.k == -1) {
							nonNeg = true
						}
					}
					if src, full := fullRangeElem(&ssa.UnOp{Op: token.MUL, X: &ssa.IndexAddr{X: ia.X, Index: ri}}); nonNeg && full && src != nil {
						guarded = true
					}
				}
				// X = make([]T, len(Y)) indexed by the loop variable of a range over Y (filling a pre-sized result)
				if mk, isMk := ia.X.(*ssa.MakeSlice); isMk && !guarded {
					if lc, isCall := mk.Len.(*ssa.Call); isCall {
						if bi, isB := lc.Call.Value.(*ssa.Builtin); isB && bi.Name() == "len" {
							for _, ce := range dominatingConds(b) {
								cm, ok := ce.asCmp()
								if !ok || cm.op != token.LSS || cm.x != ia.Index {
									continue
								}
								if l2, ok := cm.y.(*ssa.Call); ok {
									if b2, ok := l2.Call.Value.(*ssa.Builtin); ok && b2.Name() == "len" && l2.Call.Args[0] == lc.Call.Args[0] {
										guarded = true
									}
								}
							}
						}
					}
				}
				// idx = E % len(X), directly or through a field stored in this block with nothing in between that could change it
				isMod := func(v ssa.Value) bool {
					bo, ok := v.(*ssa.BinOp)
					return ok && bo.Op == token.REM && isLenOfSlice(bo.Y)
				}
				if !guarded && isMod(ia.Index) {
					guarded = true
				}
				if !guarded {
					if f, base, ok := fieldLoad(ia.Index); ok {
						var last *ssa.Store
						for _, prev := range b.Instrs {
							if prev == in {
								break
							}
							switch x := prev.(type) {
							case *ssa.Store:
								if f2, b2, ok := fieldOfAddr(x.Addr); ok && f2 == f && b2 == base {
									last = x
								}
							case *ssa.Call:
								if _, isB := x.Call.Value.(*ssa.Builtin); !isB {
									last = nil
								}
							}
						}
						guarded = last != nil && isMod(last.Val)
					}
				}
				c.ob(rule, "run-time index in "+fname(fn), in.Pos(), guarded, true, "an index computed at run time must be provably within the slice it indexes (loop variable of a range over it, tested against its len, or reduced modulo its len just before): the healthy list shrinks and grows under the handler's feet, and index out of range panics")
			}
		}
	}
	// unchecked type assertions
	allowedTA := map[string]string{
		"(*server.Server).HttpPort":  "listener created by net.Listen(\"tcp\", ...) in startHTTPServers: Addr() is a *net.TCPAddr",
		"(*server.Server).HttpsPort": "same",
		"(*server.BufferPool).Get":   "the pool's New always returns *[]byte and Put only stores *[]byte",
	}
	for _, fn := range c.proxyFuncs() {
		for _, b := range fn.Blocks {
			for _, in := range b.Instrs {
				ta, ok := in.(*ssa.TypeAssert)
				if !ok || ta.CommaOk {
					continue
				}
				reason, ok := allowedTA[fname(outer(fn))]
				c.ob(rule, "unchecked type assertion in "+fname(fn), in.Pos(), ok, true, func() string {
					if ok {
						return "allowed: " + reason
					}
					return "a type assertion without comma-ok panics when the dynamic type differs"
				}())
			}
		}
	}
	// nil-slot dereference: Service.active is dereferenced without a nil test; the invariant 'installed => active set' must hold:
	// every service handed to installService had UpdateLoadBalancer(lb, Active) applied (fresh) or was already installed (rollout on a live service);
	// restored services get active from UnmarshalJSON unconditionally.
	um := c.method("Service", "UnmarshalJSON")
	activeF := c.field("Service", "active")
	okRestore := false
	for _, w := range c.writesOfField(activeF) {
		if w.fn == um && onlyErrNilGuards(w.instr) {
			if call, ok := nonNilSource(w.val).(*ssa.Call); ok && call.Call.StaticCallee() != nil && call.Call.StaticCallee().Name() == "NewLoadBalancer" {
				okRestore = true
			}
		}
	}
	c.ob(rule, "installed=>active-set/restore", um.Pos(), okRestore, true, "a restored service always gets an active balancer (s.active.* is dereferenced without nil checks on the request path, in Dispose, Drain and MarshalJSON)")
	ds := c.method("Router", "DeployService")
	okDeploy := false
	for _, cs := range callsTo(ds, c.method("Router", "deployTargetsIntoService")) {
		if k, ok := constInt(cs.common().Args[2]); ok && k == c.enumVal(c.server, "TargetSlotActive") {
			okDeploy = true
		}
	}
	c.ob(rule, "installed=>active-set/deploy", ds.Pos(), okDeploy, true, "a service is first installed by DeployService, which fills the ACTIVE slot before installService")
	upd := c.method("Service", "UpdateLoadBalancer")
	okUpd := false
	for _, w := range c.writesOfField(activeF) {
		if w.fn == upd && w.val == ssa.Value(upd.Params[1]) {
			okUpd = true
		}
	}
	c.ob(rule, "installed=>active-set/slot-setter-stores-the-balancer", upd.Pos(), okUpd, true, "")
	// the new balancer passed is never nil: it is the result of NewLoadBalancer (R01.1)
	// WaitGroup counts match fan-out: checked structurally by the join shapes
	allF := c.field("LoadBalancer", "all")
	c.joinShape(rule, "LoadBalancer.DrainAll", c.method("LoadBalancer", "DrainAll"), func(v ssa.Value) bool { return isLoadOfField(v, allF) }, "lb.all", func(cl *ssa.Function) bool { return true }, "work")
	pc := c.fn("PerformConcurrently")
	c.joinShape(rule, "PerformConcurrently", pc, func(v ssa.Value) bool { return v == ssa.Value(pc.Params[0]) }, "fns", func(cl *ssa.Function) bool { return true }, "work")
	// RPC handlers have no recover: a panic in a command kills the process, so the obligations above cover every command path
	_ = fmt.Sprint
}

// rpcReplyOf: the struct type is the reply type (second parameter, by pointer) of an exported CommandHandler method with
// the net/rpc handler signature, and is used nowhere as a field or global; returns the method's name.
func (c *Ctx) rpcReplyOf(tn string) string {
	nt := c.named(tn)
	ch := c.named("CommandHandler")
	ms := c.prog.MethodSets.MethodSet(types.NewPointer(ch))
	found := ""
	for i := 0; i < ms.Len(); i++ {
		fn, ok := ms.At(i).Obj().(*types.Func)
		if !ok || !fn.Exported() {
			continue
		}
		sig := fn.Type().(*types.Signature)
		if sig.Params().Len() != 2 || sig.Results().Len() != 1 || !isErrorType(sig.Results().At(0).Type()) {
			continue
		}
		if pt, ok := sig.Params().At(1).Type().(*types.Pointer); ok && types.Identical(pt.Elem(), nt) {
			found = fn.Name()
		}
	}
	if found == "" {
		return ""
	}
	// not stored anywhere shared: no struct field or package variable of the module has this type
	for _, m := range c.server.Members {
		switch x := m.(type) {
		case *ssa.Global:
			if strings.Contains(typeString(x.Type()), "."+tn) {
				return ""
			}
		case *ssa.Type:
			if st, ok := x.Type().Underlying().(*types.Struct); ok {
				for i := 0; i < st.NumFields(); i++ {
					if strings.Contains(typeString(st.Field(i).Type()), "."+tn) {
						return ""
					}
				}
			}
		}
	}
	return found
}

// rNoLockCopies: a mutex protects nothing once it is copied: no function of the module takes or returns BY VALUE a struct
// that contains a sync lock / wait group / once / atomic value (a method with a value receiver locks the copy made for
// that call), and no such struct is copied out of a pointer (shared by C12: the snapshot lock must be the router's own).
func rNoLockCopies(c *Ctx, rule string) {
	c.floor(rule, 20)
	var hasLock func(t types.Type, seen map[types.Type]bool) bool
	hasLock = func(t types.Type, seen map[types.Type]bool) bool {
		if seen[t] {
			return false
		}
		seen[t] = true
		if n, ok := t.(*types.Named); ok && n.Obj().Pkg() != nil {
			switch n.Obj().Pkg().Path() {
			case "sync":
				switch n.Obj().Name() {
				case "Mutex", "RWMutex", "WaitGroup", "Once", "Cond", "Map", "Pool":
					return true
				}
			case "sync/atomic":
				return true
			}
		}
		switch u := t.Underlying().(type) {
		case *types.Struct:
			for i := 0; i < u.NumFields(); i++ {
				if hasLock(u.Field(i).Type(), seen) {
					return true
				}
			}
		case *types.Array:
			return hasLock(u.Elem(), seen)
		}
		return false
	}
	n := 0
	for _, fn := range c.modFuncs {
		if fn.Synthetic != "" || fn.Signature == nil {
			continue
		}
		n++
		bad := ""
		sig := fn.Signature
		if r := sig.Recv(); r != nil && hasLock(r.Type(), map[types.Type]bool{}) {
			bad = "value receiver of type " + typeString(r.Type())
		}
		for _, tp := range []*types.Tuple{sig.Params(), sig.Results()} {
			for i := 0; i < tp.Len(); i++ {
				if hasLock(tp.At(i).Type(), map[types.Type]bool{}) {
					bad = "parameter / result of type " + typeString(tp.At(i).Type()) + " passed by value"
				}
			}
		}
		// copies made inside: *p loaded as a whole
		for _, b := range fn.Blocks {
			for _, in := range b.Instrs {
				if u, ok := in.(*ssa.UnOp); ok && u.Op == token.MUL && hasLock(u.Type(), map[types.Type]bool{}) {
					if _, isStruct := u.Type().Underlying().(*types.Struct); isStruct {
						bad = "copies a " + typeString(u.Type()) + " (with its locks) at " + c.pos(u.Pos())
					}
				}
			}
		}
		if bad != "" || fn.Signature.Recv() != nil {
			c.ob(rule, "no-lock-copy in "+fname(fn), fn.Pos(), bad == "", true, "a lock must be used where it lives: "+bad)
		}
	}
	c.note("lock-copy rule: %d functions examined", n)
}

// R18.5 "never panics": the pointer a module function returns together with an error is nil whenever the error is not
// (decided per function from its return statements); at every call the pointer is dereferenced - a field, a method of
// its type, an argument the callee dereferences - only where the error is known to be nil or the pointer known not to
// be, also when it travels round a loop first (`req, err = t.StartRequest(req)` in a retry loop hands the nil of a
// refused attempt to the next one).
func rNilOnErrorResults(c *Ctx, rule string) {
	c.floor(rule, 3)
	isErr := func(t types.Type) bool { return typeString(t) == "error" }
	// summary: result i of f is nil on every error return
	nilOnErr := map[*ssa.Function][]bool{}
	for _, f := range c.modFuncs {
		res := f.Signature.Results()
		if res.Len() < 2 || !isErr(res.At(res.Len()-1).Type()) || len(f.Blocks) == 0 {
			continue
		}
		flags := make([]bool, res.Len()-1)
		any := false
		for i := range flags {
			if _, ok := res.At(i).Type().Underlying().(*types.Pointer); ok {
				flags[i] = true
				any = true
			}
		}
		if !any {
			continue
		}
		nErr := 0
		for _, rc := range retCases(f) {
			if len(rc.vals) != res.Len() {
				continue
			}
			e := rc.vals[len(rc.vals)-1]
			if isNilConst(e) {
				continue
			}
			// an error return (or one that may be): the pointer must be the nil constant
			if known, _ := nilKnowledgeOf(rc.conds, sameAs(e)); known {
				continue
			}
			nErr++
			for i := range flags {
				if flags[i] && !isNilConst(rc.vals[i]) {
					flags[i] = false
				}
			}
		}
		if nErr > 0 {
			nilOnErr[f] = flags
		}
	}
	// does callee f dereference its parameter j?
	derefs := func(f *ssa.Function, j int) bool {
		if f == nil || len(f.Blocks) == 0 || j >= len(f.Params) {
			return false
		}
		p := f.Params[j]
		if p.Referrers() == nil {
			return false
		}
		for _, r := range *p.Referrers() {
			switch x := r.(type) {
			case *ssa.FieldAddr:
				return x.X == ssa.Value(p)
			case *ssa.UnOp:
				if x.Op == token.MUL {
					return true
				}
			case ssa.CallInstruction:
				cc := x.Common()
				if sc := cc.StaticCallee(); sc != nil && sc.Signature.Recv() != nil && len(cc.Args) > 0 && cc.Args[0] == ssa.Value(p) {
					if _, isPtr := sc.Signature.Recv().Type().(*types.Pointer); isPtr && !c.inModule(sc) {
						return true // a method of a library type on a nil pointer
					}
				}
			}
		}
		return false
	}
	nSites := 0
	for _, fn := range c.modFuncs {
		for _, b := range fn.Blocks {
			for _, in := range b.Instrs {
				call, ok := in.(*ssa.Call)
				if !ok {
					continue
				}
				f := call.Call.StaticCallee()
				flags, ok := nilOnErr[f]
				if !ok || call.Referrers() == nil {
					continue
				}
				var errV ssa.Value
				ptrs := map[int]*ssa.Extract{}
				for _, r := range *call.Referrers() {
					if ex, ok := r.(*ssa.Extract); ok {
						if ex.Index == len(flags) {
							errV = ex
						} else if ex.Index < len(flags) && flags[ex.Index] {
							ptrs[ex.Index] = ex
						}
					}
				}
				if errV == nil || len(ptrs) == 0 {
					continue
				}
				nSites++
				safeWith := func(conds []condEdge, v ssa.Value) bool {
					if isNil, _ := nilKnowledgeOf(conds, sameAs(errV)); isNil {
						return true
					}
					_, nonNil := nilKnowledgeOf(conds, sameAs(v))
					return nonNil
				}
				for _, ex := range ptrs {
					bad := ""
					var at ssa.Instruction
					seen := map[ssa.Value]bool{}
					work := []ssa.Value{ex}
					for len(work) > 0 && bad == "" {
						v := work[len(work)-1]
						work = work[:len(work)-1]
						if seen[v] || v.Referrers() == nil {
							continue
						}
						seen[v] = true
						for _, r := range *v.Referrers() {
							if phi, ok := r.(*ssa.Phi); ok {
								for k, e := range phi.Edges {
									if e != v {
										continue
									}
									pred := phi.Block().Preds[k]
									conds := dominatingConds(pred)
									if len(pred.Instrs) > 0 {
										if ifi, isIf := pred.Instrs[len(pred.Instrs)-1].(*ssa.If); isIf && pred.Succs[0] != pred.Succs[1] {
											conds = append(conds, condEdge{cond: ifi.Cond, taken: pred.Succs[0] == phi.Block(), ifIn: ifi})
										}
									}
									if !safeWith(conds, v) {
										work = append(work, phi)
									}
								}
								continue
							}
							deref := false
							switch x := r.(type) {
							case *ssa.FieldAddr:
								deref = x.X == v
							case *ssa.UnOp:
								deref = x.Op == token.MUL && x.X == v
							case ssa.CallInstruction:
								cc := x.Common()
								if sc := cc.StaticCallee(); sc != nil {
									for j, a := range cc.Args {
										if a != v {
											continue
										}
										if j == 0 && sc.Signature.Recv() != nil && !c.inModule(sc) {
											if _, isPtr := sc.Signature.Recv().Type().(*types.Pointer); isPtr {
												deref = true
											}
										} else if c.inModule(sc) && derefs(sc, j) {
											deref = true
										}
									}
								}
							}
							if deref && !safeWith(dominatingConds(r.Block()), v) {
								bad = fmt.Sprintf("%s dereferenced at %s where neither the error is known to be nil nor the pointer to be non-nil", v.Name(), c.pos(r.Pos()))
								at = r
							}
						}
					}
					pos := call.Pos()
					if at != nil && at.Pos().IsValid() {
						pos = at.Pos()
					}
					c.ob(rule, fmt.Sprintf("%s/result-%d-of-%s-used-only-where-the-error-is-nil", fname(outer(fn)), ex.Index, fname(f)), pos, bad == "", true,
						"the result is nil whenever the error is not: "+bad)
				}
			}
		}
	}
	c.ob(rule, "nil-on-error-call-sites-examined", token.NoPos, nSites >= 3, false, fmt.Sprintf("%d call sites of module functions that return (pointer, error) with the pointer nil on error", nSites))
}
