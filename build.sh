#!/bin/bash
# builds /verif/bin/kpverify from /verif/checker (offline; module cache only). Rebuilds only when sources changed.
set -eu
VERIF_DIR="$(cd "$(dirname "$0")" && pwd)"
. "$VERIF_DIR/env.sh"
mkdir -p "$VERIF_DIR/bin"
cd "$VERIF_DIR/checker"
if [ -x "$VERIF_DIR/bin/kpverify" ] && [ -z "$(find . -newer "$VERIF_DIR/bin/kpverify" -type f \( -name '*.go' -o -name 'go.mod' -o -name 'go.sum' -o -name '*.txt' \) | head -1)" ]; then
  exit 0
fi
go build -o "$VERIF_DIR/bin/kpverify.tmp.$$" . && mv "$VERIF_DIR/bin/kpverify.tmp.$$" "$VERIF_DIR/bin/kpverify"
