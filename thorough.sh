#!/bin/bash
# thorough tier: the property's rules with the VTA call graph cross-check, then the checker's own two-way test
# (single-edit mutants + stored seeded changes applied to scratch copies under /tmp, each analysed and removed).
VERIF_DIR="$(cd "$(dirname "$0")" && pwd)"
. "$VERIF_DIR/env.sh"
exec python3 "$VERIF_DIR/selftest/thorough.py" "$1" "${2:-/repo}"
