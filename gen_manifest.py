#!/usr/bin/env python3
"""Generates MANIFEST.json from the table below (single source of truth for what is claimed)."""
import json, os
HERE = os.path.dirname(os.path.abspath(__file__))
ENV = "PATH=/root/go/pkg/mod/golang.org/toolchain@v0.0.1-go1.24.2.linux-amd64/bin:$PATH GOTOOLCHAIN=local GOFLAGS=-mod=mod GOPROXY=off GOSUMDB=off"

# id -> (technique, level text, level note)   — only properties whose rules are built and pass on the current tree
CLAIMED = {}
NOT_APPLICABLE = {}
exec(open(os.path.join(HERE, "claims.py")).read())

checks = []
for pid in sorted(CLAIMED):
    tech, text, note = CLAIMED[pid]
    checks.append({
        "property_id": pid,
        "quick_cmd": "./run.sh %s quick" % pid,
        "thorough_cmd": "./run.sh %s thorough" % pid,
        "evidence_file": "/verif/evidence/%s.json" % pid,
        "replay_cmd_template": "cat {path}; ./run.sh %s quick" % pid,
        "engine": "kpverify",
        "level_claimed": {"category": "other", "text": text, "design_ref": "DESIGN.md §3 %s" % pid},
        "level_note": note,
        "technique": tech,
    })
m = {
    "version": 1,
    "setup_cmd": "./build.sh",
    "hooks": {
        "guard": "verif",
        "enable": "none needed: the analyzer only reads /repo's sources (go/packages + go/ssa); nothing in /repo is instrumented",
        "baseline_off_cmd": "cd /repo && " + ENV + " go test -vet=off -count=1 ./...",
        "source_commits": [],
        "add_only": True,
    },
    "engines": [{
        "name": "kpverify", "path": "checker/",
        "serves_properties": sorted(CLAIMED),
        "kind_free_text": "repository-specific static analyzer over the type-checked program and its SSA form (golang.org/x/tools v0.29.0 go/packages, go/ssa, VTA call graph): dominance / must-pass-through, who-may-call / who-may-write inventories, typestate extraction, locksets, constant tables; never executes the code",
    }],
    "checks": checks,
    "not_applicable": [{"property_id": k, "reason": v} for k, v in sorted(NOT_APPLICABLE.items())],
    "notes": "All claims are at level 'other': each check decides structural necessary conditions of its property from /repo's current source (see DESIGN.md per property for what is and is not decided). Known findings: known_findings.json. Seeded breakages and which rule catches them: seeded/ and DESIGN.md §11.",
}
json.dump(m, open(os.path.join(HERE, "MANIFEST.json"), "w"), indent=1)
print("claimed:", sorted(CLAIMED), "n/a:", sorted(NOT_APPLICABLE))
