package server

// Demonstration for known findings K2/K3 (not fixed): a request held by the pause gate keeps the
// *Service it resolved before a redeploy; after redeploy + resume it is forwarded to the REPLACED
// target (already drained and disposed, so it may be gone), not to the targets the service has at
// that moment (C07), and the replaced target receives a request after deploy returned (C03).

import (
	"net/http"
	"net/http/httptest"
	"path/filepath"
	"testing"
	"time"

	"github.com/stretchr/testify/require"
)

func TestFindingK3_HeldRequestIsSentToReplacedTargetAfterRedeploy(t *testing.T) {
	_, first := testBackend(t, "first", 200)
	_, second := testBackend(t, "second", 200)
	router := NewRouter(filepath.Join(t.TempDir(), "state"))
	require.NoError(t, router.DeployService("svc", []string{first}, defaultServiceOptions, defaultTargetOptions, time.Second, time.Second))
	require.NoError(t, router.PauseService("svc", time.Second, 5*time.Second))

	body := make(chan string)
	go func() {
		w := httptest.NewRecorder()
		router.ServeHTTP(w, httptest.NewRequest(http.MethodGet, "http://example.com/", nil))
		body <- w.Body.String()
	}()
	time.Sleep(50 * time.Millisecond) // the request is now held by the pause gate

	require.NoError(t, router.DeployService("svc", []string{second}, defaultServiceOptions, defaultTargetOptions, time.Second, time.Second))
	require.NoError(t, router.ResumeService("svc"))

	require.Equal(t, "second", <-body, "held request must go to the targets the service has when it is resumed")
}
