package server

// Demonstration for defect K7: a sub-path service inherits tls_enabled from the root-path service of
// its host (ServiceMap.syncTLSOptionsFromRootDomain rewrites its options in place), and that inherited
// flag is what the state file records. On restart Service.UnmarshalJSON -> initialize ->
// createCertManager takes the saved flag at face value: the sub-path service has no certificate paths
// of its own, so it is treated as an automatic-TLS service, and when the host is a wildcard this is
// refused (ErrorAutomaticTLSDoesNotSupportWildcards) - decoding the whole state file fails and the
// restarted proxy comes up with NO services at all.
// Run: cp this file into /repo/internal/server/ and `go test -run TestDefectK7 ./internal/server`.

import (
	"testing"

	"github.com/stretchr/testify/require"
)

func TestDefectK7_WildcardRootWithSubPathServiceSurvivesRestart(t *testing.T) {
	certPath, keyPath := prepareTestCertificateFiles(t)
	_, target := testBackend(t, "root", 200)
	_, apiTarget := testBackend(t, "api", 200)

	router := testRouter(t)
	rootOptions := ServiceOptions{Hosts: []string{"*.example.com"}, PathPrefixes: []string{"/"}, TLSEnabled: true, TLSCertificatePath: certPath, TLSPrivateKeyPath: keyPath}
	require.NoError(t, router.DeployService("root", []string{target}, rootOptions, defaultTargetOptions, DefaultDeployTimeout, DefaultDrainTimeout))
	apiOptions := ServiceOptions{Hosts: []string{"*.example.com"}, PathPrefixes: []string{"/api"}}
	require.NoError(t, router.DeployService("api", []string{apiTarget}, apiOptions, defaultTargetOptions, DefaultDeployTimeout, DefaultDrainTimeout))

	restarted := NewRouter(router.statePath)
	require.NoError(t, restarted.RestoreLastSavedState(), "the state file written by a healthy proxy must restore")
	require.Len(t, restarted.ListActiveServices(), 2)
}
