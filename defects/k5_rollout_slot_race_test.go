package server

// Demonstration for defect K5 (fixed): Service.rollout / Service.rolloutController were written
// under Service.serviceLock by `rollout deploy` / `rollout set` / `rollout stop` on the LIVE
// service but read lock-free on the request path (and by Drain, Dispose, MarshalJSON,
// CopyWithOptions). Fails only under `go test -race` on the unfixed tree.

import (
	"net/http"
	"net/http/httptest"
	"sync"
	"testing"
)

func TestDefectK5_RolloutSplitRace(t *testing.T) {
	_, target := testBackend(t, "ok", 200)
	s, err := NewService("svc", defaultServiceOptions, defaultTargetOptions)
	if err != nil {
		t.Fatal(err)
	}
	tl, _ := NewTargetList([]string{target}, defaultTargetOptions)
	s.UpdateLoadBalancer(NewLoadBalancer(tl), TargetSlotActive)
	tl2, _ := NewTargetList([]string{target}, defaultTargetOptions)
	s.UpdateLoadBalancer(NewLoadBalancer(tl2), TargetSlotRollout)
	defer s.Dispose()

	var wg sync.WaitGroup
	wg.Add(2)
	go func() {
		defer wg.Done()
		for i := 0; i < 500; i++ {
			s.SetRolloutSplit(50, nil)
			s.StopRollout()
		}
	}()
	go func() {
		defer wg.Done()
		req := httptest.NewRequest(http.MethodGet, "/", nil)
		req.AddCookie(&http.Cookie{Name: RolloutCookieName, Value: "x"})
		for i := 0; i < 500; i++ {
			s.loadBalancerForRequest(req)
		}
	}()
	wg.Wait()
}
