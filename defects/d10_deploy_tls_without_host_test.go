package cmd

// Demonstration for defects D10/D11 (fixed): `deploy --tls` without --host was NOT refused by the
// pre-flight check, because preRun normalised the options first (no host becomes [""]) and then
// tested len(Hosts)==0; and a body-size limit was accepted with the buffering flag given as =false
// (the check looked at whether the flag was passed, not at its value).

import (
	"testing"
)

func TestDefectD10_DeployTLSWithoutHostIsRefusedBeforeContactingProxy(t *testing.T) {
	c := newDeployCommand()
	if err := c.cmd.ParseFlags([]string{"--target", "app:3000", "--tls"}); err != nil {
		t.Fatal(err)
	}
	if err := c.preRun(c.cmd, []string{"svc"}); err == nil {
		t.Fatal("deploy --tls without --host must be refused by the pre-flight validation")
	}
}

func TestDefectD11_BodyLimitWithBufferingDisabledIsRefused(t *testing.T) {
	c := newDeployCommand()
	if err := c.cmd.ParseFlags([]string{"--target", "app:3000", "--max-request-body", "5", "--buffer-requests=false"}); err != nil {
		t.Fatal(err)
	}
	if err := c.preRun(c.cmd, []string{"svc"}); err == nil {
		t.Fatal("max-request-body without request buffering enabled must be refused")
	}
}
