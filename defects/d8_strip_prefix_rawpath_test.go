package server

// Demonstration for defect D8 (fixed): with prefix stripping, rewrite trimmed URL.Path but left
// URL.RawPath carrying the prefix; EscapedPath() then discarded the client's encoding, so
// /app/a%2Fb reached the target as /a/b (and as /app/a%2Fb, untouched, without stripping).

import (
	"net/http"
	"net/http/httptest"
	"path/filepath"
	"testing"
	"time"

	"github.com/stretchr/testify/require"
)

func TestDefectD8_StripPrefixKeepsPercentEncoding(t *testing.T) {
	var seen string
	_, target := testBackendWithHandler(t, func(w http.ResponseWriter, r *http.Request) {
		if r.URL.Path != DefaultHealthCheckPath {
			seen = r.RequestURI
		}
	})
	router := NewRouter(filepath.Join(t.TempDir(), "state"))
	opts := ServiceOptions{PathPrefixes: []string{"/app"}, StripPrefix: true}
	require.NoError(t, router.DeployService("svc", []string{target}, opts, defaultTargetOptions, time.Second, time.Second))

	req := httptest.NewRequest(http.MethodGet, "http://example.com/app/a%2Fb?x=1", nil)
	w := httptest.NewRecorder()
	router.ServeHTTP(w, req)
	require.Equal(t, http.StatusOK, w.Result().StatusCode)
	require.Equal(t, "/a%2Fb?x=1", seen)
}
