package server

// Demonstration for finding K8: a redeploy works on a COPY of the service whose rollout slot and split were read when the
// copy was made, i.e. before the (long) health wait; the copy is installed afterwards. A `rollout stop` (or `rollout set`,
// or `rollout deploy`) that is issued and acknowledged in between is silently undone when the copy replaces the live
// service: after `rollout stop` has returned, opted-in requests are sent to the rollout targets again (C10), and the
// state file says so too.

import (
	"net/http"
	"net/http/httptest"
	"path/filepath"
	"testing"
	"time"

	"github.com/stretchr/testify/require"
)

func TestFindingK8_RolloutStopAcknowledgedDuringRedeployIsUndone(t *testing.T) {
	_, active1 := testBackend(t, "active-1", 200)
	_, rollout := testBackend(t, "rollout", 200)
	release := make(chan struct{})
	_, active2 := testBackendWithHandler(t, func(w http.ResponseWriter, r *http.Request) {
		if r.URL.Path == "/up" {
			<-release // the new target's first health check hangs until the test lets it through
		}
		w.Write([]byte("active-2"))
	})

	router := NewRouter(filepath.Join(t.TempDir(), "state"))
	require.NoError(t, router.DeployService("svc", []string{active1}, defaultServiceOptions, defaultTargetOptions, time.Second, time.Second))
	require.NoError(t, router.SetRolloutTargets("svc", []string{rollout}, time.Second, time.Second))
	require.NoError(t, router.SetRolloutSplit("svc", 100, nil))

	optedIn := func() string {
		req := httptest.NewRequest(http.MethodGet, "http://example.com/", nil)
		req.AddCookie(&http.Cookie{Name: RolloutCookieName, Value: "someone"})
		w := httptest.NewRecorder()
		router.ServeHTTP(w, req)
		return w.Body.String()
	}
	require.Equal(t, "rollout", optedIn())

	done := make(chan error)
	go func() {
		done <- router.DeployService("svc", []string{active2}, defaultServiceOptions, defaultTargetOptions, 5*time.Second, time.Second)
	}()
	time.Sleep(100 * time.Millisecond) // the redeploy is now waiting for active-2 to become healthy

	require.NoError(t, router.StopRollout("svc")) // acknowledged
	require.Equal(t, "active-1", optedIn(), "after rollout stop every request goes to the active targets")

	close(release)
	require.NoError(t, <-done)

	require.Equal(t, "active-2", optedIn(), "rollout stop was acknowledged before the redeploy finished: it must still be in force")
}
