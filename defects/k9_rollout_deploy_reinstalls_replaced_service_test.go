package server

// Demonstration for finding K9: a rollout deploy looks the service up, waits for its targets to become healthy, and then
// installs the object it looked up. A redeploy acknowledged in between installed a copy; the rollout deploy puts the old
// object back, whose active balancer was drained and disposed: traffic returns to the replaced targets (C03).

import (
	"net/http"
	"path/filepath"
	"testing"
	"time"

	"github.com/stretchr/testify/require"
)

func TestFindingK9_RolloutDeployFinishingAfterRedeployPutsTheOldServiceBack(t *testing.T) {
	_, active1 := testBackend(t, "active-1", 200)
	_, active2 := testBackend(t, "active-2", 200)
	release := make(chan struct{})
	_, rollout := testBackendWithHandler(t, func(w http.ResponseWriter, r *http.Request) {
		if r.URL.Path == "/up" {
			<-release
		}
		w.Write([]byte("rollout"))
	})

	router := NewRouter(filepath.Join(t.TempDir(), "state"))
	require.NoError(t, router.DeployService("svc", []string{active1}, defaultServiceOptions, defaultTargetOptions, time.Second, time.Second))

	done := make(chan error)
	go func() {
		done <- router.SetRolloutTargets("svc", []string{rollout}, 5*time.Second, time.Second)
	}()
	time.Sleep(100 * time.Millisecond) // the rollout deploy is now waiting for its target to become healthy

	require.NoError(t, router.DeployService("svc", []string{active2}, defaultServiceOptions, defaultTargetOptions, time.Second, time.Second))
	_, body := sendGETRequest(router, "http://example.com/")
	require.Equal(t, "active-2", body)

	close(release)
	require.NoError(t, <-done)

	_, body = sendGETRequest(router, "http://example.com/")
	require.Equal(t, "active-2", body, "the redeploy was acknowledged: its targets must stay in service")
}
