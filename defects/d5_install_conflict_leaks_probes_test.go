package server

// Demonstration for defect D5 (fixed): when installService rejected a deploy (host conflict)
// after the new targets had become healthy, the new load balancer was never disposed: the
// proxy kept probing the rejected targets forever.

import (
	"net/http"
	"path/filepath"
	"sync/atomic"
	"testing"
	"time"

	"github.com/stretchr/testify/require"
)

func TestDefectD5_RejectedDeployStopsProbing(t *testing.T) {
	router := NewRouter(filepath.Join(t.TempDir(), "state"))
	_, first := testBackend(t, "first", 200)

	var probes atomic.Int64
	_, second := testBackendWithHandler(t, func(w http.ResponseWriter, r *http.Request) { probes.Add(1) })

	opts := ServiceOptions{Hosts: []string{"example.com"}}
	to := defaultTargetOptions
	to.HealthCheckConfig.Interval = 10 * time.Millisecond
	require.NoError(t, router.DeployService("one", []string{first}, opts, to, time.Second, time.Second))
	require.ErrorIs(t, router.DeployService("two", []string{second}, opts, to, time.Second, time.Second), ErrorHostInUse)

	time.Sleep(50 * time.Millisecond)
	before := probes.Load()
	time.Sleep(200 * time.Millisecond)
	require.Equal(t, before, probes.Load(), "rejected target is still being probed")
}
