package server

// Demonstration for defect K6 (fixed): inflightRequest.hijacked was a plain bool written by
// targetResponseWriter.Hijack on the request goroutine and read by Target.Drain on a command
// goroutine with no synchronisation between them. Fails only under `go test -race` on the
// unfixed tree (WARNING: DATA RACE, target.go Hijack vs Drain); passes with the atomic flag.

import (
	"bufio"
	"net"
	"net/http"
	"net/http/httptest"
	"sync"
	"testing"
	"time"
)

type fakeHijacker struct{ http.ResponseWriter }

func (fakeHijacker) Hijack() (net.Conn, *bufio.ReadWriter, error) { return nil, nil, nil }

func TestDefectK6_HijackedFlagRace(t *testing.T) {
	target := testTarget(t, func(w http.ResponseWriter, r *http.Request) {})
	var wg sync.WaitGroup
	for i := 0; i < 100; i++ {
		req, err := target.StartRequest(httptest.NewRequest(http.MethodGet, "/", nil))
		if err != nil {
			continue
		}
		tw := newTargetResponseWriter(fakeHijacker{httptest.NewRecorder()}, target.getInflightRequest(req))
		wg.Add(2)
		go func() { defer wg.Done(); tw.Hijack() }()
		go func() { defer wg.Done(); target.Drain(time.Millisecond) }()
		wg.Wait()
		target.endInflightRequest(req)
	}
}
