package server

// Demonstration for defect D3 (fixed): a paused PauseController restored from JSON had no
// pause channel; Resume()/Stop() then did close(nil) and the process died.
// Run: cp this file into /repo/internal/server/ and `go test -run TestDefectD3 ./internal/server`.

import (
	"encoding/json"
	"testing"
	"time"

	"github.com/stretchr/testify/require"
)

func TestDefectD3_RestoredPausedControllerCanBeResumed(t *testing.T) {
	p := NewPauseController()
	require.NoError(t, p.Pause(time.Second))
	data, err := json.Marshal(p)
	require.NoError(t, err)

	var restored PauseController
	require.NoError(t, json.Unmarshal(data, &restored))
	require.Equal(t, PauseStatePaused, restored.GetState())

	done := make(chan PauseWaitAction)
	go func() { a, _ := restored.Wait(); done <- a }()
	time.Sleep(20 * time.Millisecond)
	require.NotPanics(t, func() { restored.Resume() })
	require.Equal(t, PauseWaitActionProceed, <-done)
}
