package server

// Demonstration for defect D4 (fixed): every restored service got a non-nil, empty rollout
// load balancer, so after a restart `rollout set` was accepted for a service without rollout
// targets and cookie-bearing requests were answered 503 from the empty rotation.

import (
	"encoding/json"
	"testing"

	"github.com/stretchr/testify/require"
)

func TestDefectD4_RestoredServiceWithoutRolloutTargetsRejectsSplit(t *testing.T) {
	_, target := testBackend(t, "first", 200)
	s, err := NewService("svc", defaultServiceOptions, defaultTargetOptions)
	require.NoError(t, err)
	tl, err := NewTargetList([]string{target}, defaultTargetOptions)
	require.NoError(t, err)
	s.UpdateLoadBalancer(NewLoadBalancer(tl), TargetSlotActive)
	require.ErrorIs(t, s.SetRolloutSplit(50, nil), ErrorRolloutTargetNotSet)

	data, err := json.Marshal(s)
	require.NoError(t, err)
	var restored Service
	require.NoError(t, json.Unmarshal(data, &restored))
	require.ErrorIs(t, restored.SetRolloutSplit(50, nil), ErrorRolloutTargetNotSet)
	s.Dispose()
	restored.Dispose()
}
