#!/usr/bin/env python3
"""Two-way test of the checker: apply single-edit mutants of /repo's current tree to a scratch copy
(outside /repo and /verif, removed afterwards), run the property's rules on it and require that the
broken construct is reported (exit 1 + VIOLATION, and the expected rule named).
usage: mutate.py [-p Cxx] [-m mutant_id] [-j N] [--json out.json] [--keep]"""
import argparse, json, os, shutil, subprocess, sys, tempfile, concurrent.futures as cf

VERIF = os.environ.get("VERIF_DIR", os.path.dirname(os.path.dirname(os.path.abspath(__file__))))
REPO = os.environ.get("VERIF_REPO", "/repo")

def load_mutants():
    out = []
    d = os.path.join(VERIF, "selftest", "mutants")
    for fn in sorted(os.listdir(d)):
        if fn.endswith(".json"):
            for m in json.load(open(os.path.join(d, fn))):
                out.append(m)
    return out

def run_one(m, keep=False):
    tmp = tempfile.mkdtemp(prefix="kpmut_")
    res = {"id": m["id"], "property": m["property"], "expect": m.get("expect", ""), "note": m.get("note", "")}
    try:
        dst = os.path.join(tmp, "repo")
        shutil.copytree(REPO, dst, ignore=shutil.ignore_patterns(".git"))
        for e in m["edits"]:
            p = os.path.join(dst, e["file"])
            s = open(p).read()
            if s.count(e["old"]) < 1:
                res["status"] = "skipped"; res["detail"] = "edit no longer applies: %r not in %s" % (e["old"][:60], e["file"])
                return res
            s = s.replace(e["old"], e["new"], 1)
            open(p, "w").write(s)
        env = dict(os.environ, VERIF_DIR=tmp + "/verif")
        os.makedirs(tmp + "/verif", exist_ok=True)
        shutil.copy(os.path.join(VERIF, "known_findings.json"), tmp + "/verif/known_findings.json")
        cmd = [os.path.join(VERIF, "bin", "kpverify"), "-repo", dst, "-property", m["property"], "-tier", "quick"]
        r = subprocess.run(cmd, capture_output=True, text=True, env=env, timeout=600)
        out = r.stdout + r.stderr
        res["exit"] = r.returncode
        viol = [l for l in out.splitlines() if "VIOLATED" in l or "UNDECIDED" in l]
        res["reported"] = viol[:6]
        fired = r.returncode == 1 and "VIOLATION property=" + m["property"] in out
        named = (not m.get("expect")) or any(m["expect"] in l for l in viol)
        if "load/type errors" in out or "ERROR loading" in out:
            res["status"] = "does-not-compile"; res["detail"] = out[:400]
        elif fired and named:
            res["status"] = "caught"
        elif fired:
            res["status"] = "caught-other-rule"
        else:
            res["status"] = "MISSED"
        return res
    finally:
        if not keep:
            shutil.rmtree(tmp, ignore_errors=True)

def main():
    ap = argparse.ArgumentParser()
    ap.add_argument("-p", "--property"); ap.add_argument("-m", "--mutant"); ap.add_argument("-j", type=int, default=8)
    ap.add_argument("--json"); ap.add_argument("--keep", action="store_true")
    a = ap.parse_args()
    ms = [m for m in load_mutants() if (not a.property or m["property"] == a.property) and (not a.mutant or m["id"] == a.mutant)]
    with cf.ThreadPoolExecutor(max_workers=a.j) as ex:
        results = list(ex.map(lambda m: run_one(m, a.keep), ms))
    bad = 0
    for r in results:
        print("%-16s %-4s %-44s %s" % (r["status"], r["property"], r["id"], (r.get("reported") or [r.get("detail", "")])[0][:150] if r["status"] != "caught" else ""))
        if r["status"] in ("MISSED", "caught-other-rule", "does-not-compile"):
            bad += 1
    if a.json:
        json.dump(results, open(a.json, "w"), indent=1)
    print("mutants: %d, caught: %d, skipped: %d, not-ok: %d" % (len(results), sum(r["status"] == "caught" for r in results), sum(r["status"] == "skipped" for r in results), bad))
    sys.exit(1 if bad else 0)

if __name__ == "__main__":
    main()
