#!/usr/bin/env python3
"""For every revert-of-fix mutant, show the (rule, construct) pairs the checker reports, and check that
each 'fixed' entry of known_findings.json names a pair that really fires when its fix is reverted."""
import json, os, shutil, subprocess, tempfile, sys, re
V=os.path.dirname(os.path.dirname(os.path.abspath(__file__)))
sys.path.insert(0, os.path.join(V,'selftest'))
import mutate
reverts=[m for m in mutate.load_mutants() if 'reverts fix' in m.get('note','')]
fired={}
for m in reverts:
    tmp=tempfile.mkdtemp(prefix='kpfix_')
    try:
        dst=os.path.join(tmp,'repo'); shutil.copytree('/repo',dst,ignore=shutil.ignore_patterns('.git'))
        ok=True
        for e in m['edits']:
            p=os.path.join(dst,e['file']); s=open(p).read()
            if e['old'] not in s: ok=False; break
            open(p,'w').write(s.replace(e['old'],e['new'],1))
        if not ok: print('SKIP',m['id']); continue
        os.makedirs(tmp+'/verif'); shutil.copy(V+'/known_findings.json',tmp+'/verif/')
        subprocess.run([V+'/bin/kpverify','-repo',dst,'-property',m['property']],capture_output=True,text=True,env=dict(os.environ,VERIF_DIR=tmp+'/verif'))
        rd=os.path.join(tmp,'verif','replay',m['property'])
        for fn in (os.listdir(rd) if os.path.isdir(rd) else []):
            r=json.load(open(os.path.join(rd,fn)))
            fired.setdefault(m['property'],set()).add((r['rule'],r['construct']))
    finally: shutil.rmtree(tmp,ignore_errors=True)
bad=0
for f in json.load(open(V+'/known_findings.json')):
    if f['status']!='fixed': continue
    hit=(f['rule'],f['construct']) in fired.get(f['property'],set())
    print(('ok  ' if hit else 'MISS'), f['property'], f['rule'], '|', f['construct'])
    if not hit:
        bad+=1
        for r,c in sorted(fired.get(f['property'],set())):
            if r==f['rule']: print('       candidates:', c)
sys.exit(1 if bad else 0)
