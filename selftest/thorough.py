#!/usr/bin/env python3
import json, os, shutil, subprocess, sys, tempfile, time, concurrent.futures as cf
V = os.path.dirname(os.path.dirname(os.path.abspath(__file__)))
sys.path.insert(0, os.path.join(V, "selftest"))
prop, repo = sys.argv[1], sys.argv[2]
os.environ["VERIF_REPO"] = repo
import mutate
t0 = time.time()
r = subprocess.run([os.path.join(V, "bin", "kpverify"), "-repo", repo, "-property", prop, "-tier", "thorough"], text=True, capture_output=True, env=dict(os.environ, VERIF_DIR=V))
sys.stdout.write(r.stdout); sys.stderr.write(r.stderr)
verdict = r.returncode
if verdict not in (0, 1):
    # the analyzer died before reaching a verdict: the property was not decided
    os.makedirs(os.path.join(V, "replay", prop), exist_ok=True)
    cp = os.path.join(V, "replay", prop, "analyzer_crash.txt")
    open(cp, "w").write("analyzer exited with status %d on %s\n%s" % (verdict, repo, r.stderr[-4000:]))
    print("UNDECIDED: the analyzer exited with status %d before reaching a verdict" % verdict)
    print("VIOLATION property=%s replay=%s" % (prop, cp))
    verdict = 1
# two-way test of the checker (does not change the verdict on /repo)
ms = [m for m in mutate.load_mutants() if m["property"] == prop]
with cf.ThreadPoolExecutor(max_workers=8) as ex:
    mres = list(ex.map(mutate.run_one, ms))
def seeded_one(d):
    meta = json.load(open(os.path.join(d, "meta.json")))
    tmp = tempfile.mkdtemp(prefix="kpseed_")
    try:
        dst = os.path.join(tmp, "repo")
        shutil.copytree(repo, dst, ignore=shutil.ignore_patterns(".git"))
        a = subprocess.run(["git", "apply", "--directory", "repo", os.path.join(d, "patch.diff")], cwd=tmp, capture_output=True, text=True)
        if a.returncode != 0:
            a = subprocess.run(["patch", "-p1", "-s", "-i", os.path.join(d, "patch.diff")], cwd=dst, capture_output=True, text=True)
            if a.returncode != 0:
                return {"id": meta["id"], "status": "skipped", "detail": "patch no longer applies"}
        os.makedirs(tmp + "/verif"); shutil.copy(os.path.join(V, "known_findings.json"), tmp + "/verif/")
        x = subprocess.run([os.path.join(V, "bin", "kpverify"), "-repo", dst, "-property", prop], capture_output=True, text=True, env=dict(os.environ, VERIF_DIR=tmp + "/verif"))
        fired = [l for l in x.stdout.splitlines() if "VIOLATED" in l or "UNDECIDED" in l]
        return {"id": meta["id"], "status": "caught" if x.returncode == 1 else "MISSED", "reported": [f[:200] for f in fired[:3]]}
    finally:
        shutil.rmtree(tmp, ignore_errors=True)
sdirs = []
sd = os.path.join(V, "seeded")
for n in sorted(os.listdir(sd)):
    mp = os.path.join(sd, n, "meta.json")
    if os.path.exists(mp) and json.load(open(mp)).get("breaks_property") == prop:
        sdirs.append(os.path.join(sd, n))
with cf.ThreadPoolExecutor(max_workers=4) as ex:
    sres = list(ex.map(seeded_one, sdirs))
# the other direction: behaviour-preserving variants (benign/) must NOT make this property's check fail
import hashlib
def tree_key():
    h = hashlib.sha256()
    for root, dirs, files in os.walk(repo):
        dirs[:] = sorted(x for x in dirs if x != ".git")
        for f in sorted(files):
            if f.endswith(".go") or f in ("go.mod", "go.sum"):
                fp = os.path.join(root, f)
                h.update(fp.encode()); h.update(open(fp, "rb").read())
    for f in ("bin/kpverify", "known_findings.json"):
        st = os.stat(os.path.join(V, f)); h.update(("%s:%d:%d" % (f, st.st_size, int(st.st_mtime))).encode())
    return h.hexdigest()[:24]
TREE = tree_key()
CACHE = os.path.join(V, ".cache", "benign")
os.makedirs(CACHE, exist_ok=True)
def benign_one(d):
    # one analysis of the variant decides all 20 properties; the verdicts are cached under a key made of the analysed
    # tree's sources, the analyzer binary, the findings file and the variant itself (so nothing stale is ever reused)
    key = hashlib.sha256((TREE + open(os.path.join(d, "patch.diff")).read()).encode()).hexdigest()[:32]
    cp = os.path.join(CACHE, key + ".json")
    if os.path.exists(cp):
        try:
            return {"id": os.path.basename(d), "status": json.load(open(cp)).get(prop, "silent")}
        except Exception:
            pass
    tmp = tempfile.mkdtemp(prefix="kpben_")
    try:
        dst = os.path.join(tmp, "repo")
        shutil.copytree(repo, dst, ignore=shutil.ignore_patterns(".git"))
        a = subprocess.run(["git", "apply", "--directory", "repo", os.path.join(d, "patch.diff")], cwd=tmp, capture_output=True, text=True)
        if a.returncode != 0:
            return {"id": os.path.basename(d), "status": "skipped"}
        os.makedirs(tmp + "/verif"); shutil.copy(os.path.join(V, "known_findings.json"), tmp + "/verif/")
        x = subprocess.run([os.path.join(V, "bin", "kpverify"), "-repo", dst, "-property", "all"], capture_output=True, text=True, env=dict(os.environ, VERIF_DIR=tmp + "/verif"))
        import re as _re
        alarms = set(_re.findall(r"^VIOLATION property=(C\d+)", x.stdout, _re.M))
        if "ERROR" in x.stdout and not alarms and x.returncode != 0:
            return {"id": os.path.basename(d), "status": "skipped"}
        verdicts = {("C%02d" % i): ("ALARM" if ("C%02d" % i) in alarms else "silent") for i in range(1, 21)}
        tmpf = cp + ".%d" % os.getpid()
        json.dump(verdicts, open(tmpf, "w")); os.replace(tmpf, cp)
        return {"id": os.path.basename(d), "status": verdicts.get(prop, "silent")}
    finally:
        shutil.rmtree(tmp, ignore_errors=True)
bd = os.path.join(V, "benign")
bdirs = [os.path.join(bd, n) for n in sorted(os.listdir(bd)) if os.path.exists(os.path.join(bd, n, "patch.diff"))] if os.path.isdir(bd) else []
# one analysis of a variant decides all 20 properties and is cached; to keep a single thorough run bounded, a run analyses
# the variants that are not cached yet only for its own quarter of the corpus (by property number) - the other properties'
# runs fill in the rest, and everything cached is always reported
def cached(d):
    key = hashlib.sha256((TREE + open(os.path.join(d, "patch.diff")).read()).encode()).hexdigest()[:32]
    return os.path.exists(os.path.join(CACHE, key + ".json"))
shard = int(prop[1:]) % 4
mine = [d for i, d in enumerate(bdirs) if cached(d) or i % 4 == shard or os.environ.get("VERIF_BENIGN_ALL")]
with cf.ThreadPoolExecutor(max_workers=8) as ex:
    bres = list(ex.map(benign_one, mine))
summ = {
    "benign_corpus": len(bdirs), "benign_variants": len(bres), "benign_silent": sum(x["status"] == "silent" for x in bres),
    "benign_alarms": [x["id"] for x in bres if x["status"] == "ALARM"], "benign_skipped": [x["id"] for x in bres if x["status"] == "skipped"],
    "mutants": len(mres), "mutants_caught": sum(x["status"] == "caught" for x in mres),
    "mutants_not_caught": [x["id"] + ":" + x["status"] for x in mres if x["status"] != "caught"],
    "seeded_changes": len(sres), "seeded_caught": sum(x["status"] == "caught" for x in sres),
    "seeded_not_caught": [x["id"] + ":" + x["status"] for x in sres if x["status"] != "caught"],
    "note": "each variant is a scratch copy of the analysed tree with one edit (mutants) or one stored independent change (seeded); it must make this property's check exit 1 naming the construct; each benign variant (a behaviour-preserving change produced independently) must leave the check at exit 0; variants are analysed, never executed",
}
ev_path = os.path.join(V, "evidence", prop + ".json")
try:
    ev = json.load(open(ev_path))
    ev["coverage"]["checker_two_way_test"] = summ
    ev["coverage"]["evaluations"] = ev["coverage"].get("evaluations", 0) + len(mres) + len(sres) + len(bres)
    ev["wall_s"] = time.time() - t0
    json.dump(ev, open(ev_path, "w"), indent=1)
except Exception as e:
    print("ERROR updating evidence:", e); verdict = verdict or 1
print("%s thorough two-way test: mutants %d/%d caught, seeded %d/%d caught %s; benign %d/%d silent %s" % (prop, summ["mutants_caught"], summ["mutants"], summ["seeded_caught"], summ["seeded_changes"], summ["mutants_not_caught"] + summ["seeded_not_caught"], summ["benign_silent"], summ["benign_variants"], summ["benign_alarms"]))
sys.exit(verdict)
