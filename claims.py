CLAIMED["C01"] = (
 "SSA dominance + who-may-write/call inventory + typestate extraction (static analysis)",
 "Structural necessary conditions decided on every path of the current source: publication of a new balancer is dominated by the nil-error branch of the all-targets health wait; complete writer/caller inventory of the publication points; Target typestate extracted from all stores to Target.state (only a successful probe promotes); probe success = no transport error and status exactly in [200,299] under a timeout context; rotation filled only under State()==healthy. A violation names the construct. Not a proof of the behavioural property: timing and library behaviour are outside.",
 "Trusted: go/types+go/ssa IR, stdlib semantics, the frozen allow-tables printed in evidence. Not decided: elapsed-time clauses.")
for _p in ["C02","C03","C04","C05","C06","C07","C08","C09","C10","C11","C12","C13","C14","C15","C16","C17","C18","C19","C20"]:
    NOT_APPLICABLE[_p] = "rules designed in DESIGN.md but not yet built in this tree; not claimed until the check exists and passes"
