CLAIMED["C01"] = (
 "SSA dominance + who-may-write/call inventory + typestate extraction (static analysis)",
 "Structural necessary conditions decided on every path of the current source: publication of a new balancer is dominated by the nil-error branch of the all-targets health wait; complete writer/caller inventory of the publication points; Target typestate extracted from all stores to Target.state (only a successful probe promotes); probe success = no transport error and status exactly in [200,299] under a timeout context; rotation filled only under State()==healthy. A violation names the construct. Not a proof of the behavioural property: timing and library behaviour are outside.",
 "Trusted: go/types+go/ssa IR, stdlib semantics, the frozen allow-tables printed in evidence. Not decided: elapsed-time clauses.")
CLAIMED["C02"] = (
 "SSA dominance/path ordering + interprocedural lockset analysis + exhaustive response-status inventory (static analysis)",
 "Decides the program-order skeleton that every interleaving of a redeploy relies on: deploy step order (gate < slot update < install < drain replaced < dispose replaced) on all paths; the probe callback never refreshes the rotation after releasing the deploy's waiters; every access of the routing table is under Router.serviceLock in the right mode (must-hold locksets through the with*Lock wrappers); complete table of proxy-generated status codes. One listed known finding (K1). Does NOT explore interleavings.",
 "Trusted: go/ssa IR, lock wrappers recognised by structure, frozen status table. Not decided: general interleavings of requests with deploy steps; byte-level response identity.")
for _p in ["C03","C04","C05","C06","C07","C08","C09","C10","C11","C12","C13","C14","C15","C16","C17","C18","C19","C20"]:
    NOT_APPLICABLE[_p] = "rules designed in DESIGN.md but not yet built in this tree; not claimed until the check exists and passes"
