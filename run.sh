#!/bin/bash
# usage: ./run.sh <Cxx|all> [quick|thorough]   — builds the analyzer if needed, then analyses /repo's working tree
set -u
VERIF_DIR="$(cd "$(dirname "$0")" && pwd)"
export VERIF_DIR
. "$VERIF_DIR/env.sh"
"$VERIF_DIR/build.sh" >&2 || { echo "ERROR: analyzer build failed"; echo "VIOLATION property=${1:-?} replay=$VERIF_DIR/replay/build_failure"; exit 1; }
PROP="${1:?property id}"
TIER="${2:-${VERIF_TIER:-quick}}"
REPO="${VERIF_REPO:-/repo}"
if [ "$TIER" = thorough ] && [ -x "$VERIF_DIR/thorough.sh" ]; then
  exec "$VERIF_DIR/thorough.sh" "$PROP" "$REPO"
fi
"$VERIF_DIR/bin/kpverify" -repo "$REPO" -property "$PROP" -tier "$TIER"
rc=$?
if [ $rc -ne 0 ] && [ $rc -ne 1 ]; then
  # the analyzer itself died (it reports every verdict with exit 0 or 1): the property was not decided
  mkdir -p "$VERIF_DIR/replay/$PROP"
  echo "analyzer exited with status $rc on $REPO" > "$VERIF_DIR/replay/$PROP/analyzer_crash.txt"
  echo "UNDECIDED: the analyzer exited with status $rc before reaching a verdict"
  echo "VIOLATION property=$PROP replay=$VERIF_DIR/replay/$PROP/analyzer_crash.txt"
  exit 1
fi
exit $rc
