#!/bin/bash
# usage: ./run.sh <Cxx|all> [quick|thorough]   — builds the analyzer if needed, then analyses /repo's working tree
set -u
VERIF_DIR="$(cd "$(dirname "$0")" && pwd)"
export VERIF_DIR
. "$VERIF_DIR/env.sh"
"$VERIF_DIR/build.sh" >&2 || { echo "ERROR: analyzer build failed"; echo "VIOLATION property=${1:-?} replay=$VERIF_DIR/replay/build_failure"; exit 1; }
PROP="${1:?property id}"
TIER="${2:-${VERIF_TIER:-quick}}"
REPO="${VERIF_REPO:-/repo}"
if [ "$TIER" = thorough ] && [ -x "$VERIF_DIR/thorough.sh" ]; then
  exec "$VERIF_DIR/thorough.sh" "$PROP" "$REPO"
fi
exec "$VERIF_DIR/bin/kpverify" -repo "$REPO" -property "$PROP" -tier "$TIER"
