# toolchain recipe (DESIGN.md §1): the Go 1.24.2 the repository is built with, fully offline
GO1242=/root/go/pkg/mod/golang.org/toolchain@v0.0.1-go1.24.2.linux-amd64/bin
if [ -x "$GO1242/go" ]; then
  export PATH="$GO1242:$PATH"
fi
export GOTOOLCHAIN=local GOFLAGS=-mod=mod GOPROXY=off GOSUMDB=off CGO_ENABLED=0
unset GOWORK
